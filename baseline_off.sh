#!/bin/bash
# Builds /repo/_build (hook guard OFF: no -DDRACO_VERIF) and runs the repository's
# test binaries. Exit 0 iff at least 187 tests pass and the only failures are the
# two tests that BASELINE.json lists as always failing.
set -u
B=/repo/_build
if [ ! -f $B/build.ninja ]; then
  cmake -S /repo -B $B -G Ninja -DCMAKE_BUILD_TYPE=RelWithDebInfo -DDRACO_TESTS=ON -DCMAKE_CXX_FLAGS=-Wno-error >/dev/null || exit 2
fi
cmake --build $B -j"$(nproc)" >/dev/null || { echo "build failed"; exit 2; }
cd $B
pass=0; fail_names=""
for t in draco_tests draco_factory_tests; do
  out=$(./$t 2>&1)
  p=$(echo "$out" | grep -oE '\[  PASSED  \] [0-9]+' | grep -oE '[0-9]+' | tail -1)
  pass=$((pass + ${p:-0}))
  fail_names="$fail_names $(echo "$out" | grep -E '^\[  FAILED  \] [A-Za-z]' | sed -E 's/\[  FAILED  \] //; s/ .*//' | sort -u | tr '\n' ' ')"
done
unexpected=$(for f in $fail_names; do case "$f" in ObjDecoderTest.TestObjDecodingAll|ObjEncoderTest.TestObjEncodingAll) ;; *) echo "$f";; esac; done | sort -u)
echo "passed=$pass unexpected_failures=[$unexpected]"
[ "$pass" -ge 187 ] && [ -z "$unexpected" ]
