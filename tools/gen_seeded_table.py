#!/usr/bin/env python3
"""Prints the markdown table of DESIGN.md §7 from seeded/*/meta.json."""
import json, os, glob
rows = []
for p in sorted(glob.glob('/verif/seeded/*/meta.json')):
    m = json.load(open(p))
    ck = m.get('checks', {})
    caught = [k for k, v in ck.items() if v['exit'] == 1]
    missed = [k for k, v in ck.items() if v['exit'] != 1]
    sig = ''
    for k, v in ck.items():
        if v['exit'] == 1 and v['signatures']:
            sig = v['signatures'][0].split(' first ')[0]
            break
    suite = m.get('suite_with_change') or {}
    demo = m.get('demo') or {}
    rows.append('| %s | %s | %s | %s | %s | %s | %s |' % (
        m['name'], m['breaks_property'], (m.get('what') or '').replace('|', '\\|'), (m.get('needs_to_manifest') or '').replace('|', '\\|'),
        ('%s pass' % suite.get('passed')) if suite else 'n/a (revert of a fix commit)',
        ('fails/passes (%s/%s)' % (demo.get('with_change_exit'), demo.get('without_change_exit'))) if demo else '-',
        (', '.join(caught) + (' — `' + sig.replace('|', '\\|')[:110] + '`' if sig else '')) if caught else 'MISSED (' + ', '.join(missed) + ')'))
print('| seeded change | property | change | needs, to manifest | upstream suite with the change | author\'s demo with/without | caught by (first reporting tier) |')
print('|---|---|---|---|---|---|---|')
print('\n'.join(rows))
