#!/bin/bash
# Runs every registered check of a tier in sequence and prints one line per check.
# usage: tools/run_tier.sh quick|thorough [ID ...]
tier=${1:-quick}; shift
cd "$(dirname "$0")/.."
ids="$@"; [ -n "$ids" ] || ids=$(ls checks/registry.d | sed 's/.json//' | sort)
for id in $ids; do
  s=$(date +%s)
  out=$(./check $id --tier $tier 2>&1); rc=$?
  e=$(date +%s)
  echo "$id tier=$tier exit=$rc wall=$((e-s))s $(echo "$out" | grep -cE '^VIOLATION') violation-lines $(echo "$out" | grep -cE '^KNOWN-FINDING') known-finding-lines; $(echo "$out" | grep -E 'INTERNAL|deadline' | head -2 | tr '\n' ' ')"
  echo "$out" | grep -E "^VIOLATION|violation " | cut -c1-300
done
