#!/usr/bin/env python3
"""Regenerates /verif/MANIFEST.json from checks/registry.d/*.json + tools/manifest_meta.json.
A property with a registry entry is claimed; every other property of
properties.jsonl is listed under not_applicable with the reason given in
manifest_meta.json (or 'check not built yet')."""
import json, os, subprocess

V = os.path.dirname(os.path.dirname(os.path.abspath(__file__)))
meta = json.load(open(os.path.join(V, "tools", "manifest_meta.json")))
props = [json.loads(l) for l in open(os.path.join(V, "properties.jsonl"))]
reg = {}
d = os.path.join(V, "checks", "registry.d")
for fn in sorted(os.listdir(d)):
    if fn.endswith(".json"):
        j = json.load(open(os.path.join(d, fn)))
        reg[j["property"]] = j
try:
    hooks = subprocess.check_output(["git", "-C", "/repo", "log", "--format=%H %s", "1937aa9..HEAD"], text=True).splitlines()
except Exception:
    hooks = []
hook_commits = [l.split()[0] for l in hooks if "verif hook" in l]
checks, na = [], []
for p in props:
    pid = p["id"]
    m = meta["checks"].get(pid, {})
    if pid in reg and pid in meta["checks"] and not m.get("withdrawn"):
        c = {
            "property_id": pid,
            "quick_cmd": "./check %s --tier quick" % pid,
            "thorough_cmd": "./check %s --tier thorough" % pid,
            "evidence_file": "/verif/evidence/%s.json" % pid,
            "replay_cmd_template": "./check %s --replay {path}" % pid,
            "engine": "mc-runner",
            "level_claimed": {"category": m.get("category", "model_checking"),
                              "text": m.get("text", ""), "design_ref": m.get("design_ref", "DESIGN.md §4 " + pid)},
            "level_note": m.get("note", ""),
            "technique": m.get("technique", "bounded exhaustive enumeration on the real implementation"),
        }
        checks.append(c)
    else:
        na.append({"property_id": pid, "reason": m.get("na_reason", "check not built yet (work in progress); the family applies, see DESIGN.md")})
man = {
    "version": 1,
    "setup_cmd": "./check --setup",
    "hooks": {
        "guard": "DRACO_VERIF",
        "enable": "cmake -DCMAKE_CXX_FLAGS='... -DDRACO_VERIF' (done by ./check for the build variants under /verif/build)",
        "baseline_off_cmd": "/verif/baseline_off.sh",
        "source_commits": hook_commits,
        "add_only": True,
    },
    "engines": [{
        "name": "mc-runner", "path": "/verif/mc/runner.h",
        "serves_properties": sorted(reg),
        "kind_free_text": "stateless bounded-exhaustive explorer: enumerates every index of named finite spaces, runs the real "
                          "draco code on each case in forked crash-isolated workers (ASan+UBSan or -O2), checks a reference-model "
                          "oracle, replays each counterexample twice; see DESIGN.md §2",
    }],
    "checks": checks,
    "notes": meta.get("notes", ""),
    "not_applicable": na,
}
json.dump(man, open(os.path.join(V, "MANIFEST.json"), "w"), indent=1)
print("claimed:", [c["property_id"] for c in checks])
print("not claimed:", [n["property_id"] for n in na])
