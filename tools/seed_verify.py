#!/usr/bin/env python3
"""Confirms a seeded change and runs the checks against it, in a scratch worktree.

  tools/seed_verify.py <name> --patch FILE --property CXX [--demo DIR] [--tiers quick[,thorough]]
                       [--also CYY,...] [--skip-tests]

Steps: scratch worktree of /repo HEAD + patch; build with tests and run the
repository's suite (must give the 187 baseline passes); run the author's demo
with and without the change; run ./check for the property (and --also ones)
against the patched tree with its own build/evidence/replay directories; write
/verif/seeded/<name>/{patch.diff, demo files, meta.json}; remove everything
under /tmp it created."""
import argparse, json, os, shutil, subprocess, sys, time

V = os.environ.get("VERIF_HOME", "/verif")


def sh(cmd, **kw):
    return subprocess.run(cmd, shell=True, stdout=subprocess.PIPE, stderr=subprocess.STDOUT, text=True, **kw)


def run_suite(tree, build):
    r = sh("cmake -S %s -B %s -G Ninja -DCMAKE_BUILD_TYPE=Release -DDRACO_TESTS=ON -DDRACO_GOOGLETEST_PATH=/repo/third_party/googletest -DCMAKE_CXX_FLAGS=-Wno-error >/dev/null 2>&1 && ninja -C %s 2>&1 | tail -3" % (tree, build, build))
    if not os.path.exists(build + "/draco_tests"):
        return {"built": False, "log": r.stdout[-2000:]}
    passed, failed = 0, []
    for t in ("draco_tests", "draco_factory_tests"):
        o = sh("cd %s && ./%s 2>&1 | tail -30" % (build, t)).stdout
        for line in o.splitlines():
            if line.startswith("[  PASSED  ]"):
                passed += int(line.split()[3])
            if line.startswith("[  FAILED  ]") and "." in line and "listed below" not in line:
                failed.append(line.split()[3].rstrip(","))
    unexpected = sorted(set(f for f in failed if f not in ("ObjDecoderTest.TestObjDecodingAll", "ObjEncoderTest.TestObjEncodingAll")))
    return {"built": True, "passed": passed, "unexpected_failures": unexpected}


def main():
    ap = argparse.ArgumentParser()
    ap.add_argument("name")
    ap.add_argument("--patch", required=True)
    ap.add_argument("--property", required=True)
    ap.add_argument("--demo")
    ap.add_argument("--tiers", default="quick")
    ap.add_argument("--also", default="")
    ap.add_argument("--skip-tests", action="store_true")
    ap.add_argument("--what", default="")
    ap.add_argument("--needs", default="")
    ap.add_argument("--origin", default="sub-agent given only the property text")
    a = ap.parse_args()
    wt = "/tmp/sv_%s" % a.name
    vb = wt + "_vbuild"
    base = "/tmp/sv_base"
    sh("git -C /repo worktree remove --force %s; rm -rf %s %s" % (wt, wt, vb))
    r = sh("git -C /repo worktree add --detach %s HEAD" % wt)
    ap_r = sh("git -C %s apply --whitespace=nowarn %s" % (wt, os.path.abspath(a.patch)))
    meta = {"name": a.name, "breaks_property": a.property, "what": a.what, "needs_to_manifest": a.needs, "origin": a.origin,
            "repo_head": sh("git -C /repo rev-parse --short HEAD").stdout.strip(), "ran": []}
    if ap_r.returncode:
        print("PATCH DOES NOT APPLY:", ap_r.stdout)
        meta["patch_applies"] = False
        sh("git -C /repo worktree remove --force %s" % wt)
        return 2
    meta["patch_applies"] = True
    meta["files_changed"] = sh("git -C %s diff --stat | tail -1" % wt).stdout.strip()
    if not a.skip_tests:
        t = run_suite(wt, wt + "/_build")
        meta["suite_with_change"] = t
        meta["ran"].append("cmake+ninja with DRACO_TESTS=ON in the patched worktree; ./draco_tests ./draco_factory_tests")
        print("suite with change:", t)
    if a.demo and os.path.exists(os.path.join(a.demo, "run_demo.sh")) and not a.skip_tests:
        # base build shared between runs
        if not os.path.exists(base + "/_build/libdraco.a") or sh("git -C %s rev-parse HEAD" % base).stdout.strip() != sh("git -C /repo rev-parse HEAD").stdout.strip():
            sh("git -C /repo worktree remove --force %s; rm -rf %s" % (base, base))
            sh("git -C /repo worktree add --detach %s HEAD" % base)
            run_suite(base, base + "/_build")
        d1 = sh("cd %s && bash run_demo.sh %s %s/_build 2>&1 | tail -5" % (a.demo, wt, wt))
        d0 = sh("cd %s && bash run_demo.sh %s %s/_build 2>&1 | tail -5" % (a.demo, base, base))
        rc1 = sh("cd %s && bash run_demo.sh %s %s/_build >/dev/null 2>&1; echo $?" % (a.demo, wt, wt)).stdout.strip()
        rc0 = sh("cd %s && bash run_demo.sh %s %s/_build >/dev/null 2>&1; echo $?" % (a.demo, base, base)).stdout.strip()
        meta["demo"] = {"with_change_exit": rc1, "with_change_tail": d1.stdout[-400:], "without_change_exit": rc0, "without_change_tail": d0.stdout[-300:]}
        meta["ran"].append("author's demo (run_demo.sh) against the patched and the unpatched build")
        print("demo: with change exit", rc1, "| without", rc0)
    results = {}
    env = dict(os.environ, VERIF_REPO=wt, VERIF_BUILD=vb, VERIF_EVIDENCE_DIR=vb + "/evidence", VERIF_REPLAYS_DIR=vb + "/replays")
    for pid in [a.property] + [x for x in a.also.split(",") if x]:
        for tier in a.tiers.split(","):
            t0 = time.time()
            r = subprocess.run(["./check", pid, "--tier", tier], cwd=V, env=env, stdout=subprocess.PIPE, stderr=subprocess.STDOUT, text=True)
            lines = [l for l in r.stdout.splitlines() if l.startswith("VIOLATION") or l.startswith("KNOWN-FINDING") or " violation " in l or "INTERNAL" in l]
            sigs = [l.split(" violation ", 1)[1][:200] for l in r.stdout.splitlines() if " violation " in l]
            results["%s:%s" % (pid, tier)] = {"exit": r.returncode, "violation_lines": sum(1 for l in lines if l.startswith("VIOLATION")),
                                               "signatures": sigs[:8], "wall_s": round(time.time() - t0, 1)}
            print("check", pid, tier, "-> exit", r.returncode, "|", "; ".join(s[:110] for s in sigs[:3]))
            meta["ran"].append("VERIF_REPO=<patched worktree> ./check %s --tier %s" % (pid, tier))
            if r.returncode == 1:
                break
    meta["checks"] = results
    meta["caught"] = any(v["exit"] == 1 for v in results.values())
    out = os.path.join(V, "seeded", a.name)
    os.makedirs(out, exist_ok=True)
    shutil.copy(a.patch, os.path.join(out, "patch.diff"))
    if a.demo:
        for f in os.listdir(a.demo):
            if f != "patch.diff" and os.path.isfile(os.path.join(a.demo, f)) and os.path.getsize(os.path.join(a.demo, f)) < 200000:
                shutil.copy(os.path.join(a.demo, f), os.path.join(out, f))
    json.dump(meta, open(os.path.join(out, "meta.json"), "w"), indent=1)
    sh("git -C /repo worktree remove --force %s; rm -rf %s %s" % (wt, wt, vb))
    print("CAUGHT" if meta["caught"] else "MISSED", a.name)
    return 0


if __name__ == "__main__":
    sys.exit(main())
