#!/usr/bin/env python3
"""Rewrites DESIGN.md §10.4 from run logs of tools/run_tier.sh.
usage: tools/gen_timings.py QUICK_LOG THOROUGH_LOG [THOROUGH_LOG2 ...]   (later logs override earlier ones)"""
import re, sys
def parse(path):
    out = {}
    for l in open(path, errors='replace'):
        m = re.match(r"(C\d+) tier=(\w+) exit=(\d+) wall=(\d+)s (\d+) violation-lines (\d+) known-finding-lines", l)
        if m:
            out[m.group(1)] = (int(m.group(3)), int(m.group(4)), int(m.group(5)), int(m.group(6)))
    return out
q = parse(sys.argv[1])
t = {}
for p in sys.argv[2:]:
    t.update(parse(p))
rows = ["| check | quick: exit / wall | thorough: exit / wall | known-finding lines |", "|---|---|---|---|"]
for k in sorted(set(q) | set(t)):
    a = q.get(k); b = t.get(k)
    rows.append("| %s | %s | %s | %s |" % (k, "%d / %d s" % (a[0], a[1]) if a else "-", "%d / %d s" % (b[0], b[1]) if b else "-", (a or b)[3]))
tq = sum(v[1] for v in q.values()); tt = sum(v[1] for v in t.values())
text = """### 10.4 Timings (16 cores; the last complete runs on the final tree, other jobs were running at the same time, so upper bounds)

Quick tier: every check in sequence %d min; thorough tier: %d min (`tools/run_tier.sh <tier>`; both include the no-op
rebuild of the library variants and the recompilation of changed harnesses). A cold `./check --setup` (four cmake
configures + builds + the harness compiles) takes about 8 min. Every thorough tier ran to completion (no deadline hit).

%s

""" % (round(tq / 60), round(tt / 60), "\n".join(rows))
s = open('/verif/DESIGN.md').read()
i = s.index("### 10.4 Timings"); j = s.index("### 10.5 ")
s = s[:i] + text + s[j:]
open('/verif/DESIGN.md', 'w').write(s)
print("quick %d s, thorough %d s" % (tq, tt))
