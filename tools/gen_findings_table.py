#!/usr/bin/env python3
"""Regenerates the findings table of DESIGN.md section 11 from known_findings.json."""
import json, re
V = "/verif"
d = json.load(open(V + "/known_findings.json"))
rows = ["| property | status | commit | signature the check reports | what failed |", "|---|---|---|---|---|"]
for f in d["findings"]:
    esc = lambda s: s.replace("|", "\\|")
    rows.append("| %s | %s | %s | `%s` | %s |" % (f["property"], f["status"], f.get("commit") or "-", esc(f["signature"]), esc(f["what"])))
s = open(V + "/DESIGN.md").read()
m = re.search(r"\| property \| status \| commit \|.*?\n\n", s, re.S)
s = s[:m.start()] + "\n".join(rows) + "\n\n" + s[m.end():]
open(V + "/DESIGN.md", "w").write(s)
print(len(rows) - 2, "rows")
