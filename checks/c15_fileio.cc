// C15: writing a geometry with ObjEncoder / PlyEncoder / StlEncoder and
// reading it back with the matching decoder preserves it (PLY: positions,
// normals, colours, faces bit-exact; STL: position triangles bit-exact; OBJ:
// connectivity + attribute seams exactly, values to 6-decimal text precision
// plus float32 rounding); draco_encoder | draco_decoder compose these steps
// without further loss.
//
// Bounded exhaustive enumeration on the real code (buffer to buffer):
//   * every list of F <= 2 triangles over 4 vertex ids (degenerate and
//     duplicate faces included);
//   * value alphabet A = {0, 1, -1, 0.5, 1/3, 1e-6, 123456.79, 1e6}; "value
//     set" s in 0..7 rotates it: vertex v gets position
//     (A[s+v], A[s+3v+1], A[s+5v+2]) (indices mod 8; distinct per vertex),
//     per-vertex normal (A[s+v+4], A[s+2v+3], A[s+7v]), the two per-corner
//     normal values are (0,0,1) and (A[s+5],A[s+6],A[s+7]), the two tex-coord
//     values (A[s],A[s+3]) and (A[s+5],A[s+6]); over s = 0..7 every component
//     of every vertex sees every alphabet value;
//   * attribute configurations: "plain" = {no, per-vertex} normals x {no,
//     rgb, rgba uint8} colours; "seams" = every per-corner assignment of the
//     2-value tex-coord (2^(3F)) x {no, per-vertex, per-face (2^F)} normals,
//     every per-corner assignment of the 2-value normal x {no, rgb} colours,
//     and for F = 1 every pair of per-corner normal and tex-coord patterns;
//   * three ways of holding the same geometry in a draco::Mesh: built by
//     TriangleSoupMeshBuilder (deduplicated), raw (3F points, identity maps,
//     nothing deduplicated), indexed (4 points = vertex ids, isolated
//     vertices possible; plain configurations only);
//   * point clouds of N <= 3 points, every assignment of the 4 vertices
//     (duplicates included) x the plain configurations x per-point tex-coords
//     x Finalize(false|true);
//   * tools: a fixed list of 24 files (.obj/.ply) x -cl {0,7,10}.
#include <fcntl.h>
#include <sys/stat.h>
#include <sys/wait.h>
#include <unistd.h>

#include <cmath>
#include <map>

#include "checks/refgeom_io.h"
#include "draco/compression/decode.h"
#include "draco/compression/encode.h"
#include "draco/io/mesh_io.h"
#include "draco/io/obj_decoder.h"
#include "draco/io/obj_encoder.h"
#include "draco/io/ply_decoder.h"
#include "draco/io/ply_encoder.h"
#include "draco/io/stl_decoder.h"
#include "draco/io/stl_encoder.h"
#include "draco/io/file_reader_factory.h"
#include "draco/io/stdio_file_reader.h"
#include "draco/mesh/triangle_soup_mesh_builder.h"
#include "draco/point_cloud/point_cloud_builder.h"
#include "mc/runner.h"
#include "mc/geom.h"

using namespace draco;

namespace {

const float kA[8] = {0.0f, 1.0f, -1.0f, 0.5f, 0.33333334f, 1e-6f, 123456.79f, 1e6f};
inline float A(int i) { return kA[((i % 8) + 8) % 8]; }

enum Form { kBuilder = 0, kRaw = 1, kIndexed = 2 };
const char *kFormName[3] = {"builder", "raw", "indexed"};

struct Case {
  bool cloud = false;
  int F = 0;         // faces (mesh) or points (cloud)
  int v[2][3] = {};  // vertex ids; for a cloud v[0][i] is the vertex of point i
  int vs = 0;        // value set
  int form = 0;      // mesh: Form; cloud: 0 Finalize(false), 1 Finalize(true)
  int nm = 0;        // normals: 0 none, 1 per vertex, 2 per corner (nbits), 3 per face (nbits)
  uint32_t nbits = 0;
  int tm = 0;  // tex coords: 0 none, 1 per corner (tbits); cloud: per point TV[v&1]
  uint32_t tbits = 0;
  int cm = 0;  // colours: 0 none, 1 rgb, 2 rgba (per vertex)
  int corners() const { return cloud ? F : 3 * F; }
  int vertex(int c) const { return cloud ? v[0][c] : v[c / 3][c % 3]; }
};

// --- the values of the case, as bytes -------------------------------------
std::string fbytes(std::initializer_list<float> f) {
  std::string s;
  for (float x : f) s.append(reinterpret_cast<const char *>(&x), 4);
  return s;
}
std::string pos_of(const Case &c, int v) { return fbytes({A(c.vs + v), A(c.vs + 3 * v + 1), A(c.vs + 5 * v + 2)}); }
std::string vnormal_of(const Case &c, int v) { return fbytes({A(c.vs + v + 4), A(c.vs + 2 * v + 3), A(c.vs + 7 * v)}); }
std::string nv_of(const Case &c, int b) { return b ? fbytes({A(c.vs + 5), A(c.vs + 6), A(c.vs + 7)}) : fbytes({0.f, 0.f, 1.f}); }
std::string tv_of(const Case &c, int b) { return b ? fbytes({A(c.vs + 5), A(c.vs + 6)}) : fbytes({A(c.vs), A(c.vs + 3)}); }
std::string colour_of(const Case &c, int v) {
  std::string s;
  s += char(10 + v);
  s += char(200 - 3 * v);
  s += char((c.vs * 31 + v * 7 + 1) & 255);
  if (c.cm == 2) s += char(255 - v - c.vs);
  return s;
}
std::string normal_at(const Case &c, int corner) {
  if (c.nm == 1) return vnormal_of(c, c.vertex(corner));
  if (c.nm == 2) return nv_of(c, (c.nbits >> corner) & 1);
  return nv_of(c, (c.nbits >> (corner / 3)) & 1);
}
std::string tex_at(const Case &c, int corner) {
  if (c.cloud) return tv_of(c, c.vertex(corner) & 1);
  return tv_of(c, (c.tbits >> corner) & 1);
}

enum Att { kPos = 0, kNormal = 1, kTex = 2, kColour = 3 };
const GeometryAttribute::Type kAttType[4] = {GeometryAttribute::POSITION, GeometryAttribute::NORMAL,
                                             GeometryAttribute::TEX_COORD, GeometryAttribute::COLOR};
const char *kAttName[4] = {"position", "normal", "tex_coord", "colour"};
bool has(const Case &c, int att) { return att == kPos || (att == kNormal && c.nm) || (att == kTex && c.tm) || (att == kColour && c.cm); }
std::string value_at(const Case &c, int att, int corner) {
  switch (att) {
    case kPos: return pos_of(c, c.vertex(corner));
    case kNormal: return normal_at(c, corner);
    case kTex: return tex_at(c, corner);
    default: return colour_of(c, c.vertex(corner));
  }
}

// Reference geometry of the case restricted to the attribute subset |atts|.
rg::Geom expected(const Case &c, const std::vector<int> &atts) {
  rg::Geom g;
  std::vector<std::string> t(c.corners());
  for (int k = 0; k < c.corners(); ++k)
    for (int a : atts) t[k] += value_at(c, a, k);
  if (c.cloud)
    g.elems = t;
  else
    for (int f = 0; f < c.F; ++f) g.elems.push_back(rg::canon_tri(t[3 * f], t[3 * f + 1], t[3 * f + 2]));
  g.finish();
  // Finalize(true) merges identical points (every attribute is a function of
  // the vertex id here, so identical = same vertex): the source is the set
  if (c.cloud && c.form == 1) return g.as_set();
  return g;
}

std::string show(const Case &c) {
  std::string s = c.cloud ? "cloud points(vertex):" : "mesh faces:";
  if (c.cloud)
    for (int i = 0; i < c.F; ++i) s += " " + std::to_string(c.v[0][i]);
  else
    for (int f = 0; f < c.F; ++f) {
      char b[32];
      snprintf(b, sizeof b, " (%d,%d,%d)", c.v[f][0], c.v[f][1], c.v[f][2]);
      s += b;
    }
  s += " value-set " + std::to_string(c.vs);
  s += c.cloud ? (c.form ? " Finalize(true)" : " Finalize(false)") : std::string(" form=") + kFormName[c.form];
  auto bits = [](uint32_t b, int n) {
    std::string o;
    for (int i = 0; i < n; ++i) o += char('0' + ((b >> i) & 1));
    return o;
  };
  if (c.nm == 1) s += " normals=per-vertex";
  if (c.nm == 2) s += " normals=per-corner:" + bits(c.nbits, 3 * c.F);
  if (c.nm == 3) s += " normals=per-face:" + bits(c.nbits, c.F);
  if (c.tm) s += c.cloud ? " tex=per-point" : " tex=per-corner:" + bits(c.tbits, 3 * c.F);
  if (c.cm) s += c.cm == 1 ? " colours=rgb" : " colours=rgba";
  s += " | vertex positions:";
  for (int v = 0; v < 4; ++v) {
    char b[96];
    snprintf(b, sizeof b, " v%d=(%.9g,%.9g,%.9g)", v, A(c.vs + v), A(c.vs + 3 * v + 1), A(c.vs + 5 * v + 2));
    s += b;
  }
  return s;
}

// Input class carried by signatures (kept coarse: one defect should not fan
// out into dozens of signatures; the replay file holds the full case).
std::string klass_of(const Case &c) {
  if (c.cloud) return c.form ? "cloud,Finalize(true)" : "cloud";
  return std::string("mesh,") + kFormName[c.form];
}

// --- building the draco geometry ------------------------------------------
int comps_of(const Case &c, int att) { return att == kTex ? 2 : att == kColour ? (c.cm == 2 ? 4 : 3) : 3; }

// Returns the geometry holding the case; |att_ids[a]| = attribute id or -1.
std::unique_ptr<PointCloud> build(const Case &c, int att_ids[4]) {
  for (int a = 0; a < 4; ++a) att_ids[a] = -1;
  if (c.cloud) {
    PointCloudBuilder b;
    b.Start(c.F);
    for (int a = 0; a < 4; ++a)
      if (has(c, a))
        att_ids[a] = b.AddAttribute(kAttType[a], comps_of(c, a), a == kColour ? DT_UINT8 : DT_FLOAT32, a == kColour);
    for (int a = 0; a < 4; ++a)
      if (has(c, a))
        for (int i = 0; i < c.F; ++i) b.SetAttributeValueForPoint(att_ids[a], PointIndex(i), value_at(c, a, i).data());
    return b.Finalize(c.form == 1);
  }
  if (c.form == kBuilder) {
    TriangleSoupMeshBuilder b;
    b.Start(c.F);
    for (int a = 0; a < 4; ++a)
      if (has(c, a))
        att_ids[a] = b.AddAttribute(kAttType[a], comps_of(c, a), a == kColour ? DT_UINT8 : DT_FLOAT32, a == kColour);
    for (int a = 0; a < 4; ++a)
      if (has(c, a))
        for (int f = 0; f < c.F; ++f) {
          const std::string x = value_at(c, a, 3 * f), y = value_at(c, a, 3 * f + 1), z = value_at(c, a, 3 * f + 2);
          b.SetAttributeValuesForFace(att_ids[a], FaceIndex(f), x.data(), y.data(), z.data());
        }
    return b.Finalize();
  }
  std::unique_ptr<Mesh> m(new Mesh());
  const int np = c.form == kRaw ? 3 * c.F : 4;
  m->SetNumFaces(c.F);
  m->set_num_points(np);
  for (int a = 0; a < 4; ++a) {
    if (!has(c, a)) continue;
    GeometryAttribute ga;
    const DataType dt = a == kColour ? DT_UINT8 : DT_FLOAT32;
    ga.Init(kAttType[a], nullptr, comps_of(c, a), dt, a == kColour, DataTypeLength(dt) * comps_of(c, a), 0);
    att_ids[a] = m->AddAttribute(ga, true, np);
    for (int p = 0; p < np; ++p) {
      std::string val;
      if (c.form == kRaw)
        val = value_at(c, a, p);
      else  // indexed: per-vertex values only
        val = a == kPos ? pos_of(c, p) : a == kNormal ? vnormal_of(c, p) : colour_of(c, p);
      m->attribute(att_ids[a])->SetAttributeValue(AttributeValueIndex(p), val.data());
    }
  }
  for (int f = 0; f < c.F; ++f) {
    Mesh::Face face;
    for (int k = 0; k < 3; ++k) face[k] = PointIndex(c.form == kRaw ? 3 * f + k : c.v[f][k]);
    m->SetFace(FaceIndex(f), face);
  }
  return std::unique_ptr<PointCloud>(m.release());
}

// --- counters (names as objects; Ctx::count takes std::string) -------------
#define CN(x) const std::string k_##x = #x
CN(obj_roundtrips); CN(ply_roundtrips); CN(stl_roundtrips); CN(obj_values_compared); CN(obj_values_not_bit_exact);
CN(obj_values_outside_tight_bound); CN(obj_cases_with_tex_seam); CN(obj_cases_with_normal_seam);
CN(obj_cloud_duplicate_points_merged_by_decoder); CN(ply_cases_with_colours); CN(ply_cases_with_normals);
CN(ply_cases_with_tex_ignored); CN(stl_cases_with_degenerate_face); CN(cases_with_degenerate_face);
CN(cases_with_duplicate_face); CN(cases_with_isolated_vertex); CN(obj_max_abs_deviation_in_1e_minus_10);
CN(obj_encoder_refused); CN(ply_encoder_refused); CN(geometries_built);
#undef CN

// --- OBJ ------------------------------------------------------------------
// Bound derived from the code: ObjEncoder prints "%F" (6 decimals, exact
// decimal rounding: |text - a| <= 5e-7), parser::ParseFloat accumulates the
// decimal in double and rounds to float32 (<= 1 ulp32 incl. the double
// error). Violation threshold: 5e-7 + 1 ulp32(|a|).
double ulp32(float a) {
  const float x = std::fabs(a);
  return (double)std::nextafterf(x, INFINITY) - (double)x;
}
double obj_tolerance(float a) { return 5e-7 + ulp32(a); }
// what exact %F rounding + round-to-nearest parsing can produce at most
double obj_tight_bound(float a) {
  const double e = 5e-7 + std::fabs((double)a) * 3.6e-15;
  return e + std::min(e, 0.5 * ulp32(a));
}

struct Snapper {
  // distinct source values per attribute (bytes of n floats)
  std::vector<std::string> src[3];
  // Returns index of the unique source value within tolerance, -1 none, -2 ambiguous.
  int snap(int att, const std::string &dec, mc::Ctx &ctx, double *worst) const {
    const int n = dec.size() / 4;
    int found = -1;
    for (size_t i = 0; i < src[att].size(); ++i) {
      bool ok = true;
      double w = 0;
      for (int k = 0; k < n && ok; ++k) {
        float d, s;
        memcpy(&d, dec.data() + 4 * k, 4);
        memcpy(&s, src[att][i].data() + 4 * k, 4);
        const double dev = std::fabs((double)d - (double)s);
        if (!(dev <= obj_tolerance(s))) ok = false;
        w = std::max(w, dev);
      }
      if (!ok) continue;
      if (found >= 0) return -2;
      found = i;
      *worst = w;
    }
    if (found >= 0) {
      for (int k = 0; k < n; ++k) {
        float d, s;
        memcpy(&d, dec.data() + 4 * k, 4);
        memcpy(&s, src[att][found].data() + 4 * k, 4);
        ctx.count(k_obj_values_compared);
        if (memcmp(&d, &s, 4)) ctx.count(k_obj_values_not_bit_exact);
        if (std::fabs((double)d - (double)s) > obj_tight_bound(s)) ctx.count(k_obj_values_outside_tight_bound);
      }
    }
    return found;
  }
};

void add_unique(std::vector<std::string> *v, const std::string &s) {
  if (std::find(v->begin(), v->end(), s) == v->end()) v->push_back(s);
}

// Decoded OBJ geometry with every value replaced by the source value it
// stands for. Returns false after reporting.
bool obj_decoded_geom(const Case &c, const PointCloud &dec, const Mesh *dec_mesh, const std::vector<int> &atts,
                      rg::Geom *out, mc::Ctx &ctx) {
  Snapper sn;
  for (int k = 0; k < c.corners(); ++k)
    for (int a : atts) add_unique(&sn.src[a], value_at(c, a, k));
  int ids[3] = {-1, -1, -1};
  for (int a = 0; a < 3; ++a) {
    ids[a] = dec.GetNamedAttributeId(kAttType[a]);
    const bool want = std::find(atts.begin(), atts.end(), a) != atts.end();
    if (want && ids[a] < 0) {
      ctx.fail(std::string("obj:attribute-lost|") + kAttName[a] + "," + klass_of(c), "");
      return false;
    }
    if (!want && ids[a] >= 0) {
      ctx.fail(std::string("obj:attribute-invented|") + kAttName[a] + "," + klass_of(c), "");
      return false;
    }
    if (want) {
      const PointAttribute *pa = dec.attribute(ids[a]);
      if (pa->data_type() != DT_FLOAT32 || pa->num_components() != (a == kTex ? 2 : 3)) {
        ctx.fail(std::string("obj:attribute-layout-changed|") + kAttName[a], rg::desc_of(pa).str());
        return false;
      }
    }
  }
  double worst_all = 0;
  auto tuple = [&](uint32_t p, std::string *t) -> bool {
    for (int a : atts) {
      std::string raw, err;
      if (!rg::point_tuple(dec, {ids[a]}, p, &raw, &err)) {
        ctx.fail("obj:decoded-structurally-invalid|" + klass_of(c), err);
        return false;
      }
      double w = 0;
      const int i = sn.snap(a, raw, ctx, &w);
      if (i < 0) {
        std::string vals;
        for (size_t k = 0; k + 4 <= raw.size(); k += 4) {
          float f;
          memcpy(&f, raw.data() + k, 4);
          char b[40];
          snprintf(b, sizeof b, "%.9g ", f);
          vals += b;
        }
        ctx.fail(std::string(i == -1 ? "obj:value-outside-text-precision|" : "harness:ambiguous-source-value|") + kAttName[a] +
                     "," + klass_of(c),
                 "decoded " + std::string(kAttName[a]) + " (" + vals + ") matches no source value within 5e-7 + 1 ulp");
        return false;
      }
      worst_all = std::max(worst_all, w);
      *t += sn.src[a][i];
    }
    return true;
  };
  out->elems.clear();
  if (dec_mesh) {
    for (uint32_t f = 0; f < dec_mesh->num_faces(); ++f) {
      std::string t[3];
      for (int k = 0; k < 3; ++k) {
        const uint32_t p = dec_mesh->face(FaceIndex(f))[k].value();
        if (p >= dec.num_points()) {
          ctx.fail("obj:decoded-structurally-invalid|" + klass_of(c), "face uses point " + std::to_string(p));
          return false;
        }
        if (!tuple(p, &t[k])) return false;
      }
      out->elems.push_back(rg::canon_tri(t[0], t[1], t[2]));
    }
  } else {
    for (uint32_t p = 0; p < dec.num_points(); ++p) {
      std::string t;
      if (!tuple(p, &t)) return false;
      out->elems.push_back(t);
    }
  }
  out->finish();
  ctx.count_max(k_obj_max_abs_deviation_in_1e_minus_10, (uint64_t)std::llround(worst_all * 1e10));
  return true;
}

bool check_obj(const Case &c, const PointCloud &src, mc::Ctx &ctx) {
  std::vector<int> atts = {kPos};
  if (c.nm) atts.push_back(kNormal);
  if (c.tm) atts.push_back(kTex);
  EncoderBuffer eb;
  ObjEncoder enc;
  const bool ok = c.cloud ? enc.EncodeToBuffer(src, &eb) : enc.EncodeToBuffer(static_cast<const Mesh &>(src), &eb);
  if (!ok) {
    ctx.fail("obj:encoder-refused|" + klass_of(c), "");
    return false;
  }
  ctx.count(k_obj_roundtrips);
  DecoderBuffer db;
  db.Init(eb.data(), eb.size());
  ObjDecoder dec;
  Mesh out;  // a Mesh also receives point clouds (no "f" lines)
  const Status st = dec.DecodeFromBuffer(&db, &out);
  if (!st.ok()) {
    // a cloud whose attributes hold different numbers of value entries
    bool unequal_entries = false;
    if (c.cloud)
      for (int a = 1; a < src.num_attributes(); ++a) unequal_entries |= src.attribute(a)->size() != src.attribute(0)->size();
    ctx.fail(std::string("obj:own-output-rejected|") + (unequal_entries ? "cloud-attributes-with-different-entry-counts" : klass_of(c)),
             st.error_msg_string() + " | file: " + std::string(eb.data(), std::min<size_t>(eb.size(), 400)));
    return false;
  }
  rg::Geom got;
  if (!obj_decoded_geom(c, out, c.cloud ? nullptr : &out, atts, &got, ctx)) return false;
  rg::Geom exp = expected(c, atts);
  if (c.cloud) {
    // ObjDecoder documents that it deduplicates: identical points collapse;
    // what must survive is the set of points.
    if (got.elems.size() < exp.elems.size() && got.as_set() == exp.as_set()) ctx.count(k_obj_cloud_duplicate_points_merged_by_decoder);
    if (got.as_set() != exp.as_set()) {
      ctx.fail("obj:cloud-points-changed|" + klass_of(c), "expected " + rg::show(exp.as_set()) + " got " + rg::show(got));
      return false;
    }
    // second generation: what the reader returned for a points-only file is a Mesh WITHOUT faces (that is also what
    // ReadMeshFromFile gives); writing that object with the Mesh overload and reading it again must keep the same points
    {
      EncoderBuffer eb2;
      ObjEncoder enc2;
      if (!enc2.EncodeToBuffer(out, &eb2)) {
        ctx.fail("obj:encoder-refused|face-less-mesh," + klass_of(c), "");
        return false;
      }
      DecoderBuffer db2;
      db2.Init(eb2.data(), eb2.size());
      ObjDecoder dec2;
      Mesh out2;
      const Status st2 = dec2.DecodeFromBuffer(&db2, &out2);
      ctx.count("obj_faceless_mesh_roundtrips");
      if (!st2.ok()) {
        ctx.fail("obj:own-output-rejected|face-less-mesh", st2.error_msg_string() + " | file: " + std::string(eb2.data(), std::min<size_t>(eb2.size(), 400)));
        return false;
      }
      rg::Geom got2;
      if (!obj_decoded_geom(c, out2, nullptr, atts, &got2, ctx)) return false;
      if (got2.as_set() != exp.as_set()) {
        ctx.fail("obj:cloud-points-changed|face-less-mesh", "expected " + rg::show(exp.as_set()) + " got " + rg::show(got2));
        return false;
      }
    }
    return true;
  }
  if (got != exp) {
    ctx.fail("obj:connectivity-or-seams-changed|" + klass_of(c), "expected " + rg::show(exp) + " got " + rg::show(got));
    return false;
  }
  return true;
}

// --- PLY ------------------------------------------------------------------
bool check_ply(const Case &c, const PointCloud &src, mc::Ctx &ctx) {
  std::vector<int> atts = {kPos};
  if (c.nm) atts.push_back(kNormal);
  if (c.cm) atts.push_back(kColour);
  EncoderBuffer eb;
  PlyEncoder enc;
  const bool ok = c.cloud ? enc.EncodeToBuffer(src, &eb) : enc.EncodeToBuffer(static_cast<const Mesh &>(src), &eb);
  if (!ok) {
    ctx.fail("ply:encoder-refused|" + klass_of(c), "");
    return false;
  }
  ctx.count(k_ply_roundtrips);
  DecoderBuffer db;
  db.Init(eb.data(), eb.size());
  PlyDecoder dec;
  Mesh out_mesh;
  PointCloud out_pc;
  const Status st = c.cloud ? dec.DecodeFromBuffer(&db, &out_pc) : dec.DecodeFromBuffer(&db, &out_mesh);
  if (!st.ok()) {
    ctx.fail("ply:own-output-rejected|" + klass_of(c), st.error_msg_string());
    return false;
  }
  const PointCloud &out = c.cloud ? out_pc : static_cast<const PointCloud &>(out_mesh);
  std::vector<int> ids;
  for (int a : {kPos, kNormal, kColour}) {
    const int id = out.GetNamedAttributeId(kAttType[a]);
    const bool want = std::find(atts.begin(), atts.end(), a) != atts.end();
    if (want != (id >= 0)) {
      ctx.fail(std::string(want ? "ply:attribute-lost|" : "ply:attribute-invented|") + kAttName[a] + "," + klass_of(c), "");
      return false;
    }
    if (!want) continue;
    const PointAttribute *pa = out.attribute(id);
    if (pa->data_type() != (a == kColour ? DT_UINT8 : DT_FLOAT32) || pa->num_components() != comps_of(c, a)) {
      ctx.fail(std::string("ply:attribute-layout-changed|") + kAttName[a] + "," + klass_of(c), rg::desc_of(pa).str());
      return false;
    }
    ids.push_back(id);
  }
  rg::Geom got;
  std::string err;
  if (!(c.cloud ? rg::from_cloud(out, ids, &got, &err) : rg::from_mesh(out_mesh, ids, &got, &err))) {
    ctx.fail("ply:decoded-structurally-invalid|" + klass_of(c), err);
    return false;
  }
  const rg::Geom exp = expected(c, atts);
  if (got != exp) {
    // which attribute? compare attribute by attribute for the signature
    std::string which;
    for (size_t i = 0; i < atts.size(); ++i) {
      rg::Geom g1;
      if ((c.cloud ? rg::from_cloud(out, {ids[i]}, &g1, &err) : rg::from_mesh(out_mesh, {ids[i]}, &g1, &err)) &&
          g1 != expected(c, {atts[i]}))
        which += std::string(which.empty() ? "" : "+") + kAttName[atts[i]];
    }
    if (which.empty()) which = "combination";
    ctx.fail("ply:geometry-changed|" + which + "," + klass_of(c), "expected " + rg::show(exp) + " got " + rg::show(got));
    return false;
  }
  return true;
}

// --- STL ------------------------------------------------------------------
bool check_stl(const Case &c, const Mesh &src, mc::Ctx &ctx) {
  EncoderBuffer eb;
  StlEncoder enc;
  const Status es = enc.EncodeToBuffer(src, &eb);
  if (!es.ok()) {
    ctx.fail("stl:encoder-refused|" + klass_of(c), es.error_msg_string());
    return false;
  }
  ctx.count(k_stl_roundtrips);
  DecoderBuffer db;
  db.Init(eb.data(), eb.size());
  StlDecoder dec;
  auto res = dec.DecodeFromBuffer(&db);
  if (!res.ok() || !res.value()) {
    ctx.fail("stl:own-output-rejected|" + klass_of(c), res.ok() ? "null mesh" : res.status().error_msg_string());
    return false;
  }
  const Mesh &out = *res.value();
  const int id = out.GetNamedAttributeId(GeometryAttribute::POSITION);
  if (id < 0 || out.attribute(id)->data_type() != DT_FLOAT32 || out.attribute(id)->num_components() != 3) {
    ctx.fail("stl:position-attribute-lost", "");
    return false;
  }
  rg::Geom got;
  std::string err;
  if (!rg::from_mesh(out, {id}, &got, &err)) {
    ctx.fail("stl:decoded-structurally-invalid|" + klass_of(c), err);
    return false;
  }
  const rg::Geom exp = expected(c, {kPos});
  if (got != exp) {
    ctx.fail("stl:position-triangles-changed|" + klass_of(c), "expected " + rg::show(exp) + " got " + rg::show(got));
    return false;
  }
  return true;
}

// --- one case through all formats -----------------------------------------
void run_case(const Case &c, mc::Ctx &ctx) {
  int ids[4];
  std::unique_ptr<PointCloud> g = build(c, ids);
  ctx.count(k_geometries_built);
  if (!g) {
    ctx.fail("harness:builder-returned-null", "");
    return;
  }
  // self-check of the harness's own construction (C14 owns the builders)
  {
    std::vector<int> atts, aids;
    for (int a = 0; a < 4; ++a)
      if (has(c, a)) {
        atts.push_back(a);
        aids.push_back(ids[a]);
      }
    rg::Geom got;
    std::string err;
    const bool ok = c.cloud ? rg::from_cloud(*g, aids, &got, &err) : rg::from_mesh(static_cast<const Mesh &>(*g), aids, &got, &err);
    const rg::Geom exp = expected(c, atts);
    if (!ok || got != exp) {
      ctx.fail("harness:source-geometry-differs-from-case|" + klass_of(c), err);
      return;
    }
  }
  bool degenerate = false, duplicate = false, isolated = false;
  if (!c.cloud) {
    bool used[4] = {false, false, false, false};
    for (int f = 0; f < c.F; ++f) {
      degenerate |= c.v[f][0] == c.v[f][1] || c.v[f][1] == c.v[f][2] || c.v[f][0] == c.v[f][2];
      for (int k = 0; k < 3; ++k) used[c.v[f][k]] = true;
    }
    if (c.F == 2)
      for (int r = 0; r < 3; ++r)
        duplicate |= c.v[0][0] == c.v[1][r] && c.v[0][1] == c.v[1][(r + 1) % 3] && c.v[0][2] == c.v[1][(r + 2) % 3];
    isolated = c.form == kIndexed && !(used[0] && used[1] && used[2] && used[3]);
    if (degenerate) ctx.count(k_cases_with_degenerate_face);
    if (duplicate) ctx.count(k_cases_with_duplicate_face);
    if (isolated) ctx.count(k_cases_with_isolated_vertex);
    if (c.cm == 0) {
      // a seam = two corners of one vertex with different values
      auto seam = [&](int att) {
        for (int i = 0; i < 3 * c.F; ++i)
          for (int j = i + 1; j < 3 * c.F; ++j)
            if (c.vertex(i) == c.vertex(j) && value_at(c, att, i) != value_at(c, att, j)) return true;
        return false;
      };
      if (c.tm && seam(kTex)) ctx.count(k_obj_cases_with_tex_seam);
      if (c.nm >= 2 && seam(kNormal)) ctx.count(k_obj_cases_with_normal_seam);
    }
    if (degenerate) ctx.count(k_stl_cases_with_degenerate_face);
  }
  if (c.cm) ctx.count(k_ply_cases_with_colours);
  if (c.nm) ctx.count(k_ply_cases_with_normals);
  if (c.tm) ctx.count(k_ply_cases_with_tex_ignored);
  bool all_ok = true;
  // OBJ carries positions, normals, tex coords (colours are not written)
  if (c.cm == 0) all_ok &= check_obj(c, *g, ctx);
  all_ok &= check_ply(c, *g, ctx);
  if (!c.cloud) all_ok &= check_stl(c, static_cast<const Mesh &>(*g), ctx);
  // outcome state: structure of the source geometry as held by draco
  {
    uint64_t h = mc::hash_combine(g->num_points(), g->num_attributes() * 7 + (c.cloud ? 1 : 0));
    for (int a = 0; a < g->num_attributes(); ++a) {
      h = mc::hash_combine(h, g->attribute(a)->size());
      for (uint32_t p = 0; p < g->num_points(); ++p) h = mc::hash_combine(h, g->attribute(a)->mapped_index(PointIndex(p)).value());
    }
    if (!c.cloud) {
      const Mesh &m = static_cast<const Mesh &>(*g);
      for (uint32_t f = 0; f < m.num_faces(); ++f)
        for (int k = 0; k < 3; ++k) h = mc::hash_combine(h, m.face(FaceIndex(f))[k].value());
    }
    ctx.state(h);
  }
  // non-trivial: shares a vertex between corners/points (index bookkeeping
  // is exercised) or has any non-position attribute
  bool shares = false;
  for (int i = 0; i < c.corners(); ++i)
    for (int j = i + 1; j < c.corners(); ++j) shares |= c.vertex(i) == c.vertex(j);
  if (all_ok && (shares || c.nm || c.tm || c.cm)) ctx.nontrivial_unique();
}

// --- spaces ---------------------------------------------------------------
// topology digit: F faces over |ids| vertex ids
void decode_faces(uint64_t t, int F, int ids, Case *c) {
  c->F = F;
  for (int f = 0; f < F; ++f)
    for (int k = 0; k < 3; ++k) {
      c->v[f][k] = t % ids;
      t /= ids;
    }
}
uint64_t ipow(uint64_t b, int e) {
  uint64_t r = 1;
  while (e-- > 0) r *= b;
  return r;
}

// "plain": forms(3) x normals{none,per-vertex} x colours{none,rgb,rgba} x lists
void add_plain_space(mc::Runner &R, int F, int ids, int vs, bool quick, bool thorough) {
  const uint64_t nt = ipow(ids, 3 * F);
  auto decode = [=](uint64_t idx) {
    Case c;
    c.vs = vs;
    c.form = idx % 3;
    idx /= 3;
    c.nm = idx % 2;
    idx /= 2;
    c.cm = idx % 3;
    idx /= 3;
    decode_faces(idx, F, ids, &c);
    return c;
  };
  mc::Space sp;
  sp.name = "mesh_plain_F" + std::to_string(F) + "_ids" + std::to_string(ids) + "_vs" + std::to_string(vs);
  sp.size = 18 * nt;
  sp.quick = quick;
  sp.thorough = thorough;
  sp.run = [=](uint64_t idx, mc::Ctx &ctx) { run_case(decode(idx), ctx); };
  sp.describe = [=](uint64_t idx) { return show(decode(idx)); };
  sp.klass = [=](uint64_t idx) { return klass_of(decode(idx)); };
  R.add(sp);
}

// "seams": forms(2) x seam configuration x lists
uint64_t seam_configs(int F) {
  const uint64_t c3 = 1ull << (3 * F), cf = 1ull << F;
  return c3 * (2 + cf) + 2 * c3 + (F == 1 ? c3 * c3 : 0);
}
void decode_seam_config(uint64_t k, int F, Case *c) {
  const uint64_t c3 = 1ull << (3 * F), cf = 1ull << F;
  if (k < c3) { c->tm = 1; c->tbits = k; return; }
  k -= c3;
  if (k < c3) { c->tm = 1; c->tbits = k; c->nm = 1; return; }
  k -= c3;
  if (k < c3 * cf) { c->tm = 1; c->tbits = k % c3; c->nm = 3; c->nbits = k / c3; return; }
  k -= c3 * cf;
  if (k < c3) { c->nm = 2; c->nbits = k; return; }
  k -= c3;
  if (k < c3) { c->nm = 2; c->nbits = k; c->cm = 1; return; }
  k -= c3;
  c->nm = 2; c->nbits = k % c3; c->tm = 1; c->tbits = k / c3;
}
void add_seam_space(mc::Runner &R, int F, int ids, int vs, int form, bool quick, bool thorough) {
  const uint64_t nt = ipow(ids, 3 * F), nc = seam_configs(F);
  auto decode = [=](uint64_t idx) {
    Case c;
    c.vs = vs;
    c.form = form;
    const uint64_t k = idx % nc;
    idx /= nc;
    decode_faces(idx, F, ids, &c);
    decode_seam_config(k, F, &c);
    return c;
  };
  mc::Space sp;
  sp.name = "mesh_seams_F" + std::to_string(F) + "_ids" + std::to_string(ids) + "_vs" + std::to_string(vs) + "_" + kFormName[form];
  sp.size = nc * nt;
  sp.quick = quick;
  sp.thorough = thorough;
  sp.run = [=](uint64_t idx, mc::Ctx &ctx) { run_case(decode(idx), ctx); };
  sp.describe = [=](uint64_t idx) { return show(decode(idx)); };
  sp.klass = [=](uint64_t idx) { return klass_of(decode(idx)); };
  R.add(sp);
}

// clouds: dedup(2) x normals(2) x tex(2) x colours(3) x value set(8) x points 4^N
void add_cloud_space(mc::Runner &R, int N) {
  auto decode = [=](uint64_t idx) {
    Case c;
    c.cloud = true;
    c.F = N;
    c.form = idx % 2;
    idx /= 2;
    c.nm = idx % 2;
    idx /= 2;
    c.tm = idx % 2;
    idx /= 2;
    c.cm = idx % 3;
    idx /= 3;
    c.vs = idx % 8;
    idx /= 8;
    for (int i = 0; i < N; ++i) {
      c.v[0][i] = idx % 4;
      idx /= 4;
    }
    return c;
  };
  mc::Space sp;
  sp.name = "cloud_N" + std::to_string(N);
  sp.size = 2 * 2 * 2 * 3 * 8 * ipow(4, N);
  sp.run = [=](uint64_t idx, mc::Ctx &ctx) { run_case(decode(idx), ctx); };
  sp.describe = [=](uint64_t idx) { return show(decode(idx)); };
  sp.klass = [=](uint64_t idx) { return klass_of(decode(idx)); };
  R.add(sp);
}

// --- tools ----------------------------------------------------------------
#define CN(x) const std::string k_##x = #x
CN(tool_pipelines_run); CN(tool_output_bytes_identical_to_library); CN(tool_drc_bytes_identical_to_library);
CN(tool_and_library_both_refuse); CN(tool_process_spawns);
#undef CN

struct ToolFile {
  Case c;
  const char *in_ext, *out_ext;
};

Case mk(int F, std::initializer_list<int> faces, int vs, int nm, uint32_t nbits, int tm, uint32_t tbits, int cm, bool cloud = false) {
  Case c;
  c.cloud = cloud;
  c.F = F;
  int i = 0;
  for (int x : faces) {
    if (cloud) c.v[0][i] = x; else c.v[i / 3][i % 3] = x;
    ++i;
  }
  c.vs = vs;
  c.nm = nm;
  c.nbits = nbits;
  c.tm = tm;
  c.tbits = tbits;
  c.cm = cm;
  return c;
}

const std::vector<ToolFile> &tool_files() {
  static const std::vector<ToolFile> k = {
      // .obj inputs (positions, normals, tex coords), output .obj
      {mk(1, {0, 1, 2}, 0, 0, 0, 0, 0, 0), "obj", "obj"},
      {mk(2, {0, 1, 2, 2, 1, 3}, 1, 0, 0, 0, 0, 0), "obj", "obj"},
      {mk(2, {0, 1, 2, 2, 1, 3}, 2, 1, 0, 0, 0, 0), "obj", "obj"},
      {mk(2, {0, 1, 2, 2, 1, 3}, 3, 0, 0, 1, 0x2a, 0), "obj", "obj"},  // tex seam along the shared edge
      {mk(2, {0, 1, 2, 2, 1, 3}, 4, 3, 0x2, 0, 0, 0), "obj", "obj"},   // flat normals
      {mk(2, {0, 1, 2, 2, 1, 3}, 5, 2, 0x15, 1, 0x38, 0), "obj", "obj"},  // both seams
      {mk(2, {0, 1, 2, 1, 0, 2}, 6, 0, 0, 0, 0, 0), "obj", "obj"},     // mirrored pair
      {mk(2, {0, 0, 1, 0, 1, 2}, 7, 0, 0, 0, 0, 0), "obj", "obj"},     // degenerate + regular
      {mk(2, {0, 1, 2, 0, 1, 2}, 0, 1, 0, 0, 0, 0), "obj", "obj"},     // duplicate faces
      {mk(2, {0, 1, 2, 2, 3, 0}, 1, 1, 0, 1, 0x07, 0), "obj", "ply"},  // obj in, ply out
      {mk(3, {0, 1, 2}, 2, 0, 0, 0, 0, 0, true), "obj", "obj"},        // point cloud
      {mk(3, {0, 1, 1}, 3, 1, 0, 0, 0, 0, true), "obj", "obj"},        // point cloud, duplicate point, normals
      // .ply inputs (positions, normals, colours), output .ply
      {mk(1, {0, 1, 2}, 4, 0, 0, 0, 0, 0), "ply", "ply"},
      {mk(2, {0, 1, 2, 2, 1, 3}, 5, 0, 0, 0, 0, 0), "ply", "ply"},
      {mk(2, {0, 1, 2, 2, 1, 3}, 6, 1, 0, 0, 0, 0), "ply", "ply"},
      {mk(2, {0, 1, 2, 2, 1, 3}, 7, 0, 0, 0, 0, 1), "ply", "ply"},
      {mk(2, {0, 1, 2, 2, 1, 3}, 0, 1, 0, 0, 0, 2), "ply", "ply"},
      {mk(2, {0, 1, 2, 2, 1, 3}, 1, 2, 0x07, 0, 0, 1), "ply", "ply"},  // normal seam -> split points
      {mk(2, {0, 1, 2, 1, 0, 2}, 2, 0, 0, 0, 0, 1), "ply", "ply"},
      {mk(2, {0, 0, 1, 0, 1, 2}, 3, 1, 0, 0, 0, 0), "ply", "ply"},
      {mk(2, {0, 1, 2, 0, 1, 2}, 4, 0, 0, 0, 0, 2), "ply", "ply"},
      {mk(2, {0, 1, 2, 2, 3, 0}, 5, 1, 0, 0, 0, 1), "ply", "obj"},  // ply in, obj out
      {mk(3, {0, 1, 2}, 6, 0, 0, 0, 0, 1, true), "ply", "ply"},     // point cloud with colours
      {mk(3, {3, 1, 3}, 7, 1, 0, 0, 0, 2, true), "ply", "ply"},     // point cloud, duplicate point
  };
  return k;
}

std::string tmp_dir() {
  const char *b = getenv("VERIF_BUILD_DIR");
  std::string base = b && *b ? std::string(b) : "/verif/build/asan";
  while (!base.empty() && base.back() == '/') base.pop_back();
  const size_t sl = base.rfind('/');
  std::string d = (sl == std::string::npos ? std::string("/verif/build") : base.substr(0, sl)) + "/c15_tmp";
  mkdir(d.c_str(), 0755);
  return d;
}
std::string tool_path(const char *name) {
  const char *b = getenv("VERIF_BUILD_DIR");
  return std::string(b && *b ? b : "/verif/build/asan") + "/" + name;
}

bool write_file(const std::string &path, const char *data, size_t n) {
  FILE *f = fopen(path.c_str(), "wb");
  if (!f) return false;
  const bool ok = fwrite(data, 1, n, f) == n;
  return fclose(f) == 0 && ok;
}
bool read_file(const std::string &path, std::string *out) {
  FILE *f = fopen(path.c_str(), "rb");
  if (!f) return false;
  out->clear();
  char buf[4096];
  size_t n;
  while ((n = fread(buf, 1, sizeof buf, f)) > 0) out->append(buf, n);
  fclose(f);
  return true;
}

// Runs a tool; returns exit code (>= 0), or 1000 + signal.
int spawn(const std::vector<std::string> &argv, const std::string &log) {
  const pid_t pid = fork();
  if (pid == 0) {
    const int fd = open(log.c_str(), O_WRONLY | O_CREAT | O_TRUNC, 0644);
    if (fd >= 0) {
      dup2(fd, 1);
      dup2(fd, 2);
      close(fd);
    }
    std::vector<char *> a;
    for (auto &s : argv) a.push_back(const_cast<char *>(s.c_str()));
    a.push_back(nullptr);
    execv(a[0], a.data());
    _exit(127);
  }
  int status = 0;
  while (waitpid(pid, &status, 0) < 0 && errno == EINTR) {
  }
  return WIFEXITED(status) ? WEXITSTATUS(status) : 1000 + WTERMSIG(status);
}

// Geometry of an .obj/.ply byte string through the matching decoder, all
// attributes the decoder produces (ordered by attribute type), bit-exact.
bool geom_of_file(const std::string &bytes, const std::string &ext, rg::Geom *g, std::string *layout, std::string *err) {
  DecoderBuffer db;
  db.Init(bytes.data(), bytes.size());
  Mesh m;
  Status st = OkStatus();
  if (ext == "obj") {
    ObjDecoder d;
    st = d.DecodeFromBuffer(&db, &m);
  } else {
    PlyDecoder d;
    st = d.DecodeFromBuffer(&db, &m);
  }
  if (!st.ok()) {
    *err = st.error_msg_string();
    return false;
  }
  std::vector<int> ids;
  layout->clear();
  for (int t = 0; t < GeometryAttribute::NAMED_ATTRIBUTES_COUNT; ++t)
    for (int i = 0; i < m.NumNamedAttributes(GeometryAttribute::Type(t)); ++i) {
      ids.push_back(m.GetNamedAttributeId(GeometryAttribute::Type(t), i));
      *layout += rg::desc_of(m.attribute(ids.back())).str() + " ";
    }
  *layout += m.num_faces() ? "mesh" : "cloud";
  return m.num_faces() ? rg::from_mesh(m, ids, g, err) : rg::from_cloud(m, ids, g, err);
}

void run_tool_case(int file_index, int cl, mc::Ctx &ctx) {
  const ToolFile &tf = tool_files()[file_index];
  const Case &c = tf.c;
  const std::string in_ext = tf.in_ext, out_ext = tf.out_ext;
  const std::string kl = std::string(in_ext) + "->" + out_ext + ",cl" + std::to_string(cl) + (c.cloud ? ",cloud" : ",mesh");
  const std::string stem = tmp_dir() + "/" + ctx.space + "_" + std::to_string(ctx.idx) + "_" + std::to_string(getpid());
  const std::string in_path = stem + "." + in_ext, drc_path = stem + ".drc", out_path = stem + ".out." + out_ext,
                    log_path = stem + ".log";
  struct Cleanup {
    std::vector<std::string> files;
    ~Cleanup() { for (auto &f : files) unlink(f.c_str()); }
  } cleanup{{in_path, drc_path, out_path, log_path}};

  // the input file, written by the library encoder that the buffer spaces check
  int ids[4];
  std::unique_ptr<PointCloud> g = build(c, ids);
  EncoderBuffer eb;
  bool ok;
  if (in_ext == "obj") {
    ObjEncoder e;
    ok = c.cloud ? e.EncodeToBuffer(*g, &eb) : e.EncodeToBuffer(static_cast<const Mesh &>(*g), &eb);
  } else {
    PlyEncoder e;
    ok = c.cloud ? e.EncodeToBuffer(*g, &eb) : e.EncodeToBuffer(static_cast<const Mesh &>(*g), &eb);
  }
  if (!ok || !write_file(in_path, eb.data(), eb.size())) {
    ctx.fail("harness:cannot-write-input-file", in_path);
    return;
  }
  ctx.count(k_tool_pipelines_run);

  // --- library-only pipeline: decode file -> Encoder -> Decoder -> format encoder
  std::string lib_err, lib_out, lib_drc;
  bool lib_ok = false;
  do {
    auto maybe_mesh = ReadMeshFromFile(in_path);
    if (!maybe_mesh.ok()) { lib_err = "load: " + maybe_mesh.status().error_msg_string(); break; }
    std::unique_ptr<Mesh> mesh = std::move(maybe_mesh).value();
    const int speed = 10 - cl;
    Encoder encoder;
    encoder.SetAttributeQuantization(GeometryAttribute::GENERIC, 8);  // the tool's default -qg 8; -qp/-qt/-qn 0 = none
    encoder.SetSpeedOptions(speed, speed);
    EncoderBuffer drc;
    const Status es = mesh->num_faces() > 0 ? encoder.EncodeMeshToBuffer(*mesh, &drc)
                                            : encoder.EncodePointCloudToBuffer(*mesh, &drc);
    if (!es.ok()) { lib_err = "encode: " + es.error_msg_string(); break; }
    lib_drc.assign(drc.data(), drc.size());
    DecoderBuffer db;
    db.Init(drc.data(), drc.size());
    auto type = Decoder::GetEncodedGeometryType(&db);
    if (!type.ok()) { lib_err = "type: " + type.status().error_msg_string(); break; }
    std::unique_ptr<PointCloud> pc;
    Mesh *dm = nullptr;
    Decoder decoder;
    if (type.value() == TRIANGULAR_MESH) {
      auto r = decoder.DecodeMeshFromBuffer(&db);
      if (!r.ok()) { lib_err = "decode: " + r.status().error_msg_string(); break; }
      std::unique_ptr<Mesh> t = std::move(r).value();
      dm = t.get();
      pc = std::move(t);
    } else {
      auto r = decoder.DecodePointCloudFromBuffer(&db);
      if (!r.ok()) { lib_err = "decode: " + r.status().error_msg_string(); break; }
      pc = std::move(r).value();
    }
    EncoderBuffer ob;
    bool wrote;
    if (out_ext == "obj") {
      ObjEncoder e;
      wrote = dm ? e.EncodeToBuffer(*dm, &ob) : e.EncodeToBuffer(*pc, &ob);
    } else {
      PlyEncoder e;
      wrote = dm ? e.EncodeToBuffer(*dm, &ob) : e.EncodeToBuffer(*pc, &ob);
    }
    if (!wrote) { lib_err = "write: format encoder refused"; break; }
    lib_out.assign(ob.data(), ob.size());
    lib_ok = true;
  } while (false);

  // --- the tools
  const std::string scl = std::to_string(cl);
  int rc = spawn({tool_path("draco_encoder"), "-i", in_path, "-o", drc_path, "-qp", "0", "-qt", "0", "-qn", "0", "-cl", scl}, log_path);
  ctx.count(k_tool_process_spawns);
  std::string log;
  auto tool_trouble = [&](const char *which, int code) -> bool {
    read_file(log_path, &log);
    const bool sanitizer = code == 86 || code >= 1000 || log.find("Sanitizer") != std::string::npos;
    if (sanitizer) {
      ctx.fail(std::string("tools:") + which + "-sanitizer-report-or-signal|" + kl, "exit " + std::to_string(code) + " " + log.substr(0, 1500));
      return true;
    }
    if (code == 127) {
      ctx.fail("harness:tool-not-executable", tool_path(which));
      return true;
    }
    return false;
  };
  if (tool_trouble("draco_encoder", rc)) return;
  bool tool_ok = rc == 0;
  std::string tool_out, tool_drc;
  if (tool_ok) {
    read_file(drc_path, &tool_drc);
    rc = spawn({tool_path("draco_decoder"), "-i", drc_path, "-o", out_path}, log_path);
    ctx.count(k_tool_process_spawns);
    if (tool_trouble("draco_decoder", rc)) return;
    tool_ok = rc == 0 && read_file(out_path, &tool_out);
  }
  if (!tool_ok) read_file(log_path, &log);
  if (tool_ok != lib_ok) {
    ctx.fail(std::string("tools:") + (tool_ok ? "library-pipeline-fails-where-tools-succeed|" : "tools-fail-where-library-pipeline-succeeds|") + kl,
             "library: " + (lib_ok ? std::string("ok") : lib_err) + " | tools: exit " + std::to_string(rc) + " " + log.substr(0, 600));
    return;
  }
  if (!tool_ok) {
    ctx.count(k_tool_and_library_both_refuse);
    return;
  }
  if (tool_drc == lib_drc) ctx.count(k_tool_drc_bytes_identical_to_library);
  if (tool_out == lib_out) ctx.count(k_tool_output_bytes_identical_to_library);
  rg::Geom gt, gl;
  std::string lt, ll, err;
  if (!geom_of_file(tool_out, out_ext, &gt, &lt, &err)) {
    ctx.fail("tools:output-file-unreadable|" + kl, err);
    return;
  }
  if (!geom_of_file(lib_out, out_ext, &gl, &ll, &err)) {
    ctx.fail("harness:library-output-unreadable|" + kl, err);
    return;
  }
  if (lt != ll || gt != gl) {
    ctx.fail("tools:result-differs-from-library-pipeline|" + kl,
             "tools: " + lt + " " + rg::show(gt) + " | library: " + ll + " " + rg::show(gl));
    return;
  }
  ctx.state(mc::hash_combine(gt.hash(), mc::hash_str(lt)));
  ctx.nontrivial_unique();
  // the same input (and, for meshes, its STL form) with -point_cloud: the tool may refuse a format it cannot read as a point cloud,
  // but it must end with an exit status (no sanitizer report, no signal), and what it accepts must decode to a readable file
  if (cl == 0) {
    std::vector<std::string> inputs = {in_path};
    const std::string stl_path = stem + ".pc.stl";
    if (!c.cloud) {
      EncoderBuffer sb;
      StlEncoder se;
      if (se.EncodeToBuffer(static_cast<const Mesh &>(*g), &sb).ok() && write_file(stl_path, sb.data(), sb.size())) {
        inputs.push_back(stl_path);
        cleanup.files.push_back(stl_path);
      }
    }
    for (const std::string &ip : inputs) {
      rc = spawn({tool_path("draco_encoder"), "-point_cloud", "-i", ip, "-o", drc_path, "-qp", "0", "-qt", "0", "-qn", "0", "-cl", "0"}, log_path);
      ctx.count(k_tool_process_spawns);
      ctx.count("tool_point_cloud_flag_runs");
      if (tool_trouble("draco_encoder(-point_cloud)", rc)) return;
      if (rc != 0) {
        ctx.count("tool_point_cloud_flag_refused");
        continue;
      }
      rc = spawn({tool_path("draco_decoder"), "-i", drc_path, "-o", out_path}, log_path);
      ctx.count(k_tool_process_spawns);
      if (tool_trouble("draco_decoder(after -point_cloud)", rc)) return;
      std::string o2;
      rg::Geom g2;
      std::string l2, e2;
      if (rc != 0 || !read_file(out_path, &o2) || !geom_of_file(o2, out_ext, &g2, &l2, &e2)) {
        ctx.fail("tools:point-cloud-flag-output-unreadable|" + kl, "exit " + std::to_string(rc) + " " + e2);
        return;
      }
    }
  }
}

void add_tool_space(mc::Runner &R, const std::string &name, std::vector<int> files, bool quick, bool thorough) {
  static const int kCl[3] = {0, 7, 10};
  mc::Space sp;
  sp.name = name;
  sp.size = files.size() * 3;
  sp.quick = quick;
  sp.thorough = thorough;
  sp.timeout_s = 120;
  sp.run = [=](uint64_t idx, mc::Ctx &ctx) { run_tool_case(files[idx / 3], kCl[idx % 3], ctx); };
  sp.describe = [=](uint64_t idx) {
    const ToolFile &tf = tool_files()[files[idx / 3]];
    return "file #" + std::to_string(files[idx / 3]) + " ." + tf.in_ext + " -> draco_encoder -qp 0 -qt 0 -qn 0 -cl " +
           std::to_string(kCl[idx % 3]) + " -> draco_decoder -> ." + tf.out_ext + " : " + show(tf.c);
  };
  sp.klass = [=](uint64_t idx) { return std::string("tools,cl") + std::to_string(kCl[idx % 3]); };
  R.add(sp);
}

}  // namespace

// ---------------------------------------------------------------------------
// Byte-value space for the binary formats: every value 0..255 in every byte of
// the first point's position / normal floats and colour bytes (the bytes that
// directly follow the text header of a binary PLY, and the first vertex of an
// STL facet). A header/record parser that treats some byte value specially
// (0x0A, 0x0D, 0x20, 0x00 ...) shows up here.
void binary_roundtrip(int kind, const mcg::GeomDef &g, mc::Ctx &ctx, const std::string &label);
void run_byte_value_case(uint64_t idx, mc::Ctx &ctx, std::string *desc) {
  // idx -> (format/geometry kind k in 0..2, field f in 0..26, byte value b)
  const int b = idx % 256;
  const int f = (idx / 256) % 27;  // 0..11 position bytes, 12..23 normal bytes, 24..26 colour bytes
  const int kind = (int)(idx / (256 * 27));  // 0 PLY mesh, 1 PLY cloud, 2 STL mesh
  auto fl = [&](int field_base, int comp) {
    uint32_t u = comp == 0 ? 0x3F800000u : comp == 1 ? 0x40000000u : 0xBF000000u;  // 1, 2, -0.5
    const int byte = f - field_base - 4 * comp;
    if (byte >= 0 && byte < 4) u = (u & ~(0xFFu << (8 * byte))) | ((uint32_t)b << (8 * byte));
    float v;
    memcpy(&v, &u, 4);
    return v;
  };
  mcg::GeomDef g;
  g.is_mesh = kind != 1;
  g.num_points = 3;
  if (g.is_mesh) g.faces = {{0, 1, 2}};
  mcg::AttDef pos, nrm, col;
  pos.type = GeometryAttribute::POSITION; pos.dt = DT_FLOAT32; pos.nc = 3; pos.uid = 0;
  nrm.type = GeometryAttribute::NORMAL; nrm.dt = DT_FLOAT32; nrm.nc = 3; nrm.uid = 1;
  col.type = GeometryAttribute::COLOR; col.dt = DT_UINT8; col.nc = 3; col.uid = 2;
  pos.entries.push_back(mcg::bytes_of(std::vector<float>{fl(0, 0), fl(0, 1), fl(0, 2)}));
  pos.entries.push_back(mcg::bytes_of(std::vector<float>{4.f, 0.f, 0.25f}));
  pos.entries.push_back(mcg::bytes_of(std::vector<float>{0.f, 8.f, -3.f}));
  nrm.entries.push_back(mcg::bytes_of(std::vector<float>{fl(12, 0), fl(12, 1), fl(12, 2)}));
  nrm.entries.push_back(mcg::bytes_of(std::vector<float>{0.f, 0.f, 1.f}));
  nrm.entries.push_back(mcg::bytes_of(std::vector<float>{0.f, 1.f, 0.f}));
  for (int p = 0; p < 3; ++p) {
    std::vector<uint8_t> c = {(uint8_t)(10 + p), (uint8_t)(20 + p), (uint8_t)(30 + p)};
    if (p == 0 && f >= 24) c[f - 24] = (uint8_t)b;
    col.entries.push_back(mcg::bytes_of(c));
  }
  g.atts = {pos};
  if (kind != 2) {
    g.atts.push_back(nrm);
    g.atts.push_back(col);
  }
  if (desc) {
    *desc = std::string(kind == 0 ? "PLY mesh" : kind == 1 ? "PLY cloud" : "STL mesh") + ", byte value " + std::to_string(b) + " in field byte " +
            std::to_string(f) + " (0-11 position, 12-23 normal, 24-26 colour of point 0): " + mcg::text(g);
    return;
  }
  if (kind == 2 && f >= 12) return;  // STL carries positions only
  ctx.count("byte_value_roundtrips");
  binary_roundtrip(kind, g, ctx, "byte-values");
}
// Writes |g| as binary PLY (kind 0 mesh, 1 cloud) or STL (kind 2) and reads it back; bit-exact comparison of the value tuples.
void binary_roundtrip(int kind, const mcg::GeomDef &g, mc::Ctx &ctx, const std::string &label) {
  std::unique_ptr<Mesh> m;
  std::unique_ptr<PointCloud> pc;
  if (g.is_mesh) m = mcg::build_mesh(g);
  else pc = mcg::build_cloud(g);
  EncoderBuffer out;
  bool ok;
  if (kind == 2) {
    StlEncoder e;
    ok = e.EncodeToBuffer(*m, &out).ok();
  } else {
    PlyEncoder e;
    ok = g.is_mesh ? e.EncodeToBuffer(*m, &out) : e.EncodeToBuffer(*pc, &out);
  }
  const std::string tag = kind == 2 ? "stl" : "ply";
  if (!ok) {
    ctx.fail(tag + ":" + label + ":encoder-refused", mcg::text(g));
    return;
  }
  DecoderBuffer in;
  in.Init(out.data(), out.size());
  mcg::RefGeom want = g.is_mesh ? mcg::ref_of(*m, m.get()) : mcg::ref_of(*pc, nullptr), got;
  if (kind == 2) {
    StlDecoder d;
    auto r = d.DecodeFromBuffer(&in);
    if (!r.ok()) {
      ctx.fail("stl:" + label + ":own-output-rejected", r.status().error_msg_string() + " :: " + mcg::text(g));
      return;
    }
    // STL stores a soup (plus facet normals): compare the position triangles only
    auto pos_tris = [](const Mesh &mesh) {
      std::vector<std::string> t;
      const PointAttribute *pa = mesh.GetNamedAttribute(GeometryAttribute::POSITION);
      for (FaceIndex fi(0); pa && fi < mesh.num_faces(); ++fi) {
        std::string c[3];
        for (int k = 0; k < 3; ++k) {
          c[k].assign(12, '\0');
          pa->GetMappedValue(mesh.face(fi)[k], &c[k][0]);
        }
        t.push_back(mcg::canon_tri(c[0], c[1], c[2]));
      }
      return t;
    };
    if (mcg::multiset_of(pos_tris(*r.value())) != mcg::multiset_of(pos_tris(*m))) ctx.fail("stl:" + label + ":position-triangles-changed", mcg::text(g));
    return;
  }
  PlyDecoder d;
  Mesh dm;
  PointCloud dp;
  Status st = g.is_mesh ? d.DecodeFromBuffer(&in, &dm) : d.DecodeFromBuffer(&in, &dp);
  if (!st.ok()) {
    ctx.fail("ply:" + label + ":own-output-rejected", st.error_msg_string() + " :: " + mcg::text(g));
    return;
  }
  got = g.is_mesh ? mcg::ref_of(dm, &dm) : mcg::ref_of(dp, nullptr);
  // attribute ids may differ after a file round trip: compare the value tuples (positions, normals, colours in this order)
  const bool same = g.is_mesh ? mcg::multiset_of(got.tris) == mcg::multiset_of(want.tris) : mcg::multiset_of(got.points) == mcg::multiset_of(want.points);
  if (!same) ctx.fail("ply:" + label + ":geometry-changed", mcg::text(g));
}
void add_byte_value_space(mc::Runner &R) {
  mc::Space s;
  s.name = "binary_byte_values";
  s.size = 3 * 27 * 256;
  s.run = [](uint64_t idx, mc::Ctx &ctx) {
    run_byte_value_case(idx, ctx, nullptr);
    ctx.nontrivial_unique();
  };
  s.describe = [](uint64_t idx) {
    std::string d;
    mc::Ctx dummy;
    run_byte_value_case(idx, dummy, &d);
    return d;
  };
  R.add(s);
}

// Values that differ only in the sign of a zero component (and values equal up to that sign in SEVERAL components): the readers
// deduplicate attribute values after loading, and "bit-exactly" includes the sign bit of a zero. Two triangles (0,1,2)(2,1,3) or
// four points; every assignment of the 4 points to a pool of 7 position vectors x 3 normal shifts x {PLY mesh, PLY cloud, STL}.
void run_zero_twin_case(uint64_t idx, mc::Ctx &ctx, std::string *desc) {
  static const float P[7][3] = {{0.f, 2.5f, 0.25f}, {-0.f, 2.5f, 0.25f}, {1.f, 0.f, 3.f}, {1.f, -0.f, 3.f}, {0.f, 0.f, 0.f}, {-0.f, -0.f, -0.f}, {7.f, -7.f, 1e-6f}};
  static const float N[4][3] = {{0.f, 0.f, 1.f}, {-0.f, 0.f, 1.f}, {0.f, -0.f, 1.f}, {0.f, 1.f, 0.f}};
  const int kind = idx % 3;
  const int shift = (idx / 3) % 3;
  uint64_t a = idx / 9;
  mcg::GeomDef g;
  g.is_mesh = kind != 1;
  g.num_points = 4;
  if (g.is_mesh) g.faces = {{0, 1, 2}, {2, 1, 3}};
  mcg::AttDef pos, nrm, col;
  pos.type = GeometryAttribute::POSITION; pos.dt = DT_FLOAT32; pos.nc = 3; pos.uid = 0;
  nrm.type = GeometryAttribute::NORMAL; nrm.dt = DT_FLOAT32; nrm.nc = 3; nrm.uid = 1;
  col.type = GeometryAttribute::COLOR; col.dt = DT_UINT8; col.nc = 3; col.uid = 2;
  for (int p = 0; p < 4; ++p) {
    const int v = a % 7;
    a /= 7;
    pos.entries.push_back(mcg::bytes_of(std::vector<float>{P[v][0], P[v][1], P[v][2]}));
    const int n = (p + shift) % 4;
    nrm.entries.push_back(mcg::bytes_of(std::vector<float>{N[n][0], N[n][1], N[n][2]}));
    col.entries.push_back(mcg::bytes_of(std::vector<uint8_t>{(uint8_t)(10 + p), 20, 30}));
  }
  g.atts = {pos};
  if (kind != 2) {
    g.atts.push_back(nrm);
    g.atts.push_back(col);
  }
  if (desc) {
    *desc = std::string(kind == 0 ? "PLY mesh" : kind == 1 ? "PLY cloud" : "STL mesh") + ", zero-sign twins: " + mcg::text(g);
    return;
  }
  ctx.count("zero_sign_twin_roundtrips");
  binary_roundtrip(kind, g, ctx, "zero-sign-twins");
}
void add_zero_twin_space(mc::Runner &R) {
  mc::Space s;
  s.name = "zero_sign_twins";
  s.size = 9 * 7 * 7 * 7 * 7;
  s.run = [](uint64_t idx, mc::Ctx &ctx) {
    run_zero_twin_case(idx, ctx, nullptr);
    ctx.nontrivial_unique();
  };
  s.describe = [](uint64_t idx) {
    std::string d;
    mc::Ctx dummy;
    run_zero_twin_case(idx, dummy, &d);
    return d;
  };
  R.add(s);
}

int main(int argc, char **argv) {
  mc::Runner R(argc, argv, "C15");
  // libdraco.a registers its stdio file reader from a static initializer of
  // stdio_file_reader.o, which a static link of this harness does not pull
  // in; register it explicitly so that ReadMeshFromFile works as in the tools.
  FileReaderFactory::RegisterReader(StdioFileReader::Open);
  R.level = "model_checking";
  R.distinct_bits = 22;
  R.rule =
      "every list of F <= 2 triangles over 4 vertex ids x value set (rotation of the alphabet {0,1,-1,0.5,1/3,1e-6,"
      "123456.79,1e6} over the components of the 4 vertices) x attribute configuration (plain: per-vertex normals, "
      "rgb/rgba colours; seams: every per-corner pattern of a 2-value tex-coord and/or normal) x mesh form (builder / "
      "raw / indexed), and every point cloud of N <= 3 points, is written with ObjEncoder, PlyEncoder, StlEncoder to a "
      "buffer and read back with the matching decoder; 24 fixed files x 3 compression levels go through the "
      "draco_encoder and draco_decoder processes. states = distinct source structures (point->entry maps, faces) and, "
      "for tools, distinct results; non-trivial = cases (distinct by construction) that passed every format and either "
      "share a vertex between corners/points or carry a non-position attribute";
  R.explanation =
      "stateless exhaustive enumeration on the real encoders/decoders; oracle = reference geometry computed from the "
      "case description: bit-exact multiset for PLY (positions, normals, colours) and STL (positions), for OBJ the "
      "multiset after replacing each decoded value by the unique source value within 5e-7 + 1 ulp32 (bound derived from "
      "the encoder's %F format and the parser's double accumulation); tools: result of the two processes equals the "
      "library-only pipeline (same reader on both outputs, bit-exact)";
  R.assumptions = {
      "F <= 2 faces over 4 vertex ids, N <= 3 points; F = 0 / N = 0 excluded (the encoders refuse empty geometries)",
      "positions float32x3, normals float32x3, tex-coords float32x2, colours uint8x3/x4 - what draco's own writers emit",
      "plain configurations run over all 8 value sets and 3 mesh forms (quick: F = 2 lists over 3 ids); seam configurations: thorough = lists over 4 ids, "
      "builder form x value sets {0,5} and raw form x value set 3; quick = lists over 3 ids, builder form, value set 0",
      "OBJ point clouds are compared as sets: ObjDecoder deduplicates points by design",
      "tool part: fixed list of 24 files, -qp 0 -qt 0 -qn 0, -cl in {0,7,10}"};
  R.transition_counters = {"obj_roundtrips", "ply_roundtrips", "stl_roundtrips", "tool_process_spawns"};

  // plain: all 8 value sets; F = 2 over 4 ids in thorough, over 3 ids in quick
  for (int vs = 0; vs < 8; ++vs) {
    add_plain_space(R, 1, 4, vs, true, true);
    add_plain_space(R, 2, 3, vs, true, false);
    add_plain_space(R, 2, 4, vs, false, true);
  }
  // quick: lists over 3 ids, value set 0, deduplicated (builder) form - the
  // form with shared value entries, i.e. non-trivial v/vt/vn index triplets
  for (int F = 1; F <= 2; ++F) add_seam_space(R, F, 3, 0, kBuilder, true, false);
  for (int vs : {0, 5})
    for (int F = 1; F <= 2; ++F) add_seam_space(R, F, 4, vs, kBuilder, false, true);
  for (int F = 1; F <= 2; ++F) add_seam_space(R, F, 4, 3, kRaw, false, true);
  for (int N = 1; N <= 3; ++N) add_cloud_space(R, N);
  add_byte_value_space(R);
  add_zero_twin_space(R);
  {
    std::vector<int> all;
    for (int i = 0; i < (int)tool_files().size(); ++i) all.push_back(i);
    add_tool_space(R, "tools_24_files", all, false, true);
    add_tool_space(R, "tools_6_files", {3, 5, 7, 11, 17, 22}, true, false);
  }
  // vacuity guards on input classes (counted before the oracles run)
  R.require("geometries_built", 1);
  R.require("obj_cases_with_tex_seam", 1);
  R.require("obj_cases_with_normal_seam", 1);
  R.require("ply_cases_with_colours", 1);
  R.require("stl_cases_with_degenerate_face", 1);
  R.require("tool_pipelines_run", 1);
  return R.main();
}
