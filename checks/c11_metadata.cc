// C11: geometry and attribute metadata survive the round trip.
//
// A case = one reference metadata tree (plain structs of this file) attached
// to tiny geometries and pushed through every carrier: the stand-alone
// MetadataEncoder/MetadataDecoder pair, a 2-triangle mesh (sequential,
// Edgebreaker) and a 4-point cloud (sequential, kd-tree with integer positions,
// kd-tree with quantized float positions). One runner index = one tree; the
// carriers are executed one after another inside it (cases_per_index).
#include <cmath>
#include <cstring>
#include <map>
#include <memory>

#include "draco/compression/decode.h"
#include "draco/compression/encode.h"
#include "draco/compression/expert_encode.h"
#include "draco/mesh/mesh.h"
#include "draco/metadata/metadata_decoder.h"
#include "draco/metadata/metadata_encoder.h"
#include "draco/point_cloud/point_cloud.h"
#include "mc/runner.h"

using namespace draco;

namespace {

// ------------------------------------------------------------ the alphabets
// names
enum { N_EMPTY = 0, N_A, N_B, N_X255, N_X256, N_BIN, N_COUNT };
const std::string &name_of(int i) {
  static const std::string n[N_COUNT] = {"", "a", "b", std::string(255, 'x'), std::string(256, 'x'), std::string("\x00\xff\x80", 3)};
  return n[i];
}
// value classes (the draco API call used to add them is part of the class)
enum { V_STR = 0, V_BYTE0, V_INT, V_DOUBLE, V_INTARR, V_BIN64K, V_EMPTYSTR, V_EMPTYBIN, V_EMPTYINTARR, V_EMPTYDBLARR, V_COUNT };
const char *kValName[V_COUNT] = {"string 'v'", "binary 00", "int32 -123456789", "double pi", "int array {1,-2,300000}",
                                 "binary 64KiB", "EMPTY string", "EMPTY binary", "EMPTY int array", "EMPTY double array"};
const int32_t kInt = -123456789;
const double kDouble = 3.141592653589793;
const std::vector<int32_t> kIntArr = {1, -2, 300000};
const std::vector<uint8_t> &bin64k() {
  static std::vector<uint8_t> v;
  if (v.empty()) {
    v.resize(65536);
    for (size_t i = 0; i < v.size(); ++i) v[i] = uint8_t((i * 7 + (i >> 8) + 3) & 0xff);
  }
  return v;
}
// The bytes an entry of class |v| must hold (reference model of the API).
const std::string &bytes_of(int v) {
  static std::string b[V_COUNT];
  static bool init = false;
  if (!init) {
    b[V_STR] = "v";
    b[V_BYTE0] = std::string(1, '\0');
    b[V_INT] = std::string(reinterpret_cast<const char *>(&kInt), 4);
    b[V_DOUBLE] = std::string(reinterpret_cast<const char *>(&kDouble), 8);
    b[V_INTARR] = std::string(reinterpret_cast<const char *>(kIntArr.data()), 12);
    b[V_BIN64K] = std::string(reinterpret_cast<const char *>(bin64k().data()), bin64k().size());
    init = true;
  }
  return b[v];
}
bool is_empty_value(int v) { return v >= V_EMPTYSTR; }

// ------------------------------------------------------------ the reference
struct RNode {
  std::map<std::string, int> entries;  // name -> value class
  std::map<std::string, RNode> children;
};
struct RMeta {
  bool present = true;  // false: no metadata attached at all
  RNode root;
  std::vector<std::pair<uint32_t, RNode>> att;  // attribute-metadata blocks in insertion order
};

void scan(const RNode &n, bool *longname, bool *emptyval, int *nodes, int depth, int *maxdepth, bool *big) {
  ++*nodes;
  *maxdepth = std::max(*maxdepth, depth);
  for (auto &e : n.entries) {
    if (e.first.size() > 255) *longname = true;
    if (is_empty_value(e.second)) *emptyval = true;
    if (e.second == V_BIN64K) *big = true;
  }
  for (auto &c : n.children) {
    if (c.first.size() > 255) *longname = true;
    scan(c.second, longname, emptyval, nodes, depth + 1, maxdepth, big);
  }
}
struct Info {
  bool longname = false, emptyval = false, big = false;
  int nodes = 0, maxdepth = 0;
};
Info info_of(const RMeta &m) {
  Info i;
  scan(m.root, &i.longname, &i.emptyval, &i.nodes, 0, &i.maxdepth, &i.big);
  for (auto &a : m.att) scan(a.second, &i.longname, &i.emptyval, &i.nodes, 0, &i.maxdepth, &i.big);
  return i;
}
std::string klass_sig(const Info &i) {
  if (i.longname && i.emptyval) return "name>255+empty-value";
  if (i.longname) return "name>255";
  if (i.emptyval) return "empty-value";
  return "plain";
}
std::string klass_tag(const Info &i) {  // for crash signatures
  if (i.longname && i.emptyval) return "has-long-name+has-empty-value";
  if (i.longname) return "has-long-name";
  if (i.emptyval) return "has-empty-value";
  return "plain";
}

std::string show_name(const std::string &s) {
  if (s.size() > 8 && s.find_first_not_of('x') == std::string::npos) return "'x'*" + std::to_string(s.size());
  bool printable = true;
  for (unsigned char c : s) if (c < 0x20 || c >= 0x7f) printable = false;
  if (printable) return "\"" + s + "\"";
  return "hex:" + mc::hex(s.data(), s.size());
}
std::string show(const RNode &n) {
  std::string s = "{";
  bool first = true;
  for (auto &e : n.entries) {
    s += (first ? "" : ", ") + show_name(e.first) + "=" + kValName[e.second];
    first = false;
  }
  for (auto &c : n.children) {
    s += (first ? "" : ", ") + std::string("sub ") + show_name(c.first) + ":" + show(c.second);
    first = false;
  }
  return s + "}";
}
std::string show(const RMeta &m) {
  if (!m.present) return "no metadata attached";
  std::string s = "geometry-metadata " + show(m.root);
  for (auto &a : m.att) s += " + attribute-metadata[unique id " + std::to_string(a.first) + "] " + show(a.second);
  return s;
}
uint64_t hash_node(const RNode &n) {
  uint64_t h = mc::hash_combine(n.entries.size(), n.children.size());
  for (auto &e : n.entries) h = mc::hash_combine(mc::hash_combine(h, mc::hash_str(e.first)), e.second + 1);
  for (auto &c : n.children) h = mc::hash_combine(mc::hash_combine(h, mc::hash_str(c.first) ^ 0x5555), hash_node(c.second));
  return h;
}
uint64_t hash_meta(const RMeta &m) {
  uint64_t h = mc::hash_combine(m.present, hash_node(m.root));
  for (auto &a : m.att) h = mc::hash_combine(mc::hash_combine(h, a.first + 77), hash_node(a.second));
  return h;
}

// ------------------------------------------------------------ reference -> draco
bool fill(Metadata *md, const RNode &n) {
  for (auto &e : n.entries) {
    switch (e.second) {
      case V_STR: md->AddEntryString(e.first, "v"); break;
      case V_BYTE0: md->AddEntryBinary(e.first, std::vector<uint8_t>(1, 0)); break;
      case V_INT: md->AddEntryInt(e.first, kInt); break;
      case V_DOUBLE: md->AddEntryDouble(e.first, kDouble); break;
      case V_INTARR: md->AddEntryIntArray(e.first, kIntArr); break;
      case V_BIN64K: md->AddEntryBinary(e.first, bin64k()); break;
      case V_EMPTYSTR: md->AddEntryString(e.first, ""); break;
      case V_EMPTYBIN: md->AddEntryBinary(e.first, std::vector<uint8_t>()); break;
      case V_EMPTYINTARR: md->AddEntryIntArray(e.first, std::vector<int32_t>()); break;
      case V_EMPTYDBLARR: md->AddEntryDoubleArray(e.first, std::vector<double>()); break;
    }
  }
  for (auto &c : n.children) {
    std::unique_ptr<Metadata> sub(new Metadata());
    if (!fill(sub.get(), c.second)) return false;
    if (!md->AddSubMetadata(c.first, std::move(sub))) return false;
  }
  return true;
}

// ------------------------------------------------------------ draco -> compare
// Returns "" if |md| is structurally equal to |n|, else the first difference.
std::string diff_node(const Metadata &md, const RNode &n, const std::string &path) {
  if (md.entries().size() != n.entries.size())
    return path + ": " + std::to_string(md.entries().size()) + " entries, expected " + std::to_string(n.entries.size());
  if (md.num_entries() != int(n.entries.size())) return path + ": num_entries() disagrees";
  for (auto &e : md.entries()) {
    auto it = n.entries.find(e.first);
    if (it == n.entries.end()) return path + ": unexpected entry " + show_name(e.first);
    const std::string &want = bytes_of(it->second);
    const std::vector<uint8_t> &got = e.second.data();
    if (got.size() != want.size() || (want.size() && memcmp(got.data(), want.data(), want.size()) != 0)) {
      size_t k = 0;
      while (k < got.size() && k < want.size() && got[k] == uint8_t(want[k])) ++k;
      return path + ": entry " + show_name(e.first) + " has " + std::to_string(got.size()) + " bytes, expected " + std::to_string(want.size()) +
             " (" + kValName[it->second] + "), first difference at byte " + std::to_string(k);
    }
  }
  if (md.sub_metadatas().size() != n.children.size())
    return path + ": " + std::to_string(md.sub_metadatas().size()) + " sub-metadata, expected " + std::to_string(n.children.size());
  for (auto &c : md.sub_metadatas()) {
    auto it = n.children.find(c.first);
    if (it == n.children.end()) return path + ": unexpected sub-metadata " + show_name(c.first);
    if (!c.second) return path + ": null sub-metadata " + show_name(c.first);
    std::string d = diff_node(*c.second, it->second, path + "/" + show_name(c.first));
    if (!d.empty()) return d;
  }
  return "";
}
std::string diff_meta(const GeometryMetadata *gm, const RMeta &m) {
  if (!m.present) return gm ? "metadata present, none was attached" : "";
  if (!gm) return "no metadata returned";
  std::string d = diff_node(*gm, m.root, "root");
  if (!d.empty()) return d;
  const auto &am = gm->attribute_metadatas();
  if (am.size() != m.att.size()) return std::to_string(am.size()) + " attribute-metadata blocks, expected " + std::to_string(m.att.size());
  // keyed by unique id: stable order by id on both sides
  std::vector<size_t> a(am.size()), b(m.att.size());
  for (size_t i = 0; i < a.size(); ++i) a[i] = b[i] = i;
  for (auto &x : am) if (!x) return "null attribute metadata";
  std::stable_sort(a.begin(), a.end(), [&](size_t x, size_t y) { return am[x]->att_unique_id() < am[y]->att_unique_id(); });
  std::stable_sort(b.begin(), b.end(), [&](size_t x, size_t y) { return m.att[x].first < m.att[y].first; });
  for (size_t i = 0; i < a.size(); ++i) {
    if (am[a[i]]->att_unique_id() != m.att[b[i]].first)
      return "attribute-metadata unique id " + std::to_string(am[a[i]]->att_unique_id()) + ", expected " + std::to_string(m.att[b[i]].first);
    d = diff_node(*am[a[i]], m.att[b[i]].second, "att[" + std::to_string(m.att[b[i]].first) + "]");
    if (!d.empty()) return d;
  }
  return "";
}

// ------------------------------------------------------------ the carriers
enum Carrier { STANDALONE = 0, MESH_SEQ, MESH_EB, PC_SEQ, PC_KD_INT, PC_KD_QFLOAT, NUM_CARRIERS };
const char *kCarrierName[NUM_CARRIERS] = {"standalone", "mesh-sequential", "mesh-edgebreaker", "pc-sequential", "pc-kdtree-int", "pc-kdtree-qfloat"};

const float kFPos[4][3] = {{0, 0, 0}, {1, 0, 0}, {0, 1, 0}, {1, 1, 0.5f}};
const int32_t kIPos[4][3] = {{0, 0, 0}, {5, -3, 0}, {-7, 2, 9}, {1, 1, 1}};
const int32_t kGen[4] = {10, 20, 30, 40};
const int kFaces[2][3] = {{0, 1, 2}, {2, 1, 3}};
const uint32_t kPosUid = 0, kGenUid = 3;  // existing attribute unique ids
const int kQBits = 8;

void add_attributes(PointCloud *pc, bool int_pos) {
  pc->set_num_points(4);
  GeometryAttribute pa;
  pa.Init(GeometryAttribute::POSITION, nullptr, 3, int_pos ? DT_INT32 : DT_FLOAT32, false, 12, 0);
  const int pid = pc->AddAttribute(pa, true, 4);
  GeometryAttribute ga;
  ga.Init(GeometryAttribute::GENERIC, nullptr, 1, DT_INT32, false, 4, 0);
  const int gid = pc->AddAttribute(ga, true, 4);
  for (int i = 0; i < 4; ++i) {
    if (int_pos) pc->attribute(pid)->SetAttributeValue(AttributeValueIndex(i), kIPos[i]);
    else pc->attribute(pid)->SetAttributeValue(AttributeValueIndex(i), kFPos[i]);
    pc->attribute(gid)->SetAttributeValue(AttributeValueIndex(i), &kGen[i]);
  }
  pc->attribute(pid)->set_unique_id(kPosUid);
  pc->attribute(gid)->set_unique_id(kGenUid);
}

// Attaches |m| to |pc| through the public API. Blocks keyed by an existing
// unique id go through PointCloud::AddAttributeMetadata(att_id, ...), the
// others through GeometryMetadata::AddAttributeMetadata.
bool attach(PointCloud *pc, const RMeta &m) {
  if (!m.present) return true;
  std::unique_ptr<GeometryMetadata> gm(new GeometryMetadata());
  if (!fill(gm.get(), m.root)) return false;
  pc->AddMetadata(std::move(gm));
  for (auto &a : m.att) {
    std::unique_ptr<AttributeMetadata> am(new AttributeMetadata());
    if (!fill(am.get(), a.second)) return false;
    const int att_id = pc->GetAttributeIdByUniqueId(a.first);
    if (att_id >= 0) {
      pc->AddAttributeMetadata(att_id, std::move(am));
    } else {
      am->set_att_unique_id(a.first);
      if (!pc->metadata()->AddAttributeMetadata(std::move(am))) return false;
    }
  }
  return true;
}

bool read_point(const PointAttribute *att, int p, size_t nbytes, void *out) {
  const AttributeValueIndex avi = att->mapped_index(PointIndex(p));
  if (avi.value() >= att->size() || size_t(att->byte_stride()) != nbytes) return false;
  att->GetValue(avi, out);
  return true;
}

// Geometry oracle for the tiny unquantized geometry. Returns "" or a diagnosis.
std::string diff_geometry(const PointCloud &dec, Carrier c) {
  const bool int_pos = c == PC_KD_INT;
  if (dec.num_points() != 4) return "num_points " + std::to_string(dec.num_points());
  if (dec.num_attributes() != 2) return "num_attributes " + std::to_string(dec.num_attributes());
  const PointAttribute *pa = dec.GetAttributeByUniqueId(kPosUid);
  const PointAttribute *ga = dec.GetAttributeByUniqueId(kGenUid);
  if (!pa || !ga) return "attribute with the original unique id missing";
  if (pa->attribute_type() != GeometryAttribute::POSITION || pa->num_components() != 3 || pa->data_type() != (int_pos ? DT_INT32 : DT_FLOAT32))
    return "position attribute changed type";
  if (ga->attribute_type() != GeometryAttribute::GENERIC || ga->num_components() != 1 || ga->data_type() != DT_INT32)
    return "generic attribute changed type";
  // point records keyed by the generic value (unique per point)
  uint8_t pos[4][12];
  int seen[4] = {0, 0, 0, 0};
  int src_of_point[4];
  for (int p = 0; p < 4; ++p) {
    int32_t g;
    uint8_t b[12];
    if (!read_point(ga, p, 4, &g) || !read_point(pa, p, 12, b)) return "point " + std::to_string(p) + " unreadable";
    int s = -1;
    for (int k = 0; k < 4; ++k) if (kGen[k] == g) s = k;
    if (s < 0) return "generic value " + std::to_string(g) + " is not a source value";
    if (seen[s]++) return "generic value " + std::to_string(g) + " occurs twice";
    src_of_point[p] = s;
    memcpy(pos[s], b, 12);
  }
  for (int s = 0; s < 4; ++s) {
    if (c == PC_KD_QFLOAT) {
      float f[3];
      memcpy(f, pos[s], 12);
      const double bound = 1.0 / double((1 << kQBits) - 1) / 2.0 + 4 * 1.2e-7;  // extent R = 1
      for (int k = 0; k < 3; ++k)
        if (!(std::fabs(double(f[k]) - double(kFPos[s][k])) <= bound))
          return "quantized position of point with generic value " + std::to_string(kGen[s]) + " off by more than half a step";
    } else if (memcmp(pos[s], int_pos ? static_cast<const void *>(kIPos[s]) : static_cast<const void *>(kFPos[s]), 12) != 0) {
      return "position of point with generic value " + std::to_string(kGen[s]) + " changed";
    }
  }
  if (c == MESH_SEQ || c == MESH_EB) {
    const Mesh &m = static_cast<const Mesh &>(dec);
    if (m.num_faces() != 2) return "num_faces " + std::to_string(m.num_faces());
    // faces as source-point triples, rotated smallest first, as a multiset
    auto canon = [](int a, int b, int cc) {
      int t[3] = {a, b, cc};
      int r = 0;
      for (int k = 1; k < 3; ++k) if (t[k] < t[r]) r = k;
      return t[r] * 100 + t[(r + 1) % 3] * 10 + t[(r + 2) % 3];
    };
    std::multiset<int> want, got;
    for (int f = 0; f < 2; ++f) {
      want.insert(canon(kFaces[f][0], kFaces[f][1], kFaces[f][2]));
      const Mesh::Face &face = m.face(FaceIndex(f));
      for (int k = 0; k < 3; ++k) if (face[k].value() >= 4) return "face index out of range";
      got.insert(canon(src_of_point[face[0].value()], src_of_point[face[1].value()], src_of_point[face[2].value()]));
    }
    if (want != got) return "faces changed";
  }
  return "";
}

struct Outcome {
  bool encode_ok = false;
  bool decode_ok = false;
  std::string decode_msg, tree_diff, geom_diff, reuse_diff;
  uint64_t stream_hash = 0;
  size_t stream_size = 0;
};

bool g_source_check_failed = false;

Outcome run_carrier(const RMeta &m, Carrier c, mc::Ctx &ctx, std::string *internal) {
  Outcome o;
  if (c == STANDALONE) {
    // (i) geometry metadata incl. attribute blocks
    GeometryMetadata gm;
    if (!fill(&gm, m.root)) { *internal = "fill"; return o; }
    for (auto &a : m.att) {
      std::unique_ptr<AttributeMetadata> am(new AttributeMetadata());
      if (!fill(am.get(), a.second)) { *internal = "fill"; return o; }
      am->set_att_unique_id(a.first);
      gm.AddAttributeMetadata(std::move(am));
    }
    {
      const std::string d = diff_meta(&gm, m);
      if (!d.empty()) { *internal = "source object differs from what was added: " + d; return o; }
    }
    EncoderBuffer eb;
    MetadataEncoder me;
    o.encode_ok = me.EncodeGeometryMetadata(&eb, &gm);
    if (!o.encode_ok) return o;
    o.stream_hash = mc::hash_bytes(eb.data(), eb.size());
    o.stream_size = eb.size();
    DecoderBuffer db;
    db.Init(eb.data(), eb.size());
    GeometryMetadata out;
    MetadataDecoder md;
    o.decode_ok = md.DecodeGeometryMetadata(&db, &out);
    if (!o.decode_ok) { o.decode_msg = "DecodeGeometryMetadata returned false"; return o; }
    o.tree_diff = diff_meta(&out, m);
    if (o.tree_diff.empty() && db.remaining_size() != 0) ctx.count("standalone_decoder_left_bytes_unread");
    return o;
  }
  std::unique_ptr<PointCloud> src;
  const bool mesh = c == MESH_SEQ || c == MESH_EB;
  if (mesh) {
    Mesh *mm = new Mesh();
    src.reset(mm);
    add_attributes(mm, false);
    for (int f = 0; f < 2; ++f) mm->AddFace({{PointIndex(kFaces[f][0]), PointIndex(kFaces[f][1]), PointIndex(kFaces[f][2])}});
  } else {
    src.reset(new PointCloud());
    add_attributes(src.get(), c == PC_KD_INT);
  }
  if (!attach(src.get(), m)) { *internal = "attach"; return o; }
  {
    const std::string d = diff_meta(src->GetMetadata(), m);
    if (!d.empty()) { *internal = "source object differs from what was added: " + d; return o; }
  }
  EncoderBuffer eb;
  Status st;
  if (mesh) {
    Encoder enc;
    enc.SetEncodingMethod(c == MESH_SEQ ? MESH_SEQUENTIAL_ENCODING : MESH_EDGEBREAKER_ENCODING);
    st = enc.EncodeMeshToBuffer(*static_cast<Mesh *>(src.get()), &eb);
  } else {
    ExpertEncoder enc(*src);
    enc.SetEncodingMethod(c == PC_SEQ ? POINT_CLOUD_SEQUENTIAL_ENCODING : POINT_CLOUD_KD_TREE_ENCODING);
    if (c == PC_KD_QFLOAT) enc.SetAttributeQuantization(0, kQBits);
    st = enc.EncodeToBuffer(&eb);
  }
  o.encode_ok = st.ok();
  if (!o.encode_ok) { o.decode_msg = st.error_msg_string(); return o; }
  o.stream_hash = mc::hash_bytes(eb.data(), eb.size());
  o.stream_size = eb.size();
  // the stream must announce the carrier that was asked for
  DecoderBuffer db;
  db.Init(eb.data(), eb.size());
  Decoder dec;
  std::unique_ptr<PointCloud> out;
  if (mesh) {
    auto r = dec.DecodeMeshFromBuffer(&db);
    if (!r.ok()) { o.decode_msg = r.status().error_msg_string(); return o; }
    out = std::move(r).value();
  } else {
    auto r = dec.DecodePointCloudFromBuffer(&db);
    if (!r.ok()) { o.decode_msg = r.status().error_msg_string(); return o; }
    out = std::move(r).value();
  }
  if (!out) { o.decode_msg = "decoder returned ok and a null geometry"; return o; }
  o.decode_ok = true;
  o.tree_diff = diff_meta(out->GetMetadata(), m);
  o.geom_diff = diff_geometry(*out, c);
  // History of depth 2 on the output side: the same stream decoded by DecodeBufferToGeometry into
  // an object that already holds a geometry whose attribute unique ids and attribute metadata
  // blocks collide with the stream's (pass 0: a fresh object, passes 1 and 2: the object the
  // previous pass filled). The metadata tree after each pass must be the tree that was attached.
  {
    std::unique_ptr<PointCloud> used(mesh ? new Mesh() : new PointCloud());
    for (int pass = 0; pass < 3 && o.reuse_diff.empty(); ++pass) {
      DecoderBuffer db2;
      db2.Init(eb.data(), eb.size());
      Decoder dec2;
      const Status s2 = mesh ? dec2.DecodeBufferToGeometry(&db2, static_cast<Mesh *>(used.get())) : dec2.DecodeBufferToGeometry(&db2, used.get());
      if (!s2.ok()) { o.reuse_diff = "pass " + std::to_string(pass) + ": decode into a used object failed: " + s2.error_msg_string(); break; }
      std::string d = diff_meta(used->GetMetadata(), m);
      if (d.empty()) d = diff_geometry(*used, c);
      if (!d.empty()) o.reuse_diff = "pass " + std::to_string(pass) + ": " + d;
    }
  }
  return o;
}

void check(const RMeta &m, mc::Ctx &ctx) {
  const Info inf = info_of(m);
  const std::string ks = klass_sig(inf);
  ctx.count("trees");
  ctx.count("trees:" + ks);
  ctx.count("trees:depth" + std::to_string(inf.maxdepth));
  if (inf.big) ctx.count("trees:with-64KiB-value");
  if (!m.att.empty()) ctx.count("trees:att-blocks" + std::to_string(m.att.size()));
  const uint64_t th = hash_meta(m);
  bool all_ok = true;
  for (int ci = 0; ci < NUM_CARRIERS; ++ci) {
    const Carrier c = Carrier(ci);
    if (!m.present && c == STANDALONE) continue;
    std::string internal;
    const Outcome o = run_carrier(m, c, ctx, &internal);
    const std::string cn = kCarrierName[ci];
    ctx.count("executions");
    if (!internal.empty()) {
      ctx.fail("source|" + ks + "|" + (internal.size() > 6 ? std::string("container-differs") : internal), show(m) + " :: " + cn + ": " + internal);
      all_ok = false;
      continue;
    }
    if (!o.encode_ok) {
      ctx.count("encode_reported_failure:" + cn);
      ctx.count("encode_reported_failure|" + ks);
      continue;  // a reported failure is acceptable for every tree (vacuity guards watch the rate)
    }
    ctx.count("encode_ok:" + cn);
    ctx.count_max("max_stream_bytes", o.stream_size);
    ctx.state(o.stream_hash);
    if (m.present && (inf.nodes > 1 + int(m.att.size()) || !m.att.empty())) ctx.nontrivial(mc::hash_combine(th, ci));
    if (!o.decode_ok) {
      ctx.fail("meta|" + ks + "|decode-failed", show(m) + " :: " + cn + ": encode ok, decode: " + o.decode_msg);
      all_ok = false;
      continue;
    }
    ctx.count("decode_ok:" + cn);
    if (!o.tree_diff.empty()) {
      ctx.fail("meta|" + ks + "|tree-differs", show(m) + " :: " + cn + ": " + o.tree_diff);
      all_ok = false;
    }
    if (!o.geom_diff.empty()) {
      ctx.fail("meta|" + ks + "|geometry-differs", show(m) + " :: " + cn + ": " + o.geom_diff);
      all_ok = false;
    }
    if (!o.reuse_diff.empty()) {
      ctx.fail("meta|" + ks + "|differs-when-decoded-into-used-object", show(m) + " :: " + cn + ": " + o.reuse_diff);
      all_ok = false;
    } else if (c != STANDALONE) {
      ctx.count("decoded_into_used_object_equal:" + cn);
    }
    if (o.tree_diff.empty() && o.geom_diff.empty()) {
      ctx.count("roundtrip_equal:" + cn);
      ctx.count("roundtrip_equal|" + ks);
    }
  }
  // stand-alone Metadata (not GeometryMetadata) codec on the root tree
  if (m.present) {
    Metadata md;
    if (!fill(&md, m.root)) { ctx.fail("source|" + ks + "|fill", show(m)); return; }
    EncoderBuffer eb;
    MetadataEncoder me;
    ctx.count("executions");
    if (!me.EncodeMetadata(&eb, &md)) {
      ctx.count("encode_reported_failure:standalone-plain-metadata");
      ctx.count("encode_reported_failure|" + ks);
    } else {
      ctx.count("encode_ok:standalone-plain-metadata");
      ctx.state(mc::hash_bytes(eb.data(), eb.size()) ^ 0x1234);
      DecoderBuffer db;
      db.Init(eb.data(), eb.size());
      Metadata out;
      MetadataDecoder mdd;
      if (!mdd.DecodeMetadata(&db, &out)) {
        ctx.fail("meta|" + ks + "|decode-failed", show(m) + " :: standalone-plain-metadata: EncodeMetadata true, DecodeMetadata false");
      } else {
        const std::string d = diff_node(out, m.root, "root");
        if (!d.empty()) ctx.fail("meta|" + ks + "|tree-differs", show(m) + " :: standalone-plain-metadata: " + d);
        else ctx.count("roundtrip_equal:standalone-plain-metadata");
      }
    }
  }
  if (all_ok) ctx.count("trees_all_carriers_ok|" + ks);
}

// ------------------------------------------------------------ tree generators
// Entry sets with <= 2 entries over names 0..5 and the value list |vals|.
uint64_t entry_sets(size_t nv) { return 1 + 6 * nv + 15 * nv * nv; }
void set_entries(RNode *n, uint64_t e, const std::vector<int> &vals) {
  const uint64_t nv = vals.size();
  if (e == 0) return;
  e -= 1;
  if (e < 6 * nv) {
    n->entries[name_of(int(e / nv))] = vals[e % nv];
    return;
  }
  e -= 6 * nv;
  const uint64_t pair = e / (nv * nv);
  const uint64_t vv = e % (nv * nv);
  int i = 0, j = 1;
  for (uint64_t k = 0; k < pair; ++k) { if (++j == 6) { ++i; j = i + 1; } }
  n->entries[name_of(i)] = vals[vv % nv];
  n->entries[name_of(j)] = vals[vv / nv];
}
// Child-name sets with <= 2 children over names 0..5: 22.
const uint64_t kChildSets = 22;
void child_names(uint64_t s, std::vector<int> *out) {
  out->clear();
  if (s == 0) return;
  if (s <= 6) { out->push_back(int(s - 1)); return; }
  s -= 7;
  int i = 0, j = 1;
  for (uint64_t k = 0; k < s; ++k) { if (++j == 6) { ++i; j = i + 1; } }
  out->push_back(i);
  out->push_back(j);
}
RNode plain_leaf(int v) {
  RNode n;
  n.entries["a"] = v;
  return n;
}
// Focus tree: a chain root -"a"-> ... -"a"-> node at |level|; intermediate
// nodes hold {"a"="v"}; the focus node holds entry set |e| and the children of
// child set |s| (leaves {"a"=int32} and {"b"=double}).
RNode focus_tree(int level, uint64_t e, uint64_t s, const std::vector<int> &vals) {
  RNode f;
  set_entries(&f, e, vals);
  std::vector<int> cn;
  child_names(s, &cn);
  for (size_t k = 0; k < cn.size(); ++k) {  // the two children differ in content
    RNode leaf;
    if (k == 0) leaf.entries["a"] = V_INT; else leaf.entries["b"] = V_DOUBLE;
    f.children[name_of(cn[k])] = leaf;
  }
  for (int l = level; l > 0; --l) {
    RNode p = plain_leaf(V_STR);
    p.children["a"] = std::move(f);
    f = std::move(p);
  }
  return f;
}
// placement of the tree under test inside the geometry metadata
RMeta place(RNode t, int placement) {
  RMeta m;
  switch (placement) {
    case 0: m.root = std::move(t); break;
    case 1:
      m.root = plain_leaf(V_STR);
      m.att.emplace_back(kPosUid, std::move(t));
      break;
    default:
      m.att.emplace_back(300u, std::move(t));  // no attribute has unique id 300
      m.att.emplace_back(kGenUid, plain_leaf(V_STR));
      break;
  }
  return m;
}

// All trees of depth <= d with node contents from |contents[level]| and the
// two child names |names[level]| (names of the children of a node at |level|).
struct TreeAlphabet {
  std::vector<std::vector<RNode>> contents;                   // per level: entry-only nodes
  std::vector<std::pair<std::string, std::string>> names;  // per level
};
uint64_t count_trees(const TreeAlphabet &a, int level, int maxdepth) {
  const uint64_t c = a.contents[level].size();
  if (level == maxdepth) return c;
  const uint64_t t = count_trees(a, level + 1, maxdepth);
  return c * (1 + 2 * t + t * t);
}
RNode unrank_tree(const TreeAlphabet &a, int level, int maxdepth, uint64_t idx) {
  const uint64_t c = a.contents[level].size();
  RNode n = a.contents[level][idx % c];
  idx /= c;
  if (level == maxdepth || idx == 0) return n;
  const uint64_t t = count_trees(a, level + 1, maxdepth);
  idx -= 1;
  if (idx < t) {
    n.children[a.names[level].first] = unrank_tree(a, level + 1, maxdepth, idx);
  } else if (idx < 2 * t) {
    n.children[a.names[level].second] = unrank_tree(a, level + 1, maxdepth, idx - t);
  } else {
    idx -= 2 * t;
    n.children[a.names[level].first] = unrank_tree(a, level + 1, maxdepth, idx % t);
    n.children[a.names[level].second] = unrank_tree(a, level + 1, maxdepth, idx / t);
  }
  return n;
}
// palette p over value list |vals|: same alphabet on every level
TreeAlphabet palette(int p, const std::vector<int> &vals, int levels) {
  const int nv = int(vals.size());
  TreeAlphabet a;
  RNode c0, c1, c2;
  c1.entries[name_of(p % 6)] = vals[p % nv];
  c2.entries[name_of((p + 1) % 6)] = vals[(p + 1) % nv];
  c2.entries[name_of((p + 2) % 6)] = vals[(p + 3) % nv];
  for (int l = 0; l <= levels; ++l) {
    a.contents.push_back({c0, c1, c2});
    a.names.emplace_back(name_of(p % 6), name_of((p + 1) % 6));
  }
  return a;
}
// depth-3 alphabet: two contents per level, all names <= 255 bytes, all values non-empty
TreeAlphabet depth3_alphabet(bool full) {
  TreeAlphabet a;
  RNode e;
  RNode l0 = e, l1 = e, l2 = e, l3 = e;
  l0.entries["a"] = V_STR;
  l1.entries["a"] = V_BYTE0;
  l2.entries["b"] = V_INTARR;
  l3.entries[""] = V_DOUBLE;
  a.contents = {{e, l0}, {e, l1}, {e, l2}, {e, l3}};
  if (!full) a.contents[2] = {l2};  // level-2 nodes always hold their entry: 80 802 trees instead of 1 045 458
  a.names = {{"a", "b"}, {"", "a"}, {name_of(N_BIN), name_of(N_X255)}, {"", ""}};
  return a;
}

void add(mc::Runner &R, const std::string &name, uint64_t size, bool quick, bool thorough, std::function<RMeta(uint64_t)> gen) {
  mc::Space sp;
  sp.name = name;
  sp.size = size;
  sp.quick = quick;
  sp.thorough = thorough;
  sp.timeout_s = 30;
  sp.cases_per_index = NUM_CARRIERS + 1;
  sp.run = [gen](uint64_t idx, mc::Ctx &ctx) { check(gen(idx), ctx); };
  sp.describe = [gen](uint64_t idx) { return show(gen(idx)) + " :: run on all 7 carriers"; };
  sp.klass = [gen](uint64_t idx) { return klass_tag(info_of(gen(idx))); };
  sp.worker_init = []() { bin64k(); bytes_of(0); };
  R.add(sp);
}

}  // namespace

int main(int argc, char **argv) {
  mc::Runner R(argc, argv, "C11");
  R.level = "model_checking";
  R.distinct_bits = 25;
  const bool fast = R.flag("fast");  // second part: -O2 build, value alphabet incl. empty values
  const std::string px = fast ? "fast_" : "";
  // value lists
  const std::vector<int> V6 = {V_STR, V_BYTE0, V_INT, V_DOUBLE, V_INTARR, V_BIN64K};
  const std::vector<int> V7 = {V_STR, V_BYTE0, V_INT, V_DOUBLE, V_INTARR, V_BIN64K, V_EMPTYSTR};
  const std::vector<int> &VV = fast ? V7 : V6;
  R.rule =
      "one runner index = one metadata tree; it is executed on 7 carriers (stand-alone GeometryMetadata codec, 2-triangle mesh sequential / "
      "Edgebreaker via Encoder, 4-point cloud sequential / kd-tree int / kd-tree 8-bit float via ExpertEncoder, stand-alone Metadata codec on the "
      "root), each counted as one evaluation; states = distinct encoded byte streams; non-trivial = distinct (tree, carrier) pairs that "
      "were encoded ok (so the decoder result is compared) and whose tree has at least one sub-metadata or attribute-metadata block (so nesting / keys are observable)";
  R.explanation =
      "stateless exhaustive enumeration of explicit tree families on the real code; reference tree = plain structs (name->value class, "
      "name->child); decoded Metadata walked through entries()/sub_metadatas()/attribute_metadatas() and compared by names, byte-exact values, "
      "nesting and attribute unique ids; geometry compared point by point (keyed by a unique generic value) and face by face";
  R.assumptions = {
      "names {'', 'a', 'b', 255*'x', 256*'x', 00 ff 80}; values {'v', 1 byte 00, int32, double, int array of 3, 64 KiB binary, empty string}",
      "the full tree space (<= 2 entries and <= 2 children per node over 6 names x 7 values) has > 10^9 members already at depth 1, so it is covered by "
      "complete products of smaller alphabets: focus_L<l>_p<pl>: chain of depth l ('a' -> 'a' ..., entry 'a' on every level) whose last node takes "
      "EVERY entry set (<= 2 entries, 6 names x value list) x EVERY child-name set (<= 2 leaf children, 6 names), placed as geometry root (p0), as "
      "attribute block of an existing id (p1) or of a non-existing id 300 next to a second block (p2); trees_d2_pal<p>: ALL trees of depth <= 2 over 3 "
      "node contents and 2 child names of palette p (6 palettes rotate through all names and values); trees_d3: ALL 80 802 trees of depth <= 3 over 2/2/1/2 "
      "contents per level and 2 child names per level under ASan, and ALL 1 045 458 trees over 2 contents on every level in the -O2 part (fast_trees_d3_full); attmeta_k<n>: ALL lists of 0..2 attribute blocks with ids from {0, 3 existing; 1, 300 missing} "
      "(duplicates allowed) and block trees from the n trees of depth <= 1 over palette 0, x {empty root, plain root}",
      "quick = focus levels 0..2 (depth <= 2 plus leaf children), placement 0 full, placements 1/2 with entry sets only, trees_d2c2_pal<p> (the depth-2 "
      "trees over 2 of the 3 node contents); thorough adds level 3 and "
      "the full product for every placement, trees_d3 and attmeta_k48",
      "ASan+UBSan part: EntryValue's constructors are undefined for an empty value (UBSan abort before anything is encoded), so the product spaces "
      "of this part use the 6 non-empty values and the spaces empty_value_* put an empty value on every level (thorough: every entry set over 6 names x 7 values that "
      "contains an empty string, 201 per level; quick: the same over values {empty string, 64 KiB}, 51 per level; each costs a worker restart); the second part (-O2 build, --x-fast) "
      "runs the same products with the 7-value list to reach the encoder/decoder with empty values",
      "geometry is tiny and unquantized except for the kd-tree float carrier (8 bits, half-step tolerance)"};
  R.transition_counters = {"executions"};

  if (!fast) {
    add(R, "no_metadata", 1, true, true, [](uint64_t) { RMeta m; m.present = false; return m; });
  }
  const uint64_t ES = entry_sets(VV.size());
  for (int level = 0; level <= 3; ++level)
    for (int pl = 0; pl < 3; ++pl) {
      const bool full_quick = (level <= 2 && pl == 0) || fast;
      add(R, px + "focus_L" + std::to_string(level) + "_p" + std::to_string(pl), ES * kChildSets, full_quick, true,
          [=](uint64_t idx) { return place(focus_tree(level, idx % ES, idx / ES, VV), pl); });
      if (!fast && pl > 0 && level <= 2)
        add(R, "focusE_L" + std::to_string(level) + "_p" + std::to_string(pl), ES, true, false,
            [=](uint64_t idx) { return place(focus_tree(level, idx, 0, VV), pl); });
    }
  // deep chains (the property speaks of depth 0..8): depth 4..8 at the geometry root, entry sets only
  if (!fast)
    for (int level = 4; level <= 8; ++level)
      add(R, "focusE_deep_L" + std::to_string(level) + "_p0", ES, level == 8, true, [=](uint64_t idx) { return place(focus_tree(level, idx, 0, VV), 0); });
  for (int p = 0; p < (fast ? 7 : 6); ++p) {
    const TreeAlphabet a = palette(p, VV, 2);
    // 3 node contents: 7203 trees (thorough, and quick in the -O2 part); 2 node contents {none, two entries}: 722 trees (ASan quick)
    add(R, px + "trees_d2_pal" + std::to_string(p), count_trees(a, 0, 2), fast, true, [=](uint64_t idx) { return place(unrank_tree(a, 0, 2, idx), 0); });
    if (!fast) {
      TreeAlphabet a2 = a;
      for (auto &c : a2.contents) c.erase(c.begin() + 1);
      add(R, "trees_d2c2_pal" + std::to_string(p), count_trees(a2, 0, 2), true, false, [=](uint64_t idx) { return place(unrank_tree(a2, 0, 2, idx), 0); });
    }
  }
  {
    // ASan part: 80 802 trees (2,2,1,2 contents per level); -O2 part: all 1 045 458 trees (2 contents on every level)
    const TreeAlphabet a3 = depth3_alphabet(fast);
    add(R, fast ? "fast_trees_d3_full" : "trees_d3", count_trees(a3, 0, 3), false, true, [=](uint64_t idx) { return place(unrank_tree(a3, 0, 3, idx), 0); });
  }
  if (!fast) {
    // attribute-metadata lists
    for (int big = 0; big < 2; ++big) {
      TreeAlphabet a = palette(0, V6, 1);
      if (!big) for (auto &c : a.contents) c.pop_back();  // 2 contents -> 18 trees; 3 contents -> 48 trees
      const uint64_t K = count_trees(a, 0, 1);
      const uint64_t lists = 1 + 4 * K + 16 * K * K;
      add(R, "attmeta_k" + std::to_string(K), lists * 2, !big, true, [=](uint64_t idx) {
        static const uint32_t ids[4] = {kPosUid, kGenUid, 1u, 300u};
        RMeta m;
        if (idx % 2) m.root = plain_leaf(V_INT);
        uint64_t l = idx / 2;
        if (l == 0) return m;
        l -= 1;
        if (l < 4 * K) {
          m.att.emplace_back(ids[l / K], unrank_tree(a, 0, 1, l % K));
          return m;
        }
        l -= 4 * K;
        const uint64_t idp = l / (K * K), tt = l % (K * K);
        m.att.emplace_back(ids[idp % 4], unrank_tree(a, 0, 1, tt % K));
        m.att.emplace_back(ids[idp / 4], unrank_tree(a, 0, 1, tt / K));
        return m;
      });
    }
    // empty values under the sanitizers: every entry set with an empty string, on every level
    {
      std::vector<uint64_t> with_empty;
      for (uint64_t e = 0; e < entry_sets(7); ++e) {
        RNode n;
        set_entries(&n, e, V7);
        bool em = false;
        for (auto &x : n.entries) em = em || is_empty_value(x.second);
        if (em) with_empty.push_back(e);
      }
      for (int level = 0; level <= 3; ++level)
        add(R, "empty_value_L" + std::to_string(level), with_empty.size(), false, true,
            [=](uint64_t idx) { return place(focus_tree(level, with_empty[idx], 0, V7), 0); });
      // quick (every such case costs a worker restart): 6 names x values {empty string, 64 KiB binary}, sets with an empty value
      const std::vector<int> V2 = {V_EMPTYSTR, V_BIN64K};
      std::vector<uint64_t> with_empty2;
      for (uint64_t e = 0; e < entry_sets(2); ++e) {
        RNode n;
        set_entries(&n, e, V2);
        bool em = false;
        for (auto &x : n.entries) em = em || is_empty_value(x.second);
        if (em) with_empty2.push_back(e);
      }
      for (int level = 0; level <= 2; ++level)
        add(R, "empty_value_small_L" + std::to_string(level), with_empty2.size(), true, false,
            [=](uint64_t idx) { return place(focus_tree(level, with_empty2[idx], 0, V2), 0); });
    }
  }
  // other ways of adding a zero-length value
  add(R, px + "empty_value_kinds", 4 * 2, true, true, [](uint64_t idx) {
    RNode n;
    n.entries["a"] = V_EMPTYSTR + int(idx % 4);
    if (idx / 4) n.entries["b"] = V_INT;
    return place(n, 0);
  });

  R.require("trees:plain", 1000);
  R.require("trees:name>255", 100);
  R.require("trees:with-64KiB-value", 100);
  // guards are on the oracle's precondition (encode ok => the decoder result is compared), so that a broken draco yields
  // violations, not guard errors
  for (int c = 0; c < NUM_CARRIERS; ++c) R.require(std::string("encode_ok:") + kCarrierName[c], 1000);
  R.require("encode_ok:standalone-plain-metadata", 1000);
  R.require("trees:depth2", 100);
  if (fast) R.require("trees:empty-value", 100);
  return R.main();
}
