// C02 (decoding arbitrary bytes is safe), C03 (a successfully decoded geometry
// is structurally valid), C18 (decoder memory is bounded by stream length and
// declared counts): fault enumeration over a corpus of valid streams.
//   modes: default C02, --x-c03, --x-c18 (same executions, different oracle and
//   evidence file).
// Deviation operators (all enumerated exhaustively, iterated by number of
// deviations 0,1,2): truncation, byte value at offset, 32-bit pattern at
// offset, varint pattern at offset, header version rewrite, one entropy-coder
// seam value (re-encoding with the DRACO_VERIF seam hook), splices, pairs.
#include <sys/mman.h>

#include "checks/stream_corpus.h"
#include "draco/animation/keyframe_animation.h"
#include "draco/animation/keyframe_animation_decoder.h"
#include "mc/alloc_env.h"

using namespace mcg;
using namespace sc;
using gs::Topo;

namespace {

enum Mode { M_C02, M_C03, M_C18 };
Mode g_mode = M_C02;

// ---------------------------------------------------------------- guarded input buffer
struct Guarded {
  uint8_t *base = nullptr;
  size_t cap = 0;
  size_t page = 4096;
  void init(size_t max_len) {
    cap = ((max_len + page) / page + 1) * page;
    base = static_cast<uint8_t *>(mmap(nullptr, cap + page, PROT_READ | PROT_WRITE, MAP_PRIVATE | MAP_ANONYMOUS, -1, 0));
    if (base == MAP_FAILED) {
      perror("mmap");
      _exit(3);
    }
    mprotect(base + cap, page, PROT_NONE);  // guard page right after the data
  }
  // Places |b| so that its last byte abuts the guard page; read-only afterwards.
  const uint8_t *place(const Bytes &b) {
    mprotect(base, cap, PROT_READ | PROT_WRITE);
    uint8_t *p = base + cap - b.size();
    if (!b.empty()) memcpy(p, b.data(), b.size());
    mprotect(base, cap, PROT_READ);
    return p;
  }
};
Guarded g_guard;
size_t g_max_len = 0;

// ---------------------------------------------------------------- declared counts (hook)
struct DeclaredCounts {
  uint64_t points = 0, faces = 0, attributes = 0, components = 0;
  void reset() { points = faces = attributes = components = 0; }
};
DeclaredCounts g_decl;
void declared_cb(void *, int kind, uint64_t n) {
  switch (kind) {
    case draco::verif::DECL_NUM_POINTS: g_decl.points = std::max(g_decl.points, n); break;
    case draco::verif::DECL_NUM_FACES: g_decl.faces = std::max(g_decl.faces, n); break;
    case draco::verif::DECL_NUM_ATTRIBUTES: g_decl.attributes += n; break;
    case draco::verif::DECL_NUM_COMPONENTS: g_decl.components += n; break;
    default: break;
  }
}

// Memory budget of C18: fixed part + multiple of (input length + declared
// element counts weighted by their element size).
const uint64_t kC0 = 12ull << 20;  // fixed tables: rANS look-up tables up to 2^20 entries, kd-tree stacks
const uint64_t kK = 32;
uint64_t budget(size_t len) {
  // every point carries (components x up to 8 bytes) per attribute + maps; every face 3 indices + corner tables
  const unsigned __int128 units = (unsigned __int128)len + (unsigned __int128)g_decl.points * (8 + 8 * g_decl.components) +
                                  (unsigned __int128)g_decl.faces * 12 * 4;
  unsigned __int128 b = (unsigned __int128)kC0 + (unsigned __int128)kK * units;
  if (b > (unsigned __int128)UINT64_MAX) return UINT64_MAX;
  return (uint64_t)b;
}

// ---------------------------------------------------------------- one decode + oracles
// entry: 0 dispatch on header; 1 dispatch + skip all attribute transforms;
// 2 the other geometry type's entry point; 3 DecodeBufferToGeometry(PointCloud*);
// 4 DecodeBufferToGeometry(Mesh*); 5 KeyframeAnimationDecoder::Decode; 6 DecodeBufferToGeometry into an output object that
// already holds another geometry with two attributes
const int kEntries = 7;
Bytes g_decoy_mesh, g_decoy_cloud;

void run_decode(const Bytes &stream, int entry, mc::Ctx &ctx, const std::string &klass, const std::string &what) {
  auto sig = [&](const std::string &s) { return klass.empty() ? s : s + "|" + klass; };
  const uint8_t *p = g_guard.place(stream);
  const uint64_t h_before = mc::hash_bytes(p, stream.size());
  mc::AllocEnv &env = mc::alloc_env();
  g_decl.reset();
  draco::verif::hooks().declared = declared_cb;
  env.reset_stats();
  env.monitor = true;
  bool ok = false, threw = false;
  std::string err, extype;
  std::unique_ptr<PointCloud> pc;
  Mesh *mesh = nullptr;
  size_t remaining = 0;
  try {
    DecoderBuffer b;
    b.Init(reinterpret_cast<const char *>(p), stream.size());
    Decoder d;
    if (entry == 1)
      for (auto t : {GeometryAttribute::POSITION, GeometryAttribute::NORMAL, GeometryAttribute::COLOR, GeometryAttribute::TEX_COORD,
                     GeometryAttribute::GENERIC})
        d.SetSkipAttributeTransform(t);
    auto type = Decoder::GetEncodedGeometryType(&b);
    int t = type.ok() ? (int)type.value() : -1;
    if (entry == 2 && t >= 0) t = t == TRIANGULAR_MESH ? POINT_CLOUD : TRIANGULAR_MESH;
    if (entry == 3) {
      pc.reset(new PointCloud());
      Status st = d.DecodeBufferToGeometry(&b, pc.get());
      ok = st.ok();
      if (!ok) pc.reset();
    } else if (entry == 5) {
      std::unique_ptr<KeyframeAnimation> a(new KeyframeAnimation());
      KeyframeAnimationDecoder ad;
      DecoderOptions dopt;
      Status st = ad.Decode(dopt, &b, a.get());
      ok = st.ok();
      if (ok) pc = std::move(a);
    } else if (entry == 6 && t == POINT_CLOUD) {
      // the output object already holds another point cloud (two attributes, 3 points)
      pc.reset(new PointCloud());
      if (!g_decoy_cloud.empty()) {
        DecoderBuffer db0;
        db0.Init(reinterpret_cast<const char *>(g_decoy_cloud.data()), g_decoy_cloud.size());
        Decoder d0;
        (void)d0.DecodeBufferToGeometry(&db0, pc.get());
      }
      Status st = d.DecodeBufferToGeometry(&b, pc.get());
      ok = st.ok();
      if (!ok) pc.reset();
    } else if (entry == 4 || entry == 6) {
      std::unique_ptr<Mesh> m(new Mesh());
      if (entry == 6 && !g_decoy_mesh.empty()) {
        // the output object already holds another mesh (two attributes, fewer points)
        DecoderBuffer db0;
        db0.Init(reinterpret_cast<const char *>(g_decoy_mesh.data()), g_decoy_mesh.size());
        Decoder d0;
        (void)d0.DecodeBufferToGeometry(&db0, m.get());
      }
      Status st = d.DecodeBufferToGeometry(&b, m.get());
      ok = st.ok();
      if (ok) {
        mesh = m.get();
        pc = std::move(m);
      }
    } else if (t == TRIANGULAR_MESH) {
      auto r = d.DecodeMeshFromBuffer(&b);
      ok = r.ok();
      if (ok) {
        std::unique_ptr<Mesh> m = std::move(r).value();
        mesh = m.get();
        pc = std::move(m);
      }
    } else if (t == POINT_CLOUD) {
      auto r = d.DecodePointCloudFromBuffer(&b);
      ok = r.ok();
      if (ok) pc = std::move(r).value();
    }
    remaining = b.remaining_size();
  } catch (const std::bad_alloc &) {
    threw = true;
    extype = "bad_alloc";
  } catch (const std::length_error &) {
    threw = true;
    extype = "length_error";
  }
  env.monitor = false;
  draco::verif::hooks().declared = nullptr;
  (void)remaining;
  const uint64_t largest = std::max<uint64_t>(env.largest, env.refused ? env.refused_size : 0);
  const uint64_t peak = (uint64_t)std::max<int64_t>(env.peak, 0);
  const uint64_t B = budget(stream.size());
  ctx.count(ok ? "decode_ok" : threw ? "decode_threw" : "decode_rejected");
  // ---- C02: input untouched (a write would already have faulted on the read-only mapping)
  if (g_mode == M_C02) {
    if (mc::hash_bytes(p, stream.size()) != h_before) ctx.fail(sig("input-bytes-modified"), what);
    if (threw) {
      // tolerated only for an array whose length is a declared element count
      const uint64_t req = env.refused ? env.refused_size : 0;
      if (req && req <= B) ctx.count("tolerated_alloc_failure_for_declared_count");
      else ctx.fail(sig("exception-" + extype + "-not-justified-by-declared-count"),
                    "request " + std::to_string(req) + " bytes, budget " + std::to_string(B) + " :: " + what);
    }
  }
  // ---- C03
  if (g_mode == M_C03 && ok && pc) {
    ctx.count("ok_after_deviation");
    const std::string bad = validate_structure(*pc, mesh);
    if (!bad.empty()) {
      ctx.fail(sig("invalid-structure:" + bad + (mesh ? ":mesh" : ":cloud") + ":method" + std::to_string(stream.size() > 8 ? stream[8] : -1)), what);
    } else {
      const uint64_t dg = touch_everything(*pc, mesh);
      if (ctx.state(dg)) ctx.count("distinct_decoded_geometries");
    }
  }
  // ---- C18
  if (g_mode == M_C18) {
    const uint64_t ratio_l = largest * 1000 / B, ratio_p = peak * 1000 / B;
    ctx.count_max("max_largest_request_permille_of_budget", ratio_l);
    ctx.count_max("max_peak_permille_of_budget", ratio_p);
    ctx.count_max("max_largest_request_bytes", largest);
    if (env.refused) ctx.count("requests_above_64MiB_cap");
    if (largest > B)
      ctx.fail(sig("single-allocation-exceeds-budget"), "request " + std::to_string(largest) + " bytes > budget " + std::to_string(B) + " (len " +
                                                            std::to_string(stream.size()) + ", declared points " + std::to_string(g_decl.points) +
                                                            " faces " + std::to_string(g_decl.faces) + " comps " + std::to_string(g_decl.components) +
                                                            ") :: " + what);
    else if (peak > 4 * B)
      ctx.fail(sig("peak-memory-exceeds-budget"), "peak " + std::to_string(peak) + " > 4x budget " + std::to_string(B) + " :: " + what);
  }
}

// ---------------------------------------------------------------- spaces
struct Offsets {
  std::vector<int> entries;  // corpus indices
  std::vector<uint64_t> off;
  uint64_t total = 0;
  void add(int e, uint64_t n) {
    entries.push_back(e);
    off.push_back(total);
    total += n;
  }
  void locate(uint64_t k, int *e, uint64_t *local) const {
    int lo = 0, hi = (int)entries.size() - 1;
    while (lo < hi) {
      int mid = (lo + hi + 1) / 2;
      if (off[mid] <= k) lo = mid;
      else hi = mid - 1;
    }
    *e = entries[lo];
    *local = k - off[lo];
  }
};

std::string klass_of(const Entry &e) {
  return "";
}

std::string describe_stream(const Entry &e, const std::string &op, const Bytes &s, int entry) {
  return e.name + " " + op + " entry=" + std::to_string(entry) + " len=" + std::to_string(s.size()) + " hex=" + mc::hex(s.data(), std::min<size_t>(s.size(), 4096));
}

int seam_alts(const SeamItem &it, uint32_t out[8]);

typedef std::function<bool(const Entry &, uint64_t local, Bytes *out, std::string *op)> Mutator;

void add_space(mc::Runner &R, const std::string &name, const std::vector<int> &entries, std::function<uint64_t(const Entry &)> count,
               Mutator mut, std::vector<int> entry_modes, bool quick, bool thorough, bool describe_by_name_only = false) {
  auto O = std::make_shared<Offsets>();
  for (int e : entries) O->add(e, count(g_corpus[e]));
  const uint64_t nm = entry_modes.size();
  mc::Space s;
  s.name = name;
  s.size = O->total * nm;
  s.quick = quick;
  s.thorough = thorough;
  s.timeout_s = 20;
  auto make = [=](uint64_t idx, Bytes *out, std::string *op, int *entry, const Entry **ep) -> bool {
    int e;
    uint64_t local;
    O->locate(idx / nm, &e, &local);
    *entry = entry_modes[idx % nm];
    *ep = &g_corpus[e];
    return mut(g_corpus[e], local, out, op);
  };
  s.run = [=](uint64_t idx, mc::Ctx &ctx) {
    Bytes b;
    std::string op;
    int entry;
    const Entry *e;
    if (!make(idx, &b, &op, &entry, &e)) {
      ctx.count("deviation_equals_original_skipped");
      return;
    }
    if (ctx.nontrivial(mc::hash_combine(mc::hash_bytes(b.data(), b.size()), entry))) ctx.count("distinct_inputs");
    run_decode(b, entry, ctx, klass_of(*e), e->name + " " + op + " entry=" + std::to_string(entry));
  };
  s.describe = [=](uint64_t idx) {
    Bytes b;
    std::string op;
    int entry;
    const Entry *e;
    if (describe_by_name_only) {
      // (re-encoding with a seam deviation is not repeated in the parent process)
      int ei;
      uint64_t local;
      O->locate(idx / nm, &ei, &local);
      const Entry &en = g_corpus[ei];
      uint32_t alts[8];
      const int n = seam_alts(en.seam[local / 8], alts);
      return en.name + " [" + text(g_gens[en.gen].g) + " " + text(g_gens[en.gen].c) + "] seam value #" + std::to_string(local / 8) + " (kind " +
             std::to_string(en.seam[local / 8].kind) + ", value " + std::to_string(en.seam[local / 8].value) + ") replaced by " +
             ((int)(local % 8) < n ? std::to_string(alts[local % 8]) : std::string("(no such alternative)")) + " entry=" +
             std::to_string(entry_modes[idx % nm]);
    }
    if (!make(idx, &b, &op, &entry, &e)) return std::string("(deviation equals the original byte; skipped)");
    return describe_stream(*e, op, b, entry);
  };
  R.add(s);
}

const uint32_t kU32Patterns[] = {0u, 1u, 0x7fffffffu, 0x80000000u, 0xffffffffu, 0x00010000u, 0x01000000u, 0x000000ffu};
// 0xfffffffe / 0xfffffffd are the symbols of the signed varints INT32_MAX / INT32_MIN + 1
// 0x55555556 ... 0x10000001: the smallest counts whose product with 3, 3 (second window), 4, 8, 12, 16 wraps a 32-bit multiplication
// ("count * element_size > remaining" guards)
const uint64_t kVarintPatterns[] = {0ull, 127ull, 128ull, 1ull << 21, 0x7fffffffull, 0xffffffffull, 1ull << 35, UINT64_MAX, 0xfffffffeull, 0xfffffffdull,
                                    0x55555556ull, 0xaaaaaaabull, 0x40000001ull, 0x20000001ull, 0x15555556ull, 0x10000001ull};
const uint64_t kNumVarintPatterns = sizeof(kVarintPatterns) / sizeof(kVarintPatterns[0]);

Bytes varint_bytes(uint64_t v) {
  Bytes b;
  do {
    uint8_t o = v & 127;
    v >>= 7;
    if (v) o |= 128;
    b.push_back(o);
  } while (v);
  return b;
}

uint8_t alt8(uint8_t orig, int k) {
  const uint8_t t[8] = {0x00, 0x01, 0x7f, 0x80, 0xff, (uint8_t)(orig + 1), (uint8_t)(orig - 1), (uint8_t)(orig ^ 0x40)};
  return t[k];
}

// alternatives for a seam value
int seam_alts(const SeamItem &it, uint32_t out[8]) {
  int n = 0;
  auto push = [&](uint32_t v) {
    if (v == it.value) return;
    for (int i = 0; i < n; ++i)
      if (out[i] == v) return;
    out[n++] = v;
  };
  if (it.kind == 0 || it.kind == 2) {
    push(it.value ? 0 : 1);
  } else if (it.kind == 1) {
    const uint32_t mask = it.aux >= 32 ? 0xffffffffu : ((1u << it.aux) - 1);
    push(0);
    push(mask);
    push((it.value + 1) & mask);
    push((it.value - 1) & mask);
    push(it.value ^ 1);
  } else {
    push(0);
    push(1);
    push(it.value + 1);
    if (it.value) push(it.value - 1);
    push(it.value * 2 + 1);
    push(255);
    push(1u << 18);
    push(1u << 20);
  }
  return n;
}

}  // namespace

int main(int argc, char **argv) {
  for (int i = 1; i < argc; ++i) {
    if (std::string(argv[i]) == "--x-c03") g_mode = M_C03;
    if (std::string(argv[i]) == "--x-c18") g_mode = M_C18;
  }
  mc::Runner R(argc, argv, g_mode == M_C02 ? "C02" : g_mode == M_C03 ? "C03" : "C18");
  R.level = "fault_enumeration";
  R.distinct_bits = 26;
  mc::alloc_env().cap = size_t(64) << 20;
  build_corpus();
  for (auto &e : g_corpus) g_max_len = std::max(g_max_len, e.bytes.size());
  g_guard.init(g_max_len + (size_t(1) << 20) + 4096);
  fprintf(stderr, "[%s] corpus: %zu generators, %zu distinct streams (%zu files), sub-corpus %zu, tiny %zu, seamable %zu\n", R.property.c_str(),
          g_gens.size(), g_corpus.size(), g_files.size(), g_sub.size(), g_tiny.size(), g_seamable.size());
  R.extra["corpus_streams"] = std::to_string(g_corpus.size());
  R.extra["corpus_event_signatures"] = std::to_string(g_sub.size());
  R.extra["corpus_legacy_files"] = std::to_string(g_files.size());

  R.rule =
      "corpus = distinct valid streams produced by this tree's encoder over meshes/point clouds x methods x speeds x prediction "
      "schemes (one carrier per distinct code-path event signature in the quick tier) + every testdata/*.drc (bitstream 1.1..2.3); "
      "each deviation operator is applied at EVERY position with EVERY value of its alphabet: truncation, byte value, 32-bit "
      "pattern, varint pattern, all 65536 version rewrites, every single entropy-coder seam value replaced (re-encoded through "
      "the DRACO_VERIF seam hook), pairs of byte deviations and splices on tiny streams; x decoder entry point; non-trivial = "
      "distinct (mutated byte string, entry point) pairs";
  R.explanation =
      g_mode == M_C02
          ? "oracle: the call returns a Status; no ASan/UBSan report or signal (input sits read-only against a PROT_NONE guard page); input "
            "bytes unchanged; no hang (watchdog + solo re-run); bad_alloc/length_error tolerated only for a request within the declared-count "
            "budget"
          : g_mode == M_C03 ? "oracle: every decode that returns ok yields a geometry that passes an independent structural validator and "
                              "whose every value/face is read through public accessors under ASan"
                            : "oracle: allocation monitor (operator new/delete): largest single request <= C0 + K*(len + declared counts x "
                              "element size), peak live bytes <= 4x that; C0 = 12 MiB, K = 32";
  R.assumptions = {"single requests above 64 MiB are refused by the harness allocator (std::bad_alloc) and judged against the declared-count budget",
                   ">= 3 simultaneous deviations are not explored; streams > 4 KiB only by truncation (every cut in the first 2 KiB, every 257th behind) and the reduced byte alphabet on their first 3000 bytes"};
  R.transition_counters = {"decode_ok", "decode_rejected", "decode_threw"};

  const std::vector<int> modes_q = {0, 1}, modes_all = {0, 1, 2, 3, 4, 5, 6}, mode0 = {0};
  for (const Entry &e : g_corpus) {
    if (g_decoy_mesh.empty() && e.name.compare(0, 2, "B:") == 0) g_decoy_mesh = e.bytes;
    if (g_decoy_cloud.empty() && e.name.compare(0, 15, "D:n3:pos0:col1:") == 0) g_decoy_cloud = e.bytes;
  }
  std::vector<int> all_gen, small_files, all_small;
  for (size_t i = 0; i < g_corpus.size(); ++i) {
    if (g_corpus[i].gen >= 0) all_gen.push_back((int)i);
    else if (g_corpus[i].bytes.size() <= 4096) small_files.push_back((int)i);
    if (g_corpus[i].bytes.size() <= 4096) all_small.push_back((int)i);
  }
  std::vector<int> sub_and_files = g_sub;
  for (int f : small_files) sub_and_files.push_back(f);

  // 0 deviations: the valid corpus through every entry point
  {
    std::vector<int> all;
    for (size_t i = 0; i < g_corpus.size(); ++i) all.push_back((int)i);
    add_space(R, "valid", all, [](const Entry &) { return 1; },
              [](const Entry &e, uint64_t, Bytes *out, std::string *op) {
                *out = e.bytes;
                *op = "valid";
                return true;
              },
              modes_all, true, true);
  }
  // 0 deviations, second family: the Edgebreaker stream of EVERY sub-set of the triangles of a triangulated cell grid (holes, several
  // components, isolated triangles, contacts in one vertex: the decoder's split / hole / isolated-vertex handling), position only
  // (the decoder's "no attribute seams" path) and with a per-vertex attribute, decoded through entry 0 with the oracle of this part.
  {
    auto add_subsets = [&](const std::string &name, int W, int H, bool quick, bool thorough) {
      const int tris = 2 * W * H;
      mc::Radix rx{2, 2, 1ull << tris};  // (cfg: eb standard s0 position only, eb standard s5 + generic attribute) x diagonals x mask
      auto make = [=](uint64_t idx, Bytes *out, std::string *what) -> bool {
        auto d = rx.decode(idx);
        GeomDef g = gs::tri_subset_mesh(W, H, (int)d[1], d[2]);
        EncCfg c = gs::mesh_cfg(2, d[0] ? 5 : 0);
        c.qbits = {11};
        if (d[0]) {
          AttDef gen;
          gen.type = GeometryAttribute::GENERIC;
          gen.dt = DT_UINT8;
          gen.nc = 1;
          gen.uid = 3;
          for (int i = 0; i < g.num_points; ++i) gen.entries.push_back(bytes_of(std::vector<uint8_t>{(uint8_t)(i * 11)}));
          g.atts.push_back(gen);
          c.qbits.push_back(0);
        }
        *what = "triangle sub-set " + std::to_string(d[2]) + " of a " + std::to_string(W) + "x" + std::to_string(H) + " cell grid, diagonals " +
                (d[1] ? "alternating" : "uniform") + (d[0] ? ", speed 5 + generic attribute" : ", speed 0 position only");
        if (g.faces.empty()) return false;
        auto mesh = build_mesh(g);
        EncResult r = encode(g, *mesh, mesh.get(), c);
        if (!r.ok) return false;
        *out = r.bytes;
        return true;
      };
      mc::Space sp;
      sp.name = name;
      sp.size = rx.size();
      sp.quick = quick;
      sp.thorough = thorough;
      sp.timeout_s = 20;
      sp.run = [=](uint64_t idx, mc::Ctx &ctx) {
        Bytes b;
        std::string what;
        if (!make(idx, &b, &what)) {
          ctx.count("triangle_subset_not_encodable");
          return;
        }
        ctx.count("valid_triangle_subset_streams");
        if (ctx.nontrivial(mc::hash_bytes(b.data(), b.size()))) ctx.count("distinct_inputs");
        run_decode(b, 0, ctx, "", what + " entry=0");
      };
      sp.describe = [=](uint64_t idx) {
        Bytes b;
        std::string what;
        const bool ok = make(idx, &b, &what);
        return what + " entry=0 len=" + std::to_string(b.size()) + (ok ? " hex=" + mc::hex(b.data(), b.size()) : "");
      };
      R.add(sp);
    };
    // grids with every set of at most K removed cells (several holes -> several split symbols / topology split events)
    auto add_holes = [&](const std::string &name, int W, int H, int K, bool quick, bool thorough) {
      const uint64_t sets = gs::removed_cell_sets(W * H, K);
      mc::Radix rx{3, 2, sets};  // (cfg: eb standard s0, eb valence s0, eb standard s5 + generic attribute) x diagonals x removed set
      auto make = [=](uint64_t idx, Bytes *out, std::string *what) -> bool {
        auto d = rx.decode(idx);
        GeomDef g = gs::tri_subset_mesh(W, H, (int)d[1], gs::grid_minus_cells_mask(W, H, K, d[2]));
        EncCfg c = gs::mesh_cfg(d[0] == 1 ? 3 : 2, d[0] == 2 ? 5 : 0);
        c.qbits = {11};
        if (d[0] == 2) {
          AttDef gen;
          gen.type = GeometryAttribute::GENERIC;
          gen.dt = DT_UINT8;
          gen.nc = 1;
          gen.uid = 3;
          for (int i = 0; i < g.num_points; ++i) gen.entries.push_back(bytes_of(std::vector<uint8_t>{(uint8_t)(i * 11)}));
          g.atts.push_back(gen);
          c.qbits.push_back(0);
        }
        std::string cells;
        for (int cc : gs::unrank_cell_set(W * H, K, d[2])) cells += (cells.empty() ? "" : ",") + std::to_string(cc);
        *what = std::to_string(W) + "x" + std::to_string(H) + " cell grid without cells {" + cells + "}, diagonals " + (d[1] ? "alternating" : "uniform") +
                (d[0] == 0 ? ", standard speed 0 position only" : d[0] == 1 ? ", valence speed 0 position only" : ", speed 5 + generic attribute");
        if (g.faces.empty()) return false;
        auto mesh = build_mesh(g);
        EncResult r = encode(g, *mesh, mesh.get(), c);
        if (!r.ok) return false;
        *out = r.bytes;
        return true;
      };
      mc::Space sp;
      sp.name = name;
      sp.size = rx.size();
      sp.quick = quick;
      sp.thorough = thorough;
      sp.timeout_s = 20;
      sp.run = [=](uint64_t idx, mc::Ctx &ctx) {
        Bytes b;
        std::string what;
        if (!make(idx, &b, &what)) {
          ctx.count("triangle_subset_not_encodable");
          return;
        }
        ctx.count("valid_holey_grid_streams");
        if (ctx.nontrivial(mc::hash_bytes(b.data(), b.size()))) ctx.count("distinct_inputs");
        run_decode(b, 0, ctx, "", what + " entry=0");
      };
      sp.describe = [=](uint64_t idx) {
        Bytes b;
        std::string what;
        const bool ok = make(idx, &b, &what);
        return what + " entry=0 len=" + std::to_string(b.size()) + (ok ? " hex=" + mc::hex(b.data(), std::min<size_t>(b.size(), 4096)) : "");
      };
      R.add(sp);
    };
    add_holes("valid_grid_5x5_minus_up_to_3_cells", 5, 5, 3, true, true);
    add_holes("valid_grid_5x5_minus_up_to_4_cells", 5, 5, 4, false, true);
    add_holes("valid_grid_6x5_minus_up_to_3_cells", 6, 5, 3, false, true);
    add_subsets("valid_triangle_subsets_3x2", 3, 2, true, false);
    add_subsets("valid_triangle_subsets_3x3", 3, 3, false, g_mode == M_C03);
  }
  Mutator trunc = [](const Entry &e, uint64_t k, Bytes *out, std::string *op) {
    out->assign(e.bytes.begin(), e.bytes.begin() + k);
    *op = "trunc(" + std::to_string(k) + ")";
    return true;
  };
  auto len = [](const Entry &e) { return (uint64_t)e.bytes.size(); };
  {
    std::vector<int> all;
    for (size_t i = 0; i < g_corpus.size(); ++i) all.push_back((int)i);
    add_space(R, "trunc_sub", sub_and_files, len, trunc, modes_all, true, false);
    add_space(R, "trunc_all", all_small, len, trunc, modes_all, false, true);
    // streams above 4 KiB (5 testdata files up to 120 KB, the larger generator streams): every cut in the first 2 KiB
    // and every 257th cut behind it
    std::vector<int> big;
    for (int i : all)
      if (g_corpus[i].bytes.size() > 4096) big.push_back(i);
    Mutator trunc_big = [](const Entry &e, uint64_t k, Bytes *out, std::string *op) {
      const uint64_t cut = k < 2048 ? k : 2048 + (k - 2048) * 257;
      if (cut >= e.bytes.size()) return false;
      out->assign(e.bytes.begin(), e.bytes.begin() + cut);
      *op = "trunc(" + std::to_string(cut) + ")";
      return true;
    };
    add_space(R, "trunc_large_streams", big, [](const Entry &e) { return (uint64_t)2048 + (e.bytes.size() - 2048) / 257 + 1; }, trunc_big, mode0, false, true);
  }
  Mutator byte8 = [](const Entry &e, uint64_t k, Bytes *out, std::string *op) {
    const size_t i = k / 8;
    const uint8_t v = alt8(e.bytes[i], k % 8);
    if (v == e.bytes[i]) return false;
    for (int j = 0; j < (int)(k % 8); ++j)
      if (alt8(e.bytes[i], j) == v) return false;
    *out = e.bytes;
    (*out)[i] = v;
    *op = "byte(" + std::to_string(i) + "," + std::to_string(v) + ")";
    return true;
  };
  add_space(R, "byte8_sub", sub_and_files, [](const Entry &e) { return (uint64_t)e.bytes.size() * 8; }, byte8, modes_q, true, false);
  {
    // large files: reduced alphabet only
    std::vector<int> big;
    for (int f : g_files)
      if (g_corpus[f].bytes.size() > 4096) big.push_back(f);
    add_space(R, "byte8_large_files", big, [](const Entry &e) { return (uint64_t)std::min<size_t>(e.bytes.size(), 3000) * 8; }, byte8, mode0, false, true);
  }
  Mutator byte255 = [](const Entry &e, uint64_t k, Bytes *out, std::string *op) {
    const size_t i = k / 255;
    const uint8_t v = (uint8_t)(e.bytes[i] + 1 + k % 255);
    *out = e.bytes;
    (*out)[i] = v;
    *op = "byte(" + std::to_string(i) + "," + std::to_string(v) + ")";
    return true;
  };
  {
    std::vector<int> tiny20(g_tiny.begin(), g_tiny.begin() + std::min<size_t>(g_tiny.size(), 20));
    add_space(R, "byte255_tiny20", tiny20, [](const Entry &e) { return (uint64_t)e.bytes.size() * 255; }, byte255, mode0, true, false);
    add_space(R, "byte255_all", all_small, [](const Entry &e) { return (uint64_t)e.bytes.size() * 255; }, byte255, modes_q, false, true);
    // the full byte alphabet on the carriers of <= 120 bytes of the sub-corpus (one per code-path signature): quick tier of the memory-safety
    // part only (the defect 08e38e0 needed one particular value of one byte and was first seen by byte255_all in the thorough tier)
    std::vector<int> sub120;
    for (int i : g_sub)
      if (g_corpus[i].bytes.size() <= 120) sub120.push_back(i);
    add_space(R, "byte255_sub_small", sub120, [](const Entry &e) { return (uint64_t)e.bytes.size() * 255; }, byte255, mode0, false, g_mode == M_C02);
    // raw (not entropy coded) value blocks: a width byte with trailing data behind it - the full byte alphabet in the quick tier too
    std::vector<int> raw_storage;
    for (int i : all_gen)
      if (g_corpus[i].name.compare(0, 2, "G:") == 0 && g_corpus[i].bytes.size() <= 400) raw_storage.push_back(i);
    add_space(R, "byte255_raw_storage", raw_storage, [](const Entry &e) { return (uint64_t)e.bytes.size() * 255; }, byte255, mode0, true, false);
  }
  Mutator u32 = [](const Entry &e, uint64_t k, Bytes *out, std::string *op) {
    const size_t i = k / 8;
    const uint32_t pat = kU32Patterns[k % 8];
    *out = e.bytes;
    bool changed = false;
    for (size_t j = 0; j < 4 && i + j < out->size(); ++j) {
      const uint8_t v = (pat >> (8 * j)) & 255;
      changed = changed || (*out)[i + j] != v;
      (*out)[i + j] = v;
    }
    *op = "u32(" + std::to_string(i) + "," + std::to_string(pat) + ")";
    return changed;
  };
  add_space(R, "u32_sub", sub_and_files, [](const Entry &e) { return (uint64_t)e.bytes.size() * 8; }, u32, mode0, true, false);
  add_space(R, "u32_all", all_small, [](const Entry &e) { return (uint64_t)e.bytes.size() * 8; }, u32, modes_q, false, true);
  Mutator varint = [](const Entry &e, uint64_t k, Bytes *out, std::string *op) {
    const size_t i = k / kNumVarintPatterns;
    const Bytes vb = varint_bytes(kVarintPatterns[k % kNumVarintPatterns]);
    out->assign(e.bytes.begin(), e.bytes.begin() + i);
    out->insert(out->end(), vb.begin(), vb.end());
    // skip the varint that was there (all continuation bytes + the final one)
    size_t j = i;
    while (j < e.bytes.size() && (e.bytes[j] & 128)) ++j;
    if (j < e.bytes.size()) ++j;
    out->insert(out->end(), e.bytes.begin() + j, e.bytes.end());
    *op = "varint(" + std::to_string(i) + "," + std::to_string(kVarintPatterns[k % kNumVarintPatterns]) + ")";
    return *out != e.bytes;
  };
  add_space(R, "varint_sub", sub_and_files, [](const Entry &e) { return (uint64_t)e.bytes.size() * kNumVarintPatterns; }, varint, mode0, true, false);
  add_space(R, "varint_all", all_small, [](const Entry &e) { return (uint64_t)e.bytes.size() * kNumVarintPatterns; }, varint, modes_q, false, true);
  {
    // kd-tree clouds with a signed integer attribute end with one signed varint per component (the minimum that is added back):
    // the sub-corpus may represent that code path by another stream, so the quick tier takes every such carrier of <= 120 bytes
    std::vector<int> kd_signed;
    for (int i : all_gen) {
      const std::string &nm = g_corpus[i].name;
      if (nm.compare(0, 2, "D:") == 0 && nm.find(":pos2:") != std::string::npos && nm.find(":m1:") != std::string::npos && g_corpus[i].bytes.size() <= 120) kd_signed.push_back(i);
    }
    add_space(R, "varint_kd_tree_signed_attributes", kd_signed, [](const Entry &e) { return (uint64_t)e.bytes.size() * kNumVarintPatterns; }, varint, mode0, true, false);
  }
  // a very long run of varint continuation bytes at every offset: depth limits that are counted wrongly only show with
  // hundreds of thousands of bytes (one stack frame each)
  {
    static const size_t kRun = size_t(1) << 20;
    Mutator longrun = [](const Entry &e, uint64_t k, Bytes *out, std::string *op) {
      const size_t i = k / 2;
      const uint8_t fill = (k % 2) ? 0x80 : 0xff;
      out->assign(e.bytes.begin(), e.bytes.begin() + i);
      out->insert(out->end(), kRun, fill);
      out->insert(out->end(), e.bytes.begin() + i, e.bytes.end());
      *op = "insert_run(" + std::to_string(i) + ", 2^20 x " + std::to_string(fill) + ")";
      return true;
    };
    std::vector<int> carriers;
    std::set<int> seen;
    for (int i : g_sub) {
      const int key = g_corpus[i].bytes[7] * 16 + g_corpus[i].bytes[8];
      if (g_corpus[i].bytes.size() <= 200 && seen.insert(key * 8 + (int)seen.size() % 2).second && carriers.size() < 8) carriers.push_back(i);
    }
    add_space(R, "long_varint_run", carriers, [](const Entry &e) { return (uint64_t)e.bytes.size() * 2; }, longrun, mode0, true, true);
  }
  // version rewrites: first carrier of each (geometry type, method)
  {
    std::vector<int> four;
    std::set<int> seen;
    for (int i : all_gen) {
      const int key = g_corpus[i].bytes[7] * 16 + g_corpus[i].bytes[8];
      if (seen.insert(key).second) four.push_back(i);
    }
    Mutator ver = [](const Entry &e, uint64_t k, Bytes *out, std::string *op) {
      *out = e.bytes;
      (*out)[5] = k >> 8;
      (*out)[6] = k & 255;
      *op = "version(" + std::to_string(k >> 8) + "." + std::to_string(k & 255) + ")";
      return true;
    };
    add_space(R, "version_rewrites", four, [](const Entry &) { return (uint64_t)65536; }, ver, mode0, true, true);
  }
  // header reinterpretation: the same payload read as another (version, geometry type, method) - the legacy decode paths
  // (bitstream < 2.3 / < 2.2 / 1.x) and the other geometry type's decoder get every stream of the sub-corpus
  {
    Mutator hdr = [](const Entry &e, uint64_t k, Bytes *out, std::string *op) {
      const int major = 1 + (int)(k % 2), minor = (int)(k / 2 % 6), type = (int)(k / 12 % 2), method = (int)(k / 24 % 2);
      if (e.bytes[5] == major && e.bytes[6] == minor && e.bytes[7] == type && e.bytes[8] == method) return false;
      *out = e.bytes;
      (*out)[5] = major;
      (*out)[6] = minor;
      (*out)[7] = type;
      (*out)[8] = method;
      *op = "header(" + std::to_string(major) + "." + std::to_string(minor) + ",type" + std::to_string(type) + ",method" + std::to_string(method) + ")";
      return true;
    };
    add_space(R, "header_reinterpretation_all", all_small, [](const Entry &) { return (uint64_t)48; }, hdr, modes_q, true, true);
    // second order: every reinterpretation that a decoder ACCEPTS becomes a carrier of its own (a valid stream of a legacy
    // version / of the other method that this tree's encoder cannot write) and gets truncation and byte deviations.
    // The acceptance scan runs in a forked child (a crash there is reported by the space above, not here).
    const size_t n = all_small.size();
    uint8_t *acc = (uint8_t *)mmap(nullptr, n * 48 + 1, PROT_READ | PROT_WRITE, MAP_SHARED | MAP_ANONYMOUS, -1, 0);
    pid_t pid = fork();
    if (pid == 0) {
      mc::alloc_env().monitor = false;
      for (size_t i = 0; i < n; ++i) {
        if (g_corpus[all_small[i]].bytes.size() > 600) continue;
        for (uint64_t k = 0; k < 48; ++k) {
          Bytes b;
          std::string op;
          if (!hdr(g_corpus[all_small[i]], k, &b, &op)) continue;
          try {
            DecoderBuffer db;
            db.Init(reinterpret_cast<const char *>(b.data()), b.size());
            Decoder d;
            auto type = Decoder::GetEncodedGeometryType(&db);
            if (!type.ok()) continue;
            if (type.value() == TRIANGULAR_MESH) acc[i * 48 + k] = d.DecodeMeshFromBuffer(&db).ok();
            else acc[i * 48 + k] = d.DecodePointCloudFromBuffer(&db).ok();
          } catch (...) {
          }
        }
      }
      _exit(0);
    }
    int wst = 0;
    waitpid(pid, &wst, 0);
    std::vector<int> reint, reint_small;
    std::set<uint64_t> seen;
    for (size_t i = 0; i < n; ++i)
      for (uint64_t k = 0; k < 48; ++k)
        if (acc[i * 48 + k]) {
          Entry e;
          std::string op;
          hdr(g_corpus[all_small[i]], k, &e.bytes, &op);
          if (!seen.insert(mc::hash_bytes(e.bytes.data(), e.bytes.size())).second) continue;
          e.name = g_corpus[all_small[i]].name + " " + op;
          e.gen = -1;
          g_corpus.push_back(e);
          reint.push_back((int)g_corpus.size() - 1);
          if (e.bytes.size() <= 120) reint_small.push_back(reint.back());
        }
    munmap(acc, n * 48 + 1);
    fprintf(stderr, "[%s] accepted header reinterpretations: %zu carriers (%zu of <= 120 bytes)\n", R.property.c_str(), reint.size(), reint_small.size());
    add_space(R, "reinterpreted_trunc", reint, len, trunc, modes_q, true, true);
    add_space(R, "reinterpreted_byte8_small", reint_small, [](const Entry &e) { return (uint64_t)e.bytes.size() * 8; }, byte8, modes_q, true, false);
    add_space(R, "reinterpreted_byte8", reint, [](const Entry &e) { return (uint64_t)e.bytes.size() * 8; }, byte8, modes_q, false, true);
    add_space(R, "reinterpreted_byte255_small", reint_small, [](const Entry &e) { return (uint64_t)e.bytes.size() * 255; }, byte255, mode0, false, true);
  }
  // one entropy-coder seam value replaced
  {
    Mutator seam = [](const Entry &e, uint64_t k, Bytes *out, std::string *op) {
      const size_t item = k / 8;
      uint32_t alts[8];
      const int n = seam_alts(e.seam[item], alts);
      if ((int)(k % 8) >= n) return false;
      Recorder rec;
      rec.target = (int64_t)item;
      rec.replacement = alts[k % 8];
      EncResult r = encode_gen(g_gens[e.gen], &rec);
      if (!rec.applied) return false;
      // the encoder may legitimately refuse the impossible value
      if (!r.ok) return false;
      *out = r.bytes;
      *op = "seam(" + std::to_string(item) + ": kind " + std::to_string(e.seam[item].kind) + " " + std::to_string(e.seam[item].value) + "->" +
            std::to_string(alts[k % 8]) + ")";
      return true;
    };
    std::vector<int> seam_q;
    for (int i : g_seamable)
      if (std::find(g_sub.begin(), g_sub.end(), i) != g_sub.end() && g_corpus[i].seam.size() <= 150) seam_q.push_back(i);
    add_space(R, "seam1_sub", seam_q, [](const Entry &e) { return (uint64_t)e.seam.size() * 8; }, seam, mode0, true, false, true);
    add_space(R, "seam1_all", g_seamable, [](const Entry &e) { return (uint64_t)e.seam.size() * 8; }, seam, modes_q, false, true, true);
  }
  // 2 deviations on tiny streams
  {
    static const int kA = 7;
    Mutator pair = [](const Entry &e, uint64_t k, Bytes *out, std::string *op) {
      const uint64_t L = e.bytes.size();
      const uint64_t vv = k % (kA * kA);
      uint64_t ij = k / (kA * kA);
      const size_t i = ij / L, j = ij % L;
      if (i >= j) return false;
      const uint8_t a = alt8(e.bytes[i], vv / kA), b = alt8(e.bytes[j], vv % kA);
      if (a == e.bytes[i] || b == e.bytes[j]) return false;
      *out = e.bytes;
      (*out)[i] = a;
      (*out)[j] = b;
      *op = "pair(" + std::to_string(i) + "," + std::to_string(a) + ";" + std::to_string(j) + "," + std::to_string(b) + ")";
      return true;
    };
    std::vector<int> tiny_sub;
    for (int i : g_tiny)
      if (std::find(g_sub.begin(), g_sub.end(), i) != g_sub.end()) tiny_sub.push_back(i);
    std::vector<int> tiny4(tiny_sub.begin(), tiny_sub.begin() + std::min<size_t>(tiny_sub.size(), 4));
    add_space(R, "pairs_tiny4", tiny4, [](const Entry &e) { return (uint64_t)e.bytes.size() * e.bytes.size() * kA * kA; }, pair, mode0, true, false);
    add_space(R, "pairs_tiny", tiny_sub, [](const Entry &e) { return (uint64_t)e.bytes.size() * e.bytes.size() * kA * kA; }, pair, mode0, false, true);
  }
  // splices of tiny pairs: prefix of A + suffix of B
  {
    auto tiny = std::make_shared<std::vector<int>>();
    for (int i : g_tiny)
      if (std::find(g_sub.begin(), g_sub.end(), i) != g_sub.end() && tiny->size() < 12) tiny->push_back(i);
    Mutator splice = [tiny](const Entry &e, uint64_t k, Bytes *out, std::string *op) {
      const uint64_t L = e.bytes.size();
      const size_t bi = k / (L * 64);
      const Entry &B = g_corpus[(*tiny)[bi]];
      const size_t i = (k / 64) % L, j = k % 64;
      if (j >= B.bytes.size()) return false;
      out->assign(e.bytes.begin(), e.bytes.begin() + i);
      out->insert(out->end(), B.bytes.begin() + j, B.bytes.end());
      *op = "splice(" + std::to_string(i) + "," + B.name + "," + std::to_string(j) + ")";
      return true;
    };
    const uint64_t nt = tiny->size();
    add_space(R, "splices_tiny", *tiny, [nt](const Entry &e) { return (uint64_t)e.bytes.size() * 64 * nt; }, splice, mode0, false, true);
  }
  R.require("decode_ok", 100);
  R.require("decode_rejected", 100);
  if (g_mode == M_C03) R.require("ok_after_deviation", 1000);
  // a replay file carries the exact bytes of its case: replay those rather than the (space, index) pair, whose meaning
  // shifts when the corpus changes (e.g. the carriers of reinterpreted_* exist only while a decoder accepts them)
  if (R.replay_mode) {
    const char *rc = getenv("VERIF_REPLAY_CASE");
    std::string c = rc ? rc : "";
    const size_t hp = c.find(" hex="), ep = c.find(" entry="), lp = c.find(" len=");
    if (hp != std::string::npos && ep != std::string::npos && lp != std::string::npos) {
      const size_t declared_len = strtoull(c.c_str() + lp + 5, nullptr, 10);
      auto bytes = std::make_shared<Bytes>();
      for (size_t i = hp + 5; i + 1 < c.size() && isxdigit((unsigned char)c[i]); i += 2) bytes->push_back((uint8_t)strtoul(c.substr(i, 2).c_str(), nullptr, 16));
      if (bytes->size() == declared_len) {
        const int entry = atoi(c.c_str() + ep + 7);
        const std::string what = c.substr(0, lp);
        mc::Space sp;
        sp.name = "replay_bytes";
        sp.size = 1;
        sp.quick = sp.thorough = false;
        sp.run = [=](uint64_t, mc::Ctx &ctx) { run_decode(*bytes, entry, ctx, "", what); };
        sp.describe = [=](uint64_t) { return c; };
        R.add(sp);
        R.replay_space = "replay_bytes";
        R.replay_index = 0;
      }
    }
  }
  return R.main();
}
