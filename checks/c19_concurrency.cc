// C19: independent encoder/decoder instances can run concurrently.
//  1. inventory: every writable data/bss/TLS object and every reference to a
//     synchronisation or environment primitive in the freshly built library is
//     on an allow-list (this is what makes "allocator + thread start/exit" a
//     complete set of interaction points);
//  2. schedule exploration: T = 2 (and 3) threads, each running one job on its
//     own objects, under a cooperative scheduler whose scheduling points are
//     every operator new and delete; ALL schedules with at most 0, 1 (and 2)
//     preemptions are executed; every thread's result must equal its
//     sequential result;
//  3. (--x-tsan, ThreadSanitizer build) free-running threads: all ordered job
//     pairs and a 16-thread mix, zero reports, results equal sequential.
#include <semaphore.h>

#include <thread>

#include "checks/stream_corpus.h"
#include "draco/animation/keyframe_animation.h"
#include "draco/animation/keyframe_animation_decoder.h"
#include "draco/animation/keyframe_animation_encoder.h"
#include "draco/io/obj_decoder.h"
#include "draco/io/obj_encoder.h"
#include "draco/io/ply_decoder.h"
#include "draco/io/ply_encoder.h"
#include "draco/metadata/geometry_metadata.h"
#include "mc/alloc_env.h"

using namespace mcg;
using namespace sc;

namespace {

// ---------------------------------------------------------------- jobs
typedef uint64_t (*JobFn)();

uint64_t roundtrip_hash(const GeomDef &g, const EncCfg &c, bool with_metadata = false) {
  std::unique_ptr<Mesh> mesh;
  std::unique_ptr<PointCloud> cloud;
  if (g.is_mesh) mesh = build_mesh(g);
  else cloud = build_cloud(g);
  PointCloud &src = g.is_mesh ? static_cast<PointCloud &>(*mesh) : *cloud;
  if (with_metadata) {
    std::unique_ptr<GeometryMetadata> md(new GeometryMetadata());
    md->AddEntryString("name", "concurrency");
    md->AddEntryInt("answer", 42);
    std::unique_ptr<Metadata> sub(new Metadata());
    sub->AddEntryDouble("pi", 3.14159);
    md->AddSubMetadata("sub", std::move(sub));
    src.AddMetadata(std::move(md));
  }
  EncResult e = encode(g, src, mesh.get(), c);
  if (!e.ok) return 1;
  DecResult d = decode(e.bytes);
  if (!d.ok) return 2;
  uint64_t h = mc::hash_combine(mc::hash_bytes(e.bytes.data(), e.bytes.size()), ordered_digest(*d.pc, d.mesh));
  if (with_metadata) {
    const GeometryMetadata *m = d.pc->GetMetadata();
    std::string s;
    int v = 0;
    if (!m || !m->GetEntryString("name", &s) || s != "concurrency" || !m->GetEntryInt("answer", &v) || v != 42) return 3;
    h = mc::hash_combine(h, m->num_entries());
  }
  return h;
}

uint64_t job_mesh_eb() {
  GeomDef g = gs::s2_mesh({{0, 1, 2}, {0, 2, 3}, {0, 3, 4}, {0, 4, 1}}, 0x5a5, true, gs::POS_F32_Q, gs::SEAM_TEX_Q);
  EncCfg c = gs::mesh_cfg(3, 0);
  c.qbits = {11, 10};
  return roundtrip_hash(g, c);
}
uint64_t job_mesh_eb_normals() {
  GeomDef g = gs::s2_mesh({{0, 1, 2}, {0, 3, 1}, {1, 3, 2}, {2, 3, 0}}, 0x3c3, true, gs::POS_F32_Q, gs::SEAM_NORMAL_Q);
  EncCfg c = gs::mesh_cfg(2, 1);
  c.qbits = {12, 8};
  return roundtrip_hash(g, c);
}
uint64_t job_mesh_seq() {
  GeomDef g = gs::s1_mesh({{0, 1, 2}, {2, 1, 3}, {2, 3, 4}}, 1, gs::POS_I32);
  EncCfg c = gs::mesh_cfg(1, 5);
  c.qbits = {0};
  return roundtrip_hash(g, c);
}
uint64_t job_cloud_kd() {
  GeomDef g = cloud_geom(40, 1, 1);
  EncCfg c;
  c.method = POINT_CLOUD_KD_TREE_ENCODING;
  c.speed_enc = c.speed_dec = 2;
  c.qbits = {10, 0};
  // explicit quantization: origin and range travel through the string-valued Options (SetVector / GetVector parsing)
  c.explicit_q[0] = {std::vector<float>{-7.5f, 0.25f, -11.75f}, 64.f};
  return roundtrip_hash(g, c);
}
uint64_t job_cloud_seq() {
  GeomDef g = cloud_geom(17, 0, 1);
  EncCfg c;
  c.method = POINT_CLOUD_SEQUENTIAL_ENCODING;
  c.qbits = {9, 0};
  c.explicit_q[0] = {std::vector<float>{-1.5f, -2.25f, -3.f}, 100.f};
  return roundtrip_hash(g, c);
}
uint64_t job_mesh_metadata() {
  GeomDef g = gs::s1_mesh({{0, 1, 2}, {2, 1, 3}}, 0, gs::POS_F32);
  EncCfg c = gs::mesh_cfg(2, 7);
  c.qbits = {0};
  return roundtrip_hash(g, c, true);
}
const char kObj[] =
    "v 0 0 0\nv 1 0 0\nv 1 1 0\nv 0 1 0\nv 0.5 0.5 1\nvt 0 0\nvt 1 0\nvt 1 1\nvt 0 1\nvn 0 0 1\nvn 0 1 0\n"
    "f 1/1/1 2/2/1 3/3/1\nf 1/1/1 3/3/1 4/4/1\nf 1/1/2 2/2/2 5/3/2\nf 2/1/2 3/2/2 5/3/2\n";
uint64_t job_obj() {
  DecoderBuffer b;
  b.Init(kObj, sizeof(kObj) - 1);
  Mesh m;
  ObjDecoder d;
  if (!d.DecodeFromBuffer(&b, &m).ok()) return 1;
  ObjEncoder e;
  EncoderBuffer out;
  if (!e.EncodeToBuffer(m, &out)) return 2;
  return mc::hash_combine(ordered_digest(m, &m), mc::hash_bytes(out.data(), out.size()));
}
uint64_t job_ply() {
  // build a mesh, write PLY, read it back
  GeomDef g = gs::s1_mesh({{0, 1, 2}, {2, 1, 3}, {2, 3, 4}}, 0, gs::POS_F32);
  auto m = build_mesh(g);
  PlyEncoder e;
  EncoderBuffer out;
  if (!e.EncodeToBuffer(*m, &out)) return 1;
  DecoderBuffer b;
  b.Init(out.data(), out.size());
  Mesh r;
  PlyDecoder d;
  if (!d.DecodeFromBuffer(&b, &r).ok()) return 2;
  return mc::hash_combine(ordered_digest(r, &r), mc::hash_bytes(out.data(), out.size()));
}
uint64_t job_animation() {
  KeyframeAnimation a;
  std::vector<float> ts = {0.f, 0.5f, 1.f, 1.5f};
  a.SetTimestamps(ts);
  std::vector<float> tr = {0, 0, 0, 1, 2, 3, 2, 4, 6, 3, 6, 9};
  a.AddKeyframes(DT_FLOAT32, 3, tr);
  KeyframeAnimationEncoder enc;
  EncoderOptions o = EncoderOptions::CreateDefaultOptions();
  EncoderBuffer buf;
  if (!enc.EncodeKeyframeAnimation(a, o, &buf).ok()) return 1;
  DecoderBuffer db;
  db.Init(buf.data(), buf.size());
  KeyframeAnimationDecoder dec;
  DecoderOptions dopt;
  KeyframeAnimation out;
  if (!dec.Decode(dopt, &db, &out).ok()) return 2;
  return mc::hash_combine(mc::hash_bytes(buf.data(), buf.size()), ordered_digest(out, nullptr));
}

struct Job {
  const char *name;
  JobFn fn;
};
const Job kJobs[] = {{"mesh_edgebreaker_valence_texcoords", job_mesh_eb}, {"mesh_edgebreaker_normals", job_mesh_eb_normals},
                     {"mesh_sequential_compressed", job_mesh_seq},        {"cloud_kdtree", job_cloud_kd},
                     {"cloud_sequential", job_cloud_seq},                  {"mesh_with_metadata", job_mesh_metadata},
                     {"obj_decode_encode", job_obj},                       {"ply_encode_decode", job_ply},
                     {"keyframe_animation", job_animation}};
const int kNumJobs = sizeof(kJobs) / sizeof(kJobs[0]);
uint64_t g_expected[kNumJobs];
uint64_t g_points[kNumJobs];  // scheduling points of a job run alone

// ---------------------------------------------------------------- cooperative scheduler
struct Segment {
  int thread;
  uint64_t count;  // scheduling points of |thread| to run before switching (UINT64_MAX: to completion)
};
struct Sched {
  bool active = false;
  int n = 0;
  sem_t sem[4];
  volatile bool finished[4];
  volatile int running = -1;
  std::vector<Segment> segments;
  size_t seg = 0;
  uint64_t seg_left = 0;
  uint64_t points = 0, preemptions = 0, switches = 0;
  uint64_t per_thread[4];
};
Sched S;
thread_local int t_id = -1;

#define NOINSTR __attribute__((no_instrument_function))
NOINSTR void switch_to(int target, int self) {
  S.running = target;
  S.switches++;
  sem_post(&S.sem[target]);
  if (self >= 0) sem_wait(&S.sem[self]);
}

thread_local bool t_in_hook = false;
struct HookGuard {
  NOINSTR HookGuard() { t_in_hook = true; }
  NOINSTR ~HookGuard() { t_in_hook = false; }
};
NOINSTR void alloc_hook(int, size_t) {
  if (!S.active || t_id < 0 || t_in_hook) return;
  HookGuard guard;  // the hook's own callees may be instrumented (sched variant)
  const int me = t_id;
  S.points++;
  S.per_thread[me]++;
  if (S.seg >= S.segments.size()) return;  // run to completion
  if (S.seg_left == UINT64_MAX) return;
  if (--S.seg_left > 0) return;
  // segment exhausted: move to the next segment's thread
  S.seg++;
  while (S.seg < S.segments.size() && S.finished[S.segments[S.seg].thread]) S.seg++;
  if (S.seg >= S.segments.size()) return;
  S.seg_left = S.segments[S.seg].count;
  const int target = S.segments[S.seg].thread;
  if (target == me) return;
  S.preemptions++;
  switch_to(target, me);
}

// With the `sched` build variant (-finstrument-functions-after-inlining on the library) every function entry of
// draco is a scheduling point as well.
bool g_func_points = false;
extern "C" NOINSTR void __cyg_profile_func_enter(void *, void *) {
  if (g_func_points) alloc_hook(2, 0);
}
extern "C" NOINSTR void __cyg_profile_func_exit(void *, void *) {}

void thread_body(int id, JobFn fn, uint64_t *result) {
  sem_wait(&S.sem[id]);
  t_id = id;
  *result = fn();
  t_id = -1;
  S.finished[id] = true;
  // hand over: next segment's thread if it names an unfinished one, else the lowest unfinished id
  int next = -1;
  while (S.seg < S.segments.size() && S.finished[S.segments[S.seg].thread]) S.seg++;
  if (S.seg < S.segments.size()) {
    next = S.segments[S.seg].thread;
    S.seg_left = S.segments[S.seg].count;
  } else {
    for (int i = 0; i < S.n; ++i)
      if (!S.finished[i]) {
        next = i;
        break;
      }
  }
  if (next >= 0) switch_to(next, -1);
}

// Runs jobs[0..n) under the given segment list. Returns true when every
// thread's result equals the expected one.
bool run_schedule(const int *jobs, int n, const std::vector<Segment> &segs, uint64_t *results) {
  S.n = n;
  S.segments = segs;
  S.seg = 0;
  S.seg_left = segs.empty() ? UINT64_MAX : segs[0].count;
  S.points = S.preemptions = S.switches = 0;
  for (int i = 0; i < n; ++i) {
    sem_init(&S.sem[i], 0, 0);
    S.finished[i] = false;
    S.per_thread[i] = 0;
  }
  std::thread th[4];
  for (int i = 0; i < n; ++i) th[i] = std::thread(thread_body, i, kJobs[jobs[i]].fn, &results[i]);
  S.active = true;
  const int first = segs.empty() ? 0 : segs[0].thread;
  S.running = first;
  sem_post(&S.sem[first]);
  for (int i = 0; i < n; ++i) th[i].join();
  S.active = false;
  for (int i = 0; i < n; ++i) sem_destroy(&S.sem[i]);
  bool ok = true;
  for (int i = 0; i < n; ++i) ok = ok && results[i] == g_expected[jobs[i]];
  return ok;
}

std::string seg_text(const int *jobs, int n, const std::vector<Segment> &segs) {
  std::string s = "threads:";
  for (int i = 0; i < n; ++i) s += std::string(" T") + std::to_string(i) + "=" + kJobs[jobs[i]].name;
  s += " schedule:";
  for (auto &g : segs) s += " T" + std::to_string(g.thread) + (g.count == UINT64_MAX ? "(to end)" : "x" + std::to_string(g.count));
  return s;
}

void report(mc::Ctx &ctx, const int *jobs, int n, const std::vector<Segment> &segs, const uint64_t *results) {
  std::string which;
  for (int i = 0; i < n; ++i)
    if (results[i] != g_expected[jobs[i]]) which += std::string(which.empty() ? "" : "+") + kJobs[jobs[i]].name;
  ctx.fail("concurrent-result-differs-from-sequential:" + which, seg_text(jobs, n, segs));
}

// ---------------------------------------------------------------- inventory
struct Allowed {
  const char *pattern;
  const char *why;
};
const Allowed kAllowedObjects[] = {
    {"GetFileReaderOpenFunctions", "file reader factory registry (io layer, not on codec paths)"},
    {"GetFileWriterOpenFunctions", "file writer factory registry (io layer, not on codec paths)"},
    {"StdioFileReader22registered_in_factory_", "static registration flag of the stdio reader"},
    {"StdioFileWriter22registered_in_factory_", "static registration flag of the stdio writer"},
    {"_ZStL8__ioinit", "libstdc++ iostream initialiser"},
    {"DW.ref.__gxx_personality_v0", "exception personality reference"},
    {"_ZZN5draco5verif5hooksEvE1h", "thread-local verification hooks (DRACO_VERIF builds only)"},
};
const char *kForbiddenRefs[] = {"pthread_", "__cxa_guard_", "__atomic_", "rand", "srand", "random", "time", "getenv", "localtime", "gmtime",
                                "setlocale", "clock", "gettimeofday", "__tls_get_addr", "std::thread", "_ZNSt6thread", "_ZSt9call_once",
                                // C library functions that keep hidden process-wide state between calls (exact names: the _r variants are fine)
                                "strtok", "drand48", "lrand48", "mrand48", "srand48", "ctime", "asctime", "tmpnam", "tempnam", "mblen", "mbtowc", "wctomb",
                                "ecvt", "fcvt", "l64a", "setenv", "putenv", "readdir", "getpwnam", "getpwuid", "gethostbyname", "strsignal"};
// references that exist on the unchanged tree and why they are harmless
const Allowed kAllowedRefs[] = {
    {"__cxa_guard_acquire", "guards of the two file-factory registries"},
    {"__cxa_guard_release", "guards of the two file-factory registries"},
    {"gettimeofday", "core/cycle_timer.cc (timing helper used by the command line tools only)"},
    {"__tls_get_addr", "thread-local verification hooks"},
};

void run_inventory(mc::Ctx &ctx) {
  const char *bd = getenv("VERIF_BUILD_DIR");
  std::string lib = std::string(bd ? bd : "/verif/build/fast") + "/libdraco.a";
  {
    std::string cmd = "objdump -t '" + lib + "' 2>/dev/null";
    FILE *p = popen(cmd.c_str(), "r");
    if (!p) {
      ctx.fail("inventory-cannot-run-objdump", lib);
      return;
    }
    char line[4096];
    std::set<std::string> seen;
    while (fgets(line, sizeof line, p)) {
      // "0000000000000000 l     O .bss\t0000000000000018 _ZZN5draco...": take section and symbol name
      std::string s = line;
      if (s.size() < 25 || s[16] != ' ') continue;
      std::stringstream ss(s.substr(17));
      std::vector<std::string> tok;
      std::string t;
      while (ss >> t) tok.push_back(t);
      if (tok.size() < 3) continue;
      const std::string &name = tok.back();
      std::string section;
      for (auto &k : tok)
        if (k[0] == '.') {
          section = k;
          break;
        }
      if (section.empty() || name == section) continue;
      const bool writable = section.compare(0, 4, ".bss") == 0 || section.compare(0, 5, ".tbss") == 0 || section.compare(0, 6, ".tdata") == 0 ||
                            (section.compare(0, 5, ".data") == 0 && section.compare(0, 12, ".data.rel.ro") != 0);
      if (!writable) continue;
      if (!seen.insert(name).second) continue;
      ctx.count("inventory_writable_objects");
      bool ok = false;
      for (auto &a : kAllowedObjects) ok = ok || name.find(a.pattern) != std::string::npos;
      if (!ok) ctx.fail("inventory:unexpected-writable-global:" + name, "section " + section + " in " + lib);
    }
    pclose(p);
    if (seen.empty()) ctx.fail("inventory-empty", "objdump produced no symbols for " + lib);
  }
  {
    std::string cmd = "nm -u '" + lib + "' 2>/dev/null";
    FILE *p = popen(cmd.c_str(), "r");
    if (!p) return;
    char line[4096];
    std::set<std::string> seen;
    while (fgets(line, sizeof line, p)) {
      std::stringstream ss(line);
      std::string a, name;
      ss >> a >> name;
      if (a != "U" || name.empty()) continue;
      if (!seen.insert(name).second) continue;
      bool forbidden = false;
      for (auto f : kForbiddenRefs) {
        const std::string fs = f;
        forbidden = forbidden || name == fs || (fs.back() == '_' && name.compare(0, fs.size(), fs) == 0) || (fs[0] == '_' && name.find(fs) != std::string::npos);
      }
      if (!forbidden) continue;
      ctx.count("inventory_sync_or_environment_references");
      bool ok = false;
      for (auto &al : kAllowedRefs) ok = ok || name == al.pattern;
      if (!ok) ctx.fail("inventory:unexpected-sync-or-environment-reference:" + name, lib);
    }
    pclose(p);
  }
}

}  // namespace

int g_history_dependent_jobs = 0;

int main(int argc, char **argv) {
  mc::Runner R(argc, argv, "C19");
  R.level = "model_checking";
  const bool tsan = R.flag("tsan");
  const bool funcpoints = R.flag("funcpoints");
  g_func_points = funcpoints;
  // expected (sequential) results and scheduling points per job
  for (int j = 0; j < kNumJobs; ++j) g_expected[j] = kJobs[j].fn();
  mc::alloc_env().hook = alloc_hook;
  for (int j = 0; j < kNumJobs; ++j) {
    int jobs[1] = {j};
    uint64_t res[1];
    run_schedule(jobs, 1, {}, res);
    g_points[j] = S.per_thread[0];
    if (res[0] != g_expected[j] && res[0] >= 16) {
      // The warm main thread and a fresh thread disagree. That is a matter of call history (C06),
      // not of concurrency; if a second fresh thread reproduces the fresh-thread result, that
      // result is the stand-alone reference for the explored threads (each of them is fresh), and
      // the inventory part still gets to name the hidden state.
      uint64_t res2[1];
      run_schedule(jobs, 1, {}, res2);
      if (res2[0] == res[0]) {
        fprintf(stderr, "[C19] note: job %s gives another result in a fresh thread than in the warm main thread (call-history dependence, see C06); fresh-thread result taken as reference\n", kJobs[j].name);
        g_expected[j] = res[0];
        g_history_dependent_jobs++;
      }
    }
    if (res[0] != g_expected[j] || g_expected[j] < 16) {
      fprintf(stderr, "INTERNAL: job %s is not deterministic or failed (%llu)\n", kJobs[j].name, (unsigned long long)g_expected[j]);
      return 2;
    }
  }
  {
    std::string pj = "{";
    for (int j = 0; j < kNumJobs; ++j) pj += std::string(j ? "," : "") + "\"" + kJobs[j].name + "\":" + std::to_string(g_points[j]);
    R.extra["scheduling_points_per_job"] = pj + "}";
    R.extra["jobs_whose_result_depends_on_call_history"] = std::to_string(g_history_dependent_jobs);
    fprintf(stderr, "[C19] scheduling points per job: %s\n", pj.c_str());
  }
  R.rule =
      "9 jobs (encode+decode of meshes with Edgebreaker/sequential coders, kd-tree and sequential point clouds, metadata, OBJ and PLY "
      "parsing/writing, keyframe animation), each on its own objects; scheduling points = every operator new/delete of a job thread; all "
      "schedules of every ORDERED job pair (incl. a job with itself) with at most 0 and 1 preemptions, bound 2 for selected pairs (quick) / "
      "every ordered pair of the five smallest jobs plus two self-pairs (thorough), three threads with at most 1 preemption; a second build (-finstrument-functions) makes "
      "every function entry (1e4..1.8e5 per job) a scheduling point as well: all schedules with at most 1 preemption for selected pairs; states = distinct (job set, results) outcomes; non-trivial = "
      "schedules with at least one context switch inside a job";
  R.explanation =
      tsan ? "free-running threads under ThreadSanitizer (halt on first report): every ordered job pair and a 16-thread mix, repeated; results "
             "equal the sequential results"
           : "stateless exploration of the real code under a cooperative scheduler (one thread runs at a time, hand-over by semaphores); "
             "oracle: every thread's result (hash of encoded bytes + ordered digest of the decoded geometry) equals its sequential result; the "
             "inventory makes the chosen scheduling points complete: no writable global, no lock, no atomic, no TLS outside the allow-list";
  R.assumptions = {"memory-order effects below sequential consistency are visible only to the ThreadSanitizer pass",
                   "more than 3 threads only in the free-running pass"};
  R.transition_counters = {"schedules_executed", "scheduling_points_executed", "free_running_executions"};

  if (tsan) {
    mc::alloc_env().hook = nullptr;
    {
      mc::Space s;
      s.name = "tsan_ordered_pairs_x3";
      s.size = (uint64_t)kNumJobs * kNumJobs * 3;
      s.timeout_s = 120;
      s.run = [](uint64_t idx, mc::Ctx &ctx) {
        const int a = (idx / 3) % kNumJobs, b = (idx / 3) / kNumJobs;
        uint64_t ra = 0, rb = 0;
        std::thread ta([&] { ra = kJobs[a].fn(); });
        std::thread tb([&] { rb = kJobs[b].fn(); });
        ta.join();
        tb.join();
        ctx.count("free_running_executions");
        if (ra != g_expected[a] || rb != g_expected[b])
          ctx.fail(std::string("free-running-result-differs-from-sequential:") + kJobs[a].name + "+" + kJobs[b].name, "");
        ctx.nontrivial_unique();
      };
      s.describe = [](uint64_t idx) {
        return std::string("free-running pair ") + kJobs[(idx / 3) % kNumJobs].name + " || " + kJobs[(idx / 3) / kNumJobs].name + " repetition " + std::to_string(idx % 3);
      };
      R.add(s);
    }
    {
      mc::Space s;
      s.name = "tsan_16_thread_mix";
      s.size = 9;
      s.timeout_s = 300;
      s.run = [](uint64_t idx, mc::Ctx &ctx) {
        std::vector<std::thread> th;
        uint64_t res[16];
        for (int i = 0; i < 16; ++i) th.emplace_back([&res, i, idx] { res[i] = kJobs[(i + idx) % kNumJobs].fn(); });
        for (auto &t : th) t.join();
        ctx.count("free_running_executions");
        for (int i = 0; i < 16; ++i)
          if (res[i] != g_expected[(i + idx) % kNumJobs]) ctx.fail(std::string("free-running-result-differs-from-sequential:16-thread-mix"), kJobs[(i + idx) % kNumJobs].name);
        ctx.nontrivial_unique();
      };
      s.describe = [](uint64_t idx) { return "16 free-running threads, job of thread i = (i + " + std::to_string(idx) + ") mod 9"; };
      R.add(s);
    }
    R.require("free_running_executions", 100);
    return R.main();
  }

  if (funcpoints) {
    // Same exploration with every function entry of the library as an additional scheduling point: all schedules with at
    // most one preemption for the given ordered pairs.
    auto add_fp = [&](const std::string &name, std::vector<std::pair<int, int>> pairs, bool quick, bool thorough) {
      auto P = std::make_shared<std::vector<std::pair<int, int>>>(pairs);
      auto off = std::make_shared<std::vector<uint64_t>>();
      uint64_t total = 0;
      for (auto &pr : pairs) {
        off->push_back(total);
        total += g_points[pr.first] + 1;
      }
      mc::Space s;
      s.name = name;
      s.size = total;
      s.quick = quick;
      s.thorough = thorough;
      s.timeout_s = 60;
      auto make = [P, off](uint64_t idx, int jobs[2], std::vector<Segment> *segs) {
        int p = (int)off->size() - 1;
        while ((*off)[p] > idx) --p;
        const uint64_t i = idx - (*off)[p];
        jobs[0] = (*P)[p].first;
        jobs[1] = (*P)[p].second;
        if (i == 0) *segs = {{1, UINT64_MAX}, {0, UINT64_MAX}};
        else if (i >= g_points[jobs[0]]) *segs = {{0, UINT64_MAX}, {1, UINT64_MAX}};
        else *segs = {{0, i}, {1, UINT64_MAX}, {0, UINT64_MAX}};
      };
      s.run = [make](uint64_t idx, mc::Ctx &ctx) {
        int jobs[2];
        std::vector<Segment> segs;
        make(idx, jobs, &segs);
        uint64_t res[2];
        const bool ok = run_schedule(jobs, 2, segs, res);
        ctx.count("schedules_executed");
        ctx.count("scheduling_points_executed", S.points);
        ctx.count_max("max_scheduling_points_in_one_execution", S.points);
        if (S.preemptions) {
          ctx.count("schedules_with_a_preemption");
          ctx.nontrivial_unique();
        }
        ctx.state(mc::hash_combine(mc::hash_combine(jobs[0], jobs[1]), mc::hash_combine(res[0], res[1])));
        if (!ok) report(ctx, jobs, 2, segs, res);
      };
      s.describe = [make](uint64_t idx) {
        int jobs[2];
        std::vector<Segment> segs;
        make(idx, jobs, &segs);
        return "function-entry points: " + seg_text(jobs, 2, segs);
      };
      R.add(s);
    };
    add_fp("funcpoints_pairs_bound_1_selected", {{0, 0}, {6, 8}}, true, false);
    // thorough: every job with itself, and the Edgebreaker/tex-coord job with every other job in both orders
    // (all 81 ordered pairs would be 5.3e6 schedules)
    std::vector<std::pair<int, int>> sel;
    for (int a = 0; a < kNumJobs; ++a) sel.push_back({a, a});
    for (int a = 1; a < kNumJobs; ++a) {
      sel.push_back({0, a});
      sel.push_back({a, 0});
    }
    add_fp("funcpoints_pairs_bound_1_diagonal_and_job0", sel, false, true);
    R.require("schedules_with_a_preemption", 1000);
    return R.main();
  }
  // 1. inventory
  {
    mc::Space s;
    s.name = "inventory";
    s.size = 1;
    s.run = [](uint64_t, mc::Ctx &ctx) {
      run_inventory(ctx);
      ctx.nontrivial_unique();
    };
    s.describe = [](uint64_t) { return std::string("writable objects and synchronisation/environment references of libdraco.a vs allow-list"); };
    R.add(s);
  }
  // 2. schedules
  // bound 0 and 1: for every ordered pair (X,Y): T0 runs X for i points, then T1 = Y to completion, then T0 finishes; i in [0, points(X)]
  {
    auto off = std::make_shared<std::vector<uint64_t>>();
    uint64_t total = 0;
    for (int p = 0; p < kNumJobs * kNumJobs; ++p) {
      off->push_back(total);
      total += g_points[p / kNumJobs] + 1;
    }
    mc::Space s;
    s.name = "pairs_preemption_bound_1";
    s.size = total;
    s.timeout_s = 60;
    auto make = [off](uint64_t idx, int jobs[2], std::vector<Segment> *segs) {
      int p = (int)off->size() - 1;
      while ((*off)[p] > idx) --p;
      const uint64_t i = idx - (*off)[p];
      jobs[0] = p / kNumJobs;
      jobs[1] = p % kNumJobs;
      if (i == 0) *segs = {{1, UINT64_MAX}, {0, UINT64_MAX}};  // T1 first, then T0 (bound 0)
      else if (i >= g_points[jobs[0]]) *segs = {{0, UINT64_MAX}, {1, UINT64_MAX}};  // T0 first, then T1 (bound 0)
      else *segs = {{0, i}, {1, UINT64_MAX}, {0, UINT64_MAX}};
    };
    s.run = [make](uint64_t idx, mc::Ctx &ctx) {
      int jobs[2];
      std::vector<Segment> segs;
      make(idx, jobs, &segs);
      uint64_t res[2];
      const bool ok = run_schedule(jobs, 2, segs, res);
      ctx.count("schedules_executed");
      ctx.count("scheduling_points_executed", S.points);
      ctx.count_max("max_scheduling_points_in_one_execution", S.points);
      if (S.preemptions) {
        ctx.count("schedules_with_a_preemption");
        ctx.nontrivial_unique();
      }
      ctx.state(mc::hash_combine(mc::hash_combine(jobs[0], jobs[1]), mc::hash_combine(res[0], res[1])));
      if (!ok) report(ctx, jobs, 2, segs, res);
    };
    s.describe = [make](uint64_t idx) {
      int jobs[2];
      std::vector<Segment> segs;
      make(idx, jobs, &segs);
      return seg_text(jobs, 2, segs);
    };
    R.add(s);
  }
  // bound 2: T0 runs i points, T1 runs j points, T0 to completion, T1 finishes. One case = (pair, i), inner loop over all j.
  auto add_bound2 = [&](const std::string &name, std::vector<std::pair<int, int>> pairs, bool quick, bool thorough) {
    auto P = std::make_shared<std::vector<std::pair<int, int>>>(pairs);
    auto off = std::make_shared<std::vector<uint64_t>>();
    uint64_t total = 0, execs = 0;
    for (auto &pr : pairs) {
      off->push_back(total);
      total += g_points[pr.first] > 1 ? g_points[pr.first] - 1 : 0;
      execs += (g_points[pr.first] - 1) * (g_points[pr.second] - 1);
    }
    mc::Space s;
    s.name = name;
    s.size = total;
    s.quick = quick;
    s.thorough = thorough;
    s.timeout_s = 300;
    s.cases_per_index = total ? execs / total : 1;
    s.run = [P, off](uint64_t idx, mc::Ctx &ctx) {
      int p = (int)off->size() - 1;
      while ((*off)[p] > idx) --p;
      const uint64_t i = idx - (*off)[p] + 1;
      int jobs[2] = {(*P)[p].first, (*P)[p].second};
      for (uint64_t j = 1; j < g_points[jobs[1]]; ++j) {
        std::vector<Segment> segs = {{0, i}, {1, j}, {0, UINT64_MAX}, {1, UINT64_MAX}};
        uint64_t res[2];
        const bool ok = run_schedule(jobs, 2, segs, res);
        ctx.count("schedules_executed");
        ctx.count("scheduling_points_executed", S.points);
        if (S.preemptions >= 2) ctx.count("schedules_with_two_preemptions");
        ctx.nontrivial_unique();
        if (!ok) {
          report(ctx, jobs, 2, segs, res);
          return;
        }
      }
    };
    s.describe = [P, off](uint64_t idx) {
      int p = (int)off->size() - 1;
      while ((*off)[p] > idx) --p;
      const uint64_t i = idx - (*off)[p] + 1;
      int jobs[2] = {(*P)[p].first, (*P)[p].second};
      return seg_text(jobs, 2, {{0, i}, {1, 1}, {0, UINT64_MAX}, {1, UINT64_MAX}}) + " for every length 1.." + std::to_string(g_points[jobs[1]] - 1) + " of the second segment";
    };
    R.add(s);
  };
  add_bound2("pairs_preemption_bound_2_selected", {{6, 8}, {8, 8}, {6, 6}}, true, false);
  {
    std::vector<std::pair<int, int>> all;
    // every ordered pair of the five jobs with the fewest scheduling points (1.5e6 schedules), plus the Edgebreaker job and
    // the sequential cloud job each with itself; all other pairs are covered at bound 1 (the kd-tree job alone has 2828 points)
    for (int a : {2, 5, 6, 7, 8})
      for (int b : {2, 5, 6, 7, 8}) all.push_back({a, b});
    all.push_back({0, 0});
    all.push_back({4, 4});
    all.push_back({8, 3});
    add_bound2("pairs_preemption_bound_2_small_jobs", all, false, true);
  }
  // three threads, at most one preemption: T0 runs i points, then the other two in both orders, then T0 finishes
  {
    const int triples[][3] = {{0, 1, 2}, {0, 0, 0}, {3, 4, 5}, {6, 7, 8}, {0, 3, 6}, {5, 5, 1}};
    const int nt = sizeof(triples) / sizeof(triples[0]);
    auto off = std::make_shared<std::vector<uint64_t>>();
    uint64_t total = 0;
    for (int t = 0; t < nt; ++t) {
      off->push_back(total);
      total += 2 * (g_points[triples[t][0]] + 1);
    }
    mc::Space s;
    s.name = "triples_preemption_bound_1";
    s.size = total;
    s.quick = false;
    s.thorough = true;
    s.timeout_s = 60;
    auto make = [off, triples](uint64_t idx, int jobs[3], std::vector<Segment> *segs) {
      int t = (int)off->size() - 1;
      while ((*off)[t] > idx) --t;
      uint64_t k = idx - (*off)[t];
      for (int q = 0; q < 3; ++q) jobs[q] = triples[t][q];
      const int order = k % 2;
      const uint64_t i = k / 2;
      const int a = order ? 2 : 1, b = order ? 1 : 2;
      if (i == 0) *segs = {{a, UINT64_MAX}, {b, UINT64_MAX}, {0, UINT64_MAX}};
      else if (i >= g_points[jobs[0]]) *segs = {{0, UINT64_MAX}, {a, UINT64_MAX}, {b, UINT64_MAX}};
      else *segs = {{0, i}, {a, UINT64_MAX}, {b, UINT64_MAX}, {0, UINT64_MAX}};
    };
    s.run = [make](uint64_t idx, mc::Ctx &ctx) {
      int jobs[3];
      std::vector<Segment> segs;
      make(idx, jobs, &segs);
      uint64_t res[3];
      const bool ok = run_schedule(jobs, 3, segs, res);
      ctx.count("schedules_executed");
      ctx.count("scheduling_points_executed", S.points);
      if (S.preemptions) ctx.nontrivial_unique();
      if (!ok) report(ctx, jobs, 3, segs, res);
    };
    s.describe = [make](uint64_t idx) {
      int jobs[3];
      std::vector<Segment> segs;
      make(idx, jobs, &segs);
      return seg_text(jobs, 3, segs);
    };
    R.add(s);
  }
  R.require("schedules_executed", 1000);
  R.require("schedules_with_a_preemption", 1000);
  R.require("inventory_writable_objects", 4);
  return R.main();
}
