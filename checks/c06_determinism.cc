// C06: encoding and decoding are deterministic functions of their inputs.
//  (a) exhaustive enumeration of API-operation histories (all sequences up to a
//      depth) on long-lived Encoder / ExpertEncoder / Decoder / internal
//      encoder objects and a shared EncoderBuffer; every encode/decode inside a
//      history is compared with the same call on FRESH objects configured from
//      a plain reference option model;
//  (b) every generator of the stream corpus under each allocator answer:
//      fresh-memory fill {00, FF, A5} x address order {malloc, ascending bump,
//      descending bump};
//  (c) every corpus stream followed by trailing bytes {none, 00, FF, "DRACO",
//      itself}: same geometry, remaining_size()==len(trailing);
//  (d) the whole corpus re-encoded and decoded in child processes with ASLR on
//      and off.
#include <sys/personality.h>

#include <cerrno>
#include <sstream>
#include <sys/wait.h>
#include "checks/stream_corpus.h"
#include "draco/compression/point_cloud/point_cloud_sequential_decoder.h"
#include "draco/compression/point_cloud/point_cloud_kd_tree_decoder.h"
#include "draco/compression/mesh/mesh_sequential_decoder.h"
#include "draco/compression/mesh/mesh_edgebreaker_decoder.h"
#include "draco/compression/mesh/mesh_edgebreaker_encoder.h"
#include "draco/compression/mesh/mesh_sequential_encoder.h"
#include "draco/compression/point_cloud/point_cloud_kd_tree_encoder.h"
#include "draco/compression/point_cloud/point_cloud_sequential_encoder.h"
#include "mc/alloc_env.h"

using namespace mcg;
using namespace sc;

namespace {

// ---------------------------------------------------------------- fixtures
std::vector<GeomDef> g_mesh_defs, g_cloud_defs;
std::vector<std::unique_ptr<Mesh>> g_meshes;
std::vector<std::unique_ptr<PointCloud>> g_clouds;
std::vector<Bytes> g_dec_streams;  // streams for the decoder histories
std::string g_self;

void build_fixtures() {
  g_mesh_defs.push_back(gs::s1_mesh({{0, 1, 2}, {2, 1, 3}}, 0, gs::POS_F32));
  g_mesh_defs.push_back(gs::s1_mesh({{0, 1, 2}, {0, 3, 1}, {1, 3, 2}, {2, 3, 0}}, 1, gs::POS_F32));
  g_mesh_defs.push_back(gs::s2_mesh({{0, 1, 2}, {0, 2, 3}, {0, 3, 4}, {0, 4, 1}}, 0x5a5, true, gs::POS_F32, gs::SEAM_TEX_F32));
  g_cloud_defs.push_back(cloud_geom(5, 0, 1));
  g_cloud_defs.push_back(cloud_geom(9, 2, 0));
  for (auto &g : g_mesh_defs) g_meshes.push_back(build_mesh(g));
  for (auto &g : g_cloud_defs) g_clouds.push_back(build_cloud(g));
  // decoder streams
  {
    GeomDef g = gs::s2_mesh({{0, 1, 2}, {0, 2, 3}, {0, 3, 4}, {0, 4, 1}}, 0x3c3, true, gs::POS_F32_Q, gs::SEAM_NORMAL_Q);
    EncCfg c = gs::mesh_cfg(2, 3);
    c.qbits = {11, 8};
    auto m = build_mesh(g);
    g_dec_streams.push_back(encode(g, *m, m.get(), c).bytes);
    EncCfg c2 = gs::mesh_cfg(0, 5);
    c2.qbits = {9, 0};
    g_dec_streams.push_back(encode(g, *m, m.get(), c2).bytes);
    GeomDef pc = cloud_geom(12, 1, 1);
    EncCfg c3;
    c3.method = POINT_CLOUD_KD_TREE_ENCODING;
    c3.qbits = {10, 0};
    auto p = build_cloud(pc);
    g_dec_streams.push_back(encode(pc, *p, nullptr, c3).bytes);
    EncCfg c4;
    c4.method = POINT_CLOUD_SEQUENTIAL_ENCODING;
    c4.qbits = {12, 0};
    g_dec_streams.push_back(encode(pc, *p, nullptr, c4).bytes);
  }
}

// ---------------------------------------------------------------- (a1) draco::Encoder histories
struct EncModel {
  int speed = -1;                 // -1: never set
  std::map<int, int> qbits;       // attribute type -> bits
  int method = -1;
  bool track = false;
  std::string key() const {
    std::string s = "s" + std::to_string(speed) + "m" + std::to_string(method) + "t" + std::to_string(track);
    for (auto &q : qbits) s += "q" + std::to_string(q.first) + ":" + std::to_string(q.second);
    return s;
  }
};
const int kEncOps = 16;
std::string enc_op_name(int op) {
  static const char *n[kEncOps] = {"SetSpeedOptions(0,0)", "SetSpeedOptions(5,5)", "SetSpeedOptions(10,10)", "SetAttributeQuantization(POSITION,8)",
                                   "SetAttributeQuantization(POSITION,14)", "SetAttributeQuantization(TEX_COORD,10)", "SetEncodingMethod(0)",
                                   "SetEncodingMethod(1)", "SetTrackEncodedProperties(true)", "Reset()", "buffer.Clear()", "EncodeMeshToBuffer(G0)",
                                   "EncodeMeshToBuffer(G1)", "EncodeMeshToBuffer(G2)", "EncodePointCloudToBuffer(P0)", "EncodePointCloudToBuffer(P1)"};
  return n[op];
}
void apply_enc_op(Encoder &e, EncModel &m, int op) {
  switch (op) {
    case 0: e.SetSpeedOptions(0, 0); m.speed = 0; break;
    case 1: e.SetSpeedOptions(5, 5); m.speed = 5; break;
    case 2: e.SetSpeedOptions(10, 10); m.speed = 10; break;
    case 3: e.SetAttributeQuantization(GeometryAttribute::POSITION, 8); m.qbits[GeometryAttribute::POSITION] = 8; break;
    case 4: e.SetAttributeQuantization(GeometryAttribute::POSITION, 14); m.qbits[GeometryAttribute::POSITION] = 14; break;
    case 5: e.SetAttributeQuantization(GeometryAttribute::TEX_COORD, 10); m.qbits[GeometryAttribute::TEX_COORD] = 10; break;
    case 6: e.SetEncodingMethod(0); m.method = 0; break;
    case 7: e.SetEncodingMethod(1); m.method = 1; break;
    case 8: e.SetTrackEncodedProperties(true); m.track = true; break;
    case 9: e.Reset(); m = EncModel(); break;
    default: break;
  }
}
struct EncOut {
  bool ok;
  Bytes bytes;
  size_t pts = 0, faces = 0;
};
EncOut fresh_encode(const EncModel &m, int geom_op) {
  Encoder e;
  if (m.speed >= 0) e.SetSpeedOptions(m.speed, m.speed);
  for (auto &q : m.qbits) e.SetAttributeQuantization((GeometryAttribute::Type)q.first, q.second);
  if (m.method >= 0) e.SetEncodingMethod(m.method);
  if (m.track) e.SetTrackEncodedProperties(true);
  EncoderBuffer b;
  Status st = geom_op <= 13 ? e.EncodeMeshToBuffer(*g_meshes[geom_op - 11], &b) : e.EncodePointCloudToBuffer(*g_clouds[geom_op - 14], &b);
  EncOut o;
  o.ok = st.ok();
  o.bytes.assign(b.data(), b.data() + b.size());
  o.pts = e.num_encoded_points();
  o.faces = e.num_encoded_faces();
  return o;
}

void run_encoder_history(uint64_t idx, int depth, mc::Ctx &ctx, std::string *desc) {
  Encoder e;
  EncoderBuffer buf;
  EncModel m;
  std::string hist;
  for (int step = 0; step < depth; ++step) {
    const int op = idx % kEncOps;
    idx /= kEncOps;
    hist += (step ? " ; " : "") + enc_op_name(op);
    if (desc) continue;
    if (op <= 9) {
      apply_enc_op(e, m, op);
    } else if (op == 10) {
      buf.Clear();
    } else {
      const size_t before = buf.size();
      Status st = op <= 13 ? e.EncodeMeshToBuffer(*g_meshes[op - 11], &buf) : e.EncodePointCloudToBuffer(*g_clouds[op - 14], &buf);
      ctx.count("encodes_in_histories");
      EncOut ref = fresh_encode(m, op);
      if (st.ok() != ref.ok) {
        ctx.fail("encoder-history:status-differs-from-fresh-object", hist);
        return;
      }
      if (st.ok()) {
        Bytes got(buf.data() + before, buf.data() + buf.size());
        if (buf.size() < before || got != ref.bytes) {
          ctx.fail("encoder-history:bytes-differ-from-fresh-object", hist);
          return;
        }
        if (m.track && (e.num_encoded_points() != ref.pts || e.num_encoded_faces() != ref.faces)) {
          ctx.fail("encoder-history:tracked-counts-differ-from-fresh-object", hist);
          return;
        }
        ctx.state(mc::hash_combine(mc::hash_str(m.key()), mc::hash_bytes(got.data(), got.size())));
      } else if (buf.size() < before) {
        ctx.fail("encoder-history:failed-encode-shrank-buffer", hist);
        return;
      }
    }
  }
  if (desc) *desc = "Encoder+EncoderBuffer history: " + hist;
}

// ---------------------------------------------------------------- (a2) Decoder histories
const int kDecOps = 8;
std::string dec_op_name(int op) {
  static const char *n[kDecOps] = {"SetSkipAttributeTransform(POSITION)", "SetSkipAttributeTransform(NORMAL)", "Decode(S0 mesh eb q)", "Decode(S1 mesh seq q)",
                                   "Decode(S2 cloud kd q)", "Decode(S3 cloud seq q)", "Decode(truncated S0)", "DecodeBufferToGeometry(S0,&mesh)"};
  return n[op];
}
struct DecOut {
  bool ok = false;
  uint64_t digest = 0;
  size_t remaining = 0;
};
DecOut decode_with(Decoder &d, int op) {
  DecOut o;
  Bytes s = op == 6 ? Bytes(g_dec_streams[0].begin(), g_dec_streams[0].begin() + g_dec_streams[0].size() / 2)
                    : op == 7 ? g_dec_streams[0] : g_dec_streams[op - 2];
  DecoderBuffer b;
  b.Init(reinterpret_cast<const char *>(s.data()), s.size());
  if (op == 7) {
    Mesh m;
    Status st = d.DecodeBufferToGeometry(&b, &m);
    o.ok = st.ok();
    if (o.ok) o.digest = ordered_digest(m, &m);
  } else if (s.size() > 7 && s[7] == TRIANGULAR_MESH) {
    auto r = d.DecodeMeshFromBuffer(&b);
    o.ok = r.ok();
    if (o.ok) o.digest = ordered_digest(*r.value(), r.value().get());
  } else {
    auto r = d.DecodePointCloudFromBuffer(&b);
    o.ok = r.ok();
    if (o.ok) o.digest = ordered_digest(*r.value(), nullptr);
  }
  o.remaining = b.remaining_size();
  return o;
}
void run_decoder_history(uint64_t idx, int depth, mc::Ctx &ctx, std::string *desc) {
  Decoder d;
  bool skip_pos = false, skip_nrm = false;
  std::string hist;
  for (int step = 0; step < depth; ++step) {
    const int op = idx % kDecOps;
    idx /= kDecOps;
    hist += (step ? " ; " : "") + dec_op_name(op);
    if (desc) continue;
    if (op == 0) {
      d.SetSkipAttributeTransform(GeometryAttribute::POSITION);
      skip_pos = true;
    } else if (op == 1) {
      d.SetSkipAttributeTransform(GeometryAttribute::NORMAL);
      skip_nrm = true;
    } else {
      DecOut got = decode_with(d, op);
      Decoder fresh;
      if (skip_pos) fresh.SetSkipAttributeTransform(GeometryAttribute::POSITION);
      if (skip_nrm) fresh.SetSkipAttributeTransform(GeometryAttribute::NORMAL);
      DecOut ref = decode_with(fresh, op);
      ctx.count("decodes_in_histories");
      if (got.ok != ref.ok || got.digest != ref.digest || got.remaining != ref.remaining) {
        ctx.fail("decoder-history:result-differs-from-fresh-object", hist);
        return;
      }
      ctx.state(mc::hash_combine(got.digest, skip_pos * 2 + skip_nrm));
    }
  }
  if (desc) *desc = "Decoder history: " + hist;
}

// ---------------------------------------------------------------- (a3) ExpertEncoder + internal encoders reuse
// ops on one ExpertEncoder(G2): 0..2 speeds, 3/4 quantization att 0 (8/14), 5 quantization att 1 (10), 6/7 method, 8/9 submethod std/valence,
// 10 Reset, 11 EncodeToBuffer(fresh buffer), 12 EncodeToBuffer(shared buffer)
const int kExpOps = 13;
std::string exp_op_name(int op) {
  static const char *n[kExpOps] = {"SetSpeedOptions(0,0)", "SetSpeedOptions(5,5)", "SetSpeedOptions(10,10)", "SetAttributeQuantization(0,8)",
                                   "SetAttributeQuantization(0,14)", "SetAttributeQuantization(1,10)", "SetEncodingMethod(0)", "SetEncodingMethod(1)",
                                   "SetEncodingSubmethod(standard)", "SetEncodingSubmethod(valence)", "Reset()", "EncodeToBuffer(fresh)",
                                   "EncodeToBuffer(shared)"};
  return n[op];
}
struct ExpModel {
  int speed = -1, method = -1, sub = -1;
  std::map<int, int> q;
};
void apply_exp(ExpertEncoder &e, ExpModel &m, int op) {
  switch (op) {
    case 0: e.SetSpeedOptions(0, 0); m.speed = 0; break;
    case 1: e.SetSpeedOptions(5, 5); m.speed = 5; break;
    case 2: e.SetSpeedOptions(10, 10); m.speed = 10; break;
    case 3: e.SetAttributeQuantization(0, 8); m.q[0] = 8; break;
    case 4: e.SetAttributeQuantization(0, 14); m.q[0] = 14; break;
    case 5: e.SetAttributeQuantization(1, 10); m.q[1] = 10; break;
    case 6: e.SetEncodingMethod(0); m.method = 0; break;
    case 7: e.SetEncodingMethod(1); m.method = 1; break;
    case 8: e.SetEncodingSubmethod(MESH_EDGEBREAKER_STANDARD_ENCODING); m.sub = MESH_EDGEBREAKER_STANDARD_ENCODING; break;
    case 9: e.SetEncodingSubmethod(MESH_EDGEBREAKER_VALENCE_ENCODING); m.sub = MESH_EDGEBREAKER_VALENCE_ENCODING; break;
    case 10: e.Reset(); m = ExpModel(); break;
    default: break;
  }
}
void run_expert_history(uint64_t idx, int depth, mc::Ctx &ctx, std::string *desc) {
  ExpertEncoder e(*g_meshes[2]);
  ExpModel m;
  EncoderBuffer shared;
  std::string hist;
  for (int step = 0; step < depth; ++step) {
    const int op = idx % kExpOps;
    idx /= kExpOps;
    hist += (step ? " ; " : "") + exp_op_name(op);
    if (desc) continue;
    if (op <= 10) {
      apply_exp(e, m, op);
      continue;
    }
    EncoderBuffer fresh_buf;
    EncoderBuffer *target = op == 11 ? &fresh_buf : &shared;
    const size_t before = target->size();
    Status st = e.EncodeToBuffer(target);
    ctx.count("encodes_in_histories");
    ExpertEncoder f(*g_meshes[2]);
    ExpModel fm;
    if (m.speed >= 0) f.SetSpeedOptions(m.speed, m.speed);
    for (auto &q : m.q) f.SetAttributeQuantization(q.first, q.second);
    if (m.method >= 0) f.SetEncodingMethod(m.method);
    if (m.sub >= 0) f.SetEncodingSubmethod(m.sub);
    EncoderBuffer rb;
    Status rs = f.EncodeToBuffer(&rb);
    if (st.ok() != rs.ok()) {
      ctx.fail("expert-encoder-history:status-differs-from-fresh-object", hist);
      return;
    }
    if (st.ok()) {
      Bytes got(target->data() + before, target->data() + target->size());
      Bytes want(rb.data(), rb.data() + rb.size());
      if (got != want) {
        ctx.fail("expert-encoder-history:bytes-differ-from-fresh-object", hist);
        return;
      }
      ctx.state(mc::hash_bytes(got.data(), got.size()));
    }
  }
  if (desc) *desc = "ExpertEncoder(G2) history: " + hist;
}

// internal encoder objects: sequences of (geometry, option set) encodes on ONE object
template <class EncT, class GeomT>
bool internal_encode(EncT &enc, const GeomT &geom, int optset, Bytes *out) {
  EncoderOptions o = EncoderOptions::CreateDefaultOptions();
  static const int speeds[3] = {0, 5, 10};
  o.SetSpeed(speeds[optset % 3], speeds[optset % 3]);
  if (optset >= 3) o.SetAttributeInt(0, "quantization_bits", 10);
  EncoderBuffer b;
  if (!enc.Encode(o, &b).ok()) return false;
  out->assign(b.data(), b.data() + b.size());
  return true;
}
void run_internal_history(uint64_t idx, int depth, mc::Ctx &ctx, std::string *desc) {
  // kind: 0 MeshEdgebreakerEncoder, 1 MeshSequentialEncoder, 2 PointCloudKdTreeEncoder, 3 PointCloudSequentialEncoder
  const int kind = idx % 4;
  idx /= 4;
  MeshEdgebreakerEncoder eb;
  MeshSequentialEncoder sq;
  PointCloudKdTreeEncoder kd;
  PointCloudSequentialEncoder ps;
  std::string hist = kind == 0 ? "MeshEdgebreakerEncoder:" : kind == 1 ? "MeshSequentialEncoder:" : kind == 2 ? "PointCloudKdTreeEncoder:" : "PointCloudSequentialEncoder:";
  for (int step = 0; step < depth; ++step) {
    const int gi = idx % 3, os = (idx / 3) % 6;
    idx /= 18;
    hist += " SetGeometry(" + std::to_string(gi) + "),Encode(opt" + std::to_string(os) + ")";
    if (desc) continue;
    Bytes got, want;
    bool ok1, ok2;
    if (kind <= 1) {
      const Mesh &m = *g_meshes[gi];
      if (kind == 0) {
        eb.SetMesh(m);
        ok1 = internal_encode(eb, m, os, &got);
        MeshEdgebreakerEncoder f;
        f.SetMesh(m);
        ok2 = internal_encode(f, m, os, &want);
      } else {
        sq.SetMesh(m);
        ok1 = internal_encode(sq, m, os, &got);
        MeshSequentialEncoder f;
        f.SetMesh(m);
        ok2 = internal_encode(f, m, os, &want);
      }
    } else {
      const PointCloud &p = *g_clouds[gi % 2];
      if (kind == 2) {
        kd.SetPointCloud(p);
        ok1 = internal_encode(kd, p, os, &got);
        PointCloudKdTreeEncoder f;
        f.SetPointCloud(p);
        ok2 = internal_encode(f, p, os, &want);
      } else {
        ps.SetPointCloud(p);
        ok1 = internal_encode(ps, p, os, &got);
        PointCloudSequentialEncoder f;
        f.SetPointCloud(p);
        ok2 = internal_encode(f, p, os, &want);
      }
    }
    ctx.count("encodes_in_histories");
    if (ok1 != ok2 || got != want) {
      ctx.fail("internal-encoder-history:differs-from-fresh-object:kind" + std::to_string(kind), hist);
      return;
    }
    ctx.state(mc::hash_bytes(got.data(), got.size()));
  }
  if (desc) *desc = hist;
}

uint64_t ipow(uint64_t b, int e) {
  uint64_t r = 1;
  while (e--) r *= b;
  return r;
}

void add_history_space(mc::Runner &R, const std::string &name, uint64_t size, int depth,
                       void (*fn)(uint64_t, int, mc::Ctx &, std::string *), bool quick, bool thorough) {
  mc::Space s;
  s.name = name;
  s.size = size;
  s.quick = quick;
  s.thorough = thorough;
  s.run = [=](uint64_t idx, mc::Ctx &ctx) {
    fn(idx, depth, ctx, nullptr);
    ctx.nontrivial_unique();
  };
  s.describe = [=](uint64_t idx) {
    std::string d;
    mc::Ctx dummy;
    fn(idx, depth, dummy, &d);
    return d;
  };
  R.add(s);
}

// ---------------------------------------------------------------- (b) allocator answers
struct Answer {
  int fill, arena;
};
std::vector<Answer> g_answers;

bool run_gen(const Gen &g, Bytes *bytes, uint64_t *digest) {
  Recorder rec;
  EncResult r = encode_gen(g, &rec);
  if (!r.ok || !r.pred_status.empty()) return false;
  DecResult d = decode(r.bytes);
  if (!d.ok) return false;
  *bytes = r.bytes;
  *digest = ordered_digest(*d.pc, d.mesh);
  return true;
}

}  // namespace

int main(int argc, char **argv) {
  g_self = argv[0];
  bool dump = false;
  for (int i = 1; i < argc; ++i) dump = dump || std::string(argv[i]) == "--x-dump-corpus-hash";
  if (dump) {
    // child mode for (d): print one combined hash of all generator streams and their decoded digests
    build_generators();
    uint64_t h = 0;
    for (auto &g : g_gens) {
      Bytes b;
      uint64_t dg = 0;
      if (run_gen(g, &b, &dg)) h = mc::hash_combine(h, mc::hash_combine(mc::hash_bytes(b.data(), b.size()), dg));
      else h = mc::hash_combine(h, 77);
    }
    printf("%016llx\n", (unsigned long long)h);
    return 0;
  }
  for (int i = 1; i + 1 < argc; ++i) {
    if (std::string(argv[i]) != "--x-fresh-process") continue;
    // child mode for (e): a process that has not run any draco encoder or decoder yet forks one
    // grandchild per preface choice; the grandchild runs (optionally) the preface generator, then
    // generator |gi| twice, and prints "<preface> <hash of call 1> <hash of call 2>".
    build_generators();
    const size_t gi = strtoull(argv[i + 1], nullptr, 10), n = g_gens.size();
    if (gi >= n) return 3;
    fflush(stdout);
    for (int pk = -1; pk < 6; ++pk) {
      const long pre = pk < 0 ? -1 : long((n * size_t(pk)) / 6 + size_t(pk));
      pid_t pid = fork();
      if (pid == 0) {
        Bytes b;
        uint64_t dg = 0;
        if (pre >= 0 && size_t(pre) < n) run_gen(g_gens[pre], &b, &dg);
        uint64_t h[2];
        for (int rep = 0; rep < 2; ++rep) {
          Bytes bb;
          uint64_t d2 = 0;
          h[rep] = run_gen(g_gens[gi], &bb, &d2) ? mc::hash_combine(mc::hash_bytes(bb.data(), bb.size()), d2) : 77;
        }
        printf("%ld %016llx %016llx\n", pre, (unsigned long long)h[0], (unsigned long long)h[1]);
        fflush(stdout);
        _exit(0);
      }
      int st = 0;
      waitpid(pid, &st, 0);
      if (!WIFEXITED(st) || WEXITSTATUS(st) != 0) printf("%ld crashed crashed\n", pre);
      fflush(stdout);
    }
    return 0;
  }
  mc::Runner R(argc, argv, "C06");
  R.level = "model_checking";
  const bool asan = R.flag("asan");
  build_fixtures();
  build_corpus();
  R.rule =
      "(a) EVERY sequence of API operations up to the stated depth on one long-lived object: draco::Encoder + shared EncoderBuffer (16 "
      "operations), draco::Decoder (8), ExpertEncoder (13), and the four internal encoder classes (geometry x option-set encodes); (b) every "
      "corpus generator under every allocator answer; (c) every corpus stream x 5 kinds of trailing bytes; (d) the whole corpus in child "
      "processes with ASLR on/off; states = distinct (reference option state, output) pairs; non-trivial = every history / case executed";
  R.explanation =
      "oracle: an encode/decode inside a history equals the same call on fresh objects configured from a plain reference option model "
      "(byte equality; suffix equality on a non-cleared buffer; tracked counts); outputs identical under all allocator answers and address "
      "space layouts; trailing bytes do not change the geometry and remaining_size() == len(trailing)";
  R.assumptions = {"other compilers / standard libraries / CPUs are out of reach", "ascending/descending bump allocation only in the non-sanitizer build"};
  R.transition_counters = {"encodes_in_histories", "decodes_in_histories", "allocator_answer_runs", "trailing_decodes"};

  // (a)
  if (!asan) {
    add_history_space(R, "encoder_histories_depth3", ipow(kEncOps, 3), 3, run_encoder_history, true, true);
    add_history_space(R, "encoder_histories_depth4", ipow(kEncOps, 4), 4, run_encoder_history, true, true);
    add_history_space(R, "encoder_histories_depth5", ipow(kEncOps, 5), 5, run_encoder_history, false, true);
    add_history_space(R, "decoder_histories_depth4", ipow(kDecOps, 4), 4, run_decoder_history, true, true);
    add_history_space(R, "decoder_histories_depth6", ipow(kDecOps, 6), 6, run_decoder_history, false, true);
    add_history_space(R, "expert_histories_depth4", ipow(kExpOps, 4), 4, run_expert_history, true, true);
    add_history_space(R, "expert_histories_depth5", ipow(kExpOps, 5), 5, run_expert_history, false, true);
    add_history_space(R, "internal_encoder_histories_depth2", 4 * ipow(18, 2), 2, run_internal_history, true, true);
    add_history_space(R, "internal_encoder_histories_depth3", 4 * ipow(18, 3), 3, run_internal_history, false, true);
  } else {
    add_history_space(R, "asan_encoder_histories_depth3", ipow(kEncOps, 3), 3, run_encoder_history, true, true);
    add_history_space(R, "asan_encoder_histories_depth4", ipow(kEncOps, 4), 4, run_encoder_history, false, true);
    add_history_space(R, "asan_decoder_histories_depth3", ipow(kDecOps, 3), 3, run_decoder_history, true, true);
    add_history_space(R, "asan_decoder_histories_depth5", ipow(kDecOps, 5), 5, run_decoder_history, false, true);
    add_history_space(R, "asan_expert_histories_depth3", ipow(kExpOps, 3), 3, run_expert_history, true, true);
    add_history_space(R, "asan_internal_encoder_histories_depth2", 4 * ipow(18, 2), 2, run_internal_history, true, true);
  }
  // (a4) one DecoderBuffer object (and one Decoder) reused for streams of different bitstream versions / types / methods:
  // carriers = the first stream of every (major, minor, geometry type, method) class of the corpus (legacy testdata files
  // included) and its first half (a decode that fails half-way); every sequence of 2 (quick) or 3 (thorough) carriers.
  {
    auto carriers = std::make_shared<std::vector<Bytes>>();
    auto names = std::make_shared<std::vector<std::string>>();
    std::set<uint32_t> seen;
    for (const Entry &e : g_corpus) {
      if (e.bytes.size() < 12 || e.bytes.size() > 4096) continue;
      const uint32_t key = (e.bytes[5] << 24) | (e.bytes[6] << 16) | (e.bytes[7] << 8) | e.bytes[8];
      if (!seen.insert(key).second) continue;
      carriers->push_back(e.bytes);
      names->push_back(e.name);
      carriers->push_back(Bytes(e.bytes.begin(), e.bytes.begin() + e.bytes.size() / 2));
      names->push_back("first half of " + e.name);
    }
    const uint64_t n = carriers->size();
    auto decode_in = [](DecoderBuffer &b, Decoder &d, const Bytes &s2) {
      DecOut o;
      b.Init(reinterpret_cast<const char *>(s2.data()), s2.size());
      if (s2.size() > 7 && s2[7] == TRIANGULAR_MESH) {
        auto r = d.DecodeMeshFromBuffer(&b);
        o.ok = r.ok();
        if (o.ok) o.digest = ordered_digest(*r.value(), r.value().get());
      } else {
        auto r = d.DecodePointCloudFromBuffer(&b);
        o.ok = r.ok();
        if (o.ok) o.digest = ordered_digest(*r.value(), nullptr);
      }
      o.remaining = b.remaining_size();
      return o;
    };
    for (int depth : {2, 3}) {
      mc::Space sp;
      sp.name = std::string(asan ? "asan_" : "") + "decoder_buffer_reuse_depth" + std::to_string(depth);
      sp.size = depth == 2 ? n * n : n * n * n;
      sp.quick = depth == 2;
      sp.thorough = true;
      sp.run = [=](uint64_t idx, mc::Ctx &ctx) {
        DecoderBuffer shared;
        Decoder shared_dec;
        std::string hist;
        uint64_t k = idx;
        for (int step = 0; step < depth; ++step) {
          const size_t c = k % n;
          k /= n;
          hist += (step ? " ; " : "") + (*names)[c];
          DecOut got = decode_in(shared, shared_dec, (*carriers)[c]);
          DecoderBuffer fresh;
          Decoder fresh_dec;
          DecOut ref = decode_in(fresh, fresh_dec, (*carriers)[c]);
          ctx.count("decodes_through_reused_buffer");
          if (got.ok != ref.ok || got.digest != ref.digest || got.remaining != ref.remaining) {
            ctx.fail("decoder-buffer-reuse:result-differs-from-fresh-buffer", "one DecoderBuffer + Decoder: " + hist);
            return;
          }
          if (got.ok) {
            // a successful decode leaves the buffer describing the same bytes: everything decoded, and rewinding it to offset 0
            // decodes the same geometry again
            const Bytes &s2 = (*carriers)[c];
            if ((size_t)shared.decoded_size() != s2.size()) {
              ctx.fail("decoder-buffer-reuse:decoded-size-differs-from-stream-length",
                       "one DecoderBuffer + Decoder: " + hist + " :: decoded_size " + std::to_string(shared.decoded_size()) + " of " + std::to_string(s2.size()));
              return;
            }
            shared.StartDecodingFrom(0);
            DecOut again;
            if (s2[7] == TRIANGULAR_MESH) {
              auto r = shared_dec.DecodeMeshFromBuffer(&shared);
              again.ok = r.ok();
              if (again.ok) again.digest = ordered_digest(*r.value(), r.value().get());
            } else {
              auto r = shared_dec.DecodePointCloudFromBuffer(&shared);
              again.ok = r.ok();
              if (again.ok) again.digest = ordered_digest(*r.value(), nullptr);
            }
            if (!again.ok || again.digest != got.digest) {
              ctx.fail("decoder-buffer-reuse:rewound-buffer-decodes-differently", "one DecoderBuffer + Decoder: " + hist + " ; StartDecodingFrom(0)");
              return;
            }
            ctx.state(got.digest);
          }
        }
        ctx.nontrivial_unique();
      };
      sp.describe = [=](uint64_t idx) {
        std::string hist;
        for (int step = 0; step < depth; ++step) {
          hist += (step ? " ; " : "") + (*names)[idx % n];
          idx /= n;
        }
        return "one DecoderBuffer + Decoder reused: " + hist;
      };
      R.add(sp);
    }
    // (a5) ONE output geometry object (a Mesh for mesh streams, a PointCloud for point-cloud streams) handed to
    // Decoder::DecodeBufferToGeometry for every stream of the sequence: what it holds after a successful decode must equal what a
    // fresh object holds (ordered digest) and must be structurally valid.
    auto decode_into = [](Mesh &tm, PointCloud &tp, const Bytes &s2, std::string *invalid) {
      DecOut o;
      DecoderBuffer b;
      b.Init(reinterpret_cast<const char *>(s2.data()), s2.size());
      Decoder d;
      if (s2.size() > 7 && s2[7] == TRIANGULAR_MESH) {
        o.ok = d.DecodeBufferToGeometry(&b, &tm).ok();
        if (o.ok) {
          *invalid = validate_structure(tm, &tm);
          if (invalid->empty()) o.digest = ordered_digest(tm, &tm);
        }
      } else {
        o.ok = d.DecodeBufferToGeometry(&b, &tp).ok();
        if (o.ok) {
          *invalid = validate_structure(tp, nullptr);
          if (invalid->empty()) o.digest = ordered_digest(tp, nullptr);
        }
      }
      o.remaining = b.remaining_size();
      return o;
    };
    for (int depth : {2, 3}) {
      mc::Space sp;
      sp.name = std::string(asan ? "asan_" : "") + "output_object_reuse_depth" + std::to_string(depth);
      sp.size = depth == 2 ? n * n : n * n * n;
      sp.quick = depth == 2;
      sp.thorough = true;
      sp.run = [=](uint64_t idx, mc::Ctx &ctx) {
        Mesh shared_mesh;
        PointCloud shared_pc;
        std::string hist;
        uint64_t k = idx;
        for (int step = 0; step < depth; ++step) {
          const size_t c = k % n;
          k /= n;
          hist += (step ? " ; " : "") + (*names)[c];
          std::string inv, inv2;
          DecOut got = decode_into(shared_mesh, shared_pc, (*carriers)[c], &inv);
          Mesh fm;
          PointCloud fp;
          DecOut ref = decode_into(fm, fp, (*carriers)[c], &inv2);
          ctx.count("decodes_into_reused_output_object");
          if (!inv.empty()) {
            ctx.fail("output-object-reuse:decoded-geometry-structurally-invalid:" + inv, "one output object: " + hist);
            return;
          }
          if (got.ok != ref.ok || got.digest != ref.digest || got.remaining != ref.remaining) {
            ctx.fail("output-object-reuse:result-differs-from-fresh-object", "one output object: " + hist);
            return;
          }
          if (got.ok) ctx.state(got.digest);
        }
        ctx.nontrivial_unique();
      };
      sp.describe = [=](uint64_t idx) {
        std::string hist;
        for (int step = 0; step < depth; ++step) {
          hist += (step ? " ; " : "") + (*names)[idx % n];
          idx /= n;
        }
        return "one output Mesh / PointCloud object reused by DecodeBufferToGeometry: " + hist;
      };
      R.add(sp);
    }
    // (a6) ONE low-level decoder object (MeshEdgebreakerDecoder / MeshSequentialDecoder / PointCloudKdTreeDecoder /
    // PointCloudSequentialDecoder: public classes with a public Decode()) used for two streams of its kind: every ordered pair of
    // the sub-corpus carriers (one per code-path signature) and the small files that share a decoder class.
    {
      auto pool = std::make_shared<std::vector<int>>(g_sub);
      for (int f : g_files)
        if (g_corpus[f].bytes.size() <= 4096) pool->push_back(f);
      const uint64_t m = pool->size();
      auto klass = [](const Bytes &b) { return b.size() > 8 ? b[7] * 2 + (b[8] ? 1 : 0) : -1; };
      auto decode_low = [klass](PointCloudDecoder *d, const Bytes &s2, uint64_t *dg) -> int {
        DecoderBuffer b;
        b.Init(reinterpret_cast<const char *>(s2.data()), s2.size());
        DecoderOptions o;
        Status st;
        if (klass(s2) >= 2) {
          Mesh mm;
          st = static_cast<MeshDecoder *>(d)->Decode(o, &b, &mm);
          if (st.ok()) *dg = ordered_digest(mm, &mm);
        } else {
          PointCloud pp;
          st = d->Decode(o, &b, &pp);
          if (st.ok()) *dg = ordered_digest(pp, nullptr);
        }
        return st.ok() ? 1 : 0;
      };
      auto make_dec = [](int k) -> std::unique_ptr<PointCloudDecoder> {
        switch (k) {
          case 0: return std::unique_ptr<PointCloudDecoder>(new PointCloudSequentialDecoder());
          case 1: return std::unique_ptr<PointCloudDecoder>(new PointCloudKdTreeDecoder());
          case 2: return std::unique_ptr<PointCloudDecoder>(new MeshSequentialDecoder());
          default: return std::unique_ptr<PointCloudDecoder>(new MeshEdgebreakerDecoder());
        }
      };
      mc::Space sp;
      sp.name = std::string(asan ? "asan_" : "") + "low_level_decoder_reuse_pairs";
      sp.size = m * m;
      sp.quick = sp.thorough = true;
      sp.run = [=](uint64_t idx, mc::Ctx &ctx) {
        const Bytes &A = g_corpus[(*pool)[idx / m]].bytes, &B = g_corpus[(*pool)[idx % m]].bytes;
        if (klass(A) < 0 || klass(A) != klass(B)) {
          ctx.count("pairs_of_different_decoder_classes_skipped");
          return;
        }
        auto shared = make_dec(klass(A));
        uint64_t d1 = 0, d2 = 0, r2 = 0;
        decode_low(shared.get(), A, &d1);
        const int ok2 = decode_low(shared.get(), B, &d2);
        auto fresh = make_dec(klass(B));
        const int okr = decode_low(fresh.get(), B, &r2);
        ctx.count("decodes_on_reused_low_level_decoder");
        if (ok2 != okr || d2 != r2) {
          ctx.fail("low-level-decoder-reuse:result-differs-from-fresh-decoder", g_corpus[(*pool)[idx / m]].name + " ; " + g_corpus[(*pool)[idx % m]].name);
          return;
        }
        ctx.nontrivial_unique();
      };
      sp.describe = [=](uint64_t idx) {
        return "one low-level decoder object: " + g_corpus[(*pool)[idx / m]].name + " ; " + g_corpus[(*pool)[idx % m]].name;
      };
      R.add(sp);
    }
    fprintf(stderr, "[C06] decoder buffer reuse: %zu carriers\n", (size_t)n);
  }
  // (b)
  for (int fill : {0x00, 0xFF, 0xA5})
    for (int arena : asan ? std::vector<int>{0} : std::vector<int>{0, 1, 2}) g_answers.push_back({fill, arena});
  {
    mc::Space s;
    s.name = asan ? "asan_allocator_answers" : "allocator_answers";
    s.size = g_gens.size();
    s.worker_init = [] {
      mc::AllocEnv &e = mc::alloc_env();
      e.arena_size = size_t(256) << 20;
      e.arena_base = static_cast<char *>(mmap(nullptr, e.arena_size, PROT_READ | PROT_WRITE, MAP_PRIVATE | MAP_ANONYMOUS | MAP_NORESERVE, -1, 0));
      if (e.arena_base == MAP_FAILED) e.arena_base = nullptr;
    };
    s.run = [](uint64_t idx, mc::Ctx &ctx) {
      const Gen &g = g_gens[idx];
      Bytes base;
      uint64_t base_dg = 0;
      mc::AllocEnv &e = mc::alloc_env();
      e.fill = -1;
      e.arena_mode = 0;
      const bool ok = run_gen(g, &base, &base_dg);
      for (const Answer &a : g_answers) {
        Bytes b;
        uint64_t dg = 0;
        bool ok2;
        e.fill = a.fill;
        e.arena_reset();
        e.arena_mode = e.arena_base ? a.arena : 0;
        {
          ok2 = run_gen(g, &b, &dg);
        }
        e.arena_mode = 0;
        e.fill = -1;
        ctx.count("allocator_answer_runs");
        if (ok2 == ok && (!ok || (b == base && dg == base_dg))) {
          // C library state left by unrelated earlier calls is an environment answer too: errno == ERANGE / EDOM before the call
          for (int en : {ERANGE, EDOM}) {
            Bytes b3;
            uint64_t dg3 = 0;
            errno = en;
            const bool ok3 = run_gen(g, &b3, &dg3);
            errno = 0;
            ctx.count("errno_answer_runs");
            if (ok3 != ok || (ok && (b3 != base || dg3 != base_dg))) {
              ctx.fail("output-depends-on-stale-errno:" + std::to_string(en), g.name);
              return;
            }
          }
        }
        if (ok2 != ok || (ok && (b != base || dg != base_dg))) {
          ctx.fail("output-depends-on-allocator-answer:fill" + std::to_string(a.fill) + ":arena" + std::to_string(a.arena), g.name);
          return;
        }
      }
      if (ok) {
        ctx.nontrivial_unique();
        ctx.state(mc::hash_bytes(base.data(), base.size()));
      }
    };
    s.describe = [](uint64_t idx) {
      return "generator " + g_gens[idx].name + " [" + text(g_gens[idx].g) + " " + text(g_gens[idx].c) + "] under every allocator answer";
    };
    R.add(s);
  }
  // (c)
  {
    mc::Space s;
    s.name = asan ? "asan_trailing_bytes" : "trailing_bytes";
    s.size = g_corpus.size() * 5;
    s.run = [](uint64_t idx, mc::Ctx &ctx) {
      const Entry &en = g_corpus[idx / 5];
      const int kind = idx % 5;
      Bytes tr;
      if (kind == 1) tr = {0x00};
      else if (kind == 2) tr = {0xFF, 0xFF, 0xFF};
      else if (kind == 3) tr = {'D', 'R', 'A', 'C', 'O'};
      else if (kind == 4) tr = en.bytes;
      Bytes s2 = en.bytes;
      s2.insert(s2.end(), tr.begin(), tr.end());
      DecResult a = decode(en.bytes), b = decode(s2);
      ctx.count("trailing_decodes");
      if (a.ok != b.ok) {
        // the decode status itself must not depend on what follows the stream
        ctx.fail(std::string(a.ok ? "trailing-bytes-break-decoding" : "decoding-succeeds-only-with-trailing-bytes") + ":kind" + std::to_string(kind), en.name);
        return;
      }
      if (!a.ok) {
        ctx.count("corpus_stream_does_not_decode_(C05_matter)");
        return;
      }
      if (ordered_digest(*a.pc, a.mesh) != ordered_digest(*b.pc, b.mesh)) ctx.fail("trailing-bytes-change-geometry:kind" + std::to_string(kind), en.name);
      if (b.remaining != tr.size() || a.remaining != 0)
        ctx.fail(std::string("decode-does-not-consume-exactly-the-stream") + (en.gen < 0 ? ":legacy-file" : ""),
                 en.name + " remaining " + std::to_string(b.remaining) + " expected " + std::to_string(tr.size()));
      ctx.nontrivial_unique();
    };
    s.describe = [](uint64_t idx) { return g_corpus[idx / 5].name + " + trailing kind " + std::to_string(idx % 5); };
    R.add(s);
  }
  // (d)
  {
    auto expected = std::make_shared<std::string>();
    mc::Space s;
    s.name = asan ? "asan_aslr_processes" : "aslr_processes";
    s.size = 3;
    s.timeout_s = 300;
    s.run = [](uint64_t idx, mc::Ctx &ctx) {
      // three child processes: ASLR as inherited, ASLR off, ASLR off again; all three hashes must agree
      static std::string first;
      std::string out[2];
      for (int rep = 0; rep < 2; ++rep) {
        int fds[2];
        if (pipe(fds)) return;
        pid_t pid = fork();
        if (pid == 0) {
          dup2(fds[1], 1);
          close(fds[0]);
          if (idx >= 1 || rep == 1) personality(ADDR_NO_RANDOMIZE);
          execl(g_self.c_str(), g_self.c_str(), "--x-dump-corpus-hash", (char *)nullptr);
          _exit(9);
        }
        close(fds[1]);
        char buf[64] = {0};
        ssize_t n = read(fds[0], buf, sizeof buf - 1);
        close(fds[0]);
        int st;
        waitpid(pid, &st, 0);
        out[rep] = n > 0 ? std::string(buf, n) : "";
      }
      ctx.count("child_process_pairs");
      if (out[0].size() != 17 || out[0] != out[1]) ctx.fail("corpus-hash-differs-between-processes", "'" + out[0] + "' vs '" + out[1] + "'");
      else ctx.nontrivial_unique();
    };
    s.describe = [](uint64_t idx) { return "child process pair " + std::to_string(idx) + " (ASLR inherited/off)"; };
    R.add(s);
  }
  // (e) process history: the first and the second call in a process that has run nothing else, and
  // the same two calls after each of 6 preface generators, against this worker's own result (a
  // process with a long history). Catches state kept in function-local statics / thread_local
  // caches, which objects-level histories (a) cannot see because every worker is 'warm'.
  if (!asan) {
    mc::Space s;
    s.name = "fresh_process_first_and_second_call";
    s.size = g_gens.size();
    s.timeout_s = 120;
    s.run = [](uint64_t idx, mc::Ctx &ctx) {
      Bytes b;
      uint64_t dg = 0;
      char own[32];
      snprintf(own, sizeof own, "%016llx", (unsigned long long)(run_gen(g_gens[idx], &b, &dg) ? mc::hash_combine(mc::hash_bytes(b.data(), b.size()), dg) : 77));
      int fds[2];
      if (pipe(fds)) return;
      pid_t pid = fork();
      if (pid == 0) {
        dup2(fds[1], 1);
        close(fds[0]);
        close(fds[1]);
        const std::string is = std::to_string(idx);
        execl(g_self.c_str(), g_self.c_str(), "--x-fresh-process", is.c_str(), (char *)nullptr);
        _exit(9);
      }
      close(fds[1]);
      std::string out;
      char buf[512];
      ssize_t n;
      while ((n = read(fds[0], buf, sizeof buf)) > 0) out.append(buf, n);
      close(fds[0]);
      int st;
      waitpid(pid, &st, 0);
      std::istringstream in(out);
      std::string pre, h1, h2;
      int lines = 0;
      while (in >> pre >> h1 >> h2) {
        ++lines;
        ctx.count("fresh_process_encodes", 2);
        const std::string where = pre == "-1" ? "no-preface" : "after-another-generator";
        if (h1 != h2) ctx.fail("first-and-second-call-in-a-fresh-process-differ:" + where, g_gens[idx].name + " preface generator " + pre + ": " + h1 + " vs " + h2);
        else if (h1 != own) ctx.fail("fresh-process-result-differs-from-warm-process:" + where, g_gens[idx].name + " preface generator " + pre + ": " + h1 + " vs " + own);
      }
      if (lines != 7) ctx.fail("fresh-process-child-failed", g_gens[idx].name + " produced " + std::to_string(lines) + " lines");
      else ctx.nontrivial_unique();
      ctx.state(mc::hash_bytes(reinterpret_cast<const uint8_t *>(own), 16));
    };
    s.describe = [](uint64_t idx) { return "generator " + g_gens[idx].name + " [" + text(g_gens[idx].g) + " " + text(g_gens[idx].c) + "] first/second call in a fresh process, alone and after 6 prefaces"; };
    R.add(s);
    R.require("fresh_process_encodes", 1000);
  }
  R.require("encodes_in_histories", 1000);
  R.require("decodes_in_histories", 100);
  R.require("allocator_answer_runs", 1000);
  R.require("child_process_pairs", 3);
  return R.main();
}
