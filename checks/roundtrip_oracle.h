// C01 / C09 oracle: encode a GeomDef with an EncCfg through the real encoder,
// decode the bytes with the real decoder and compare with the reference
// geometry model.
#ifndef VERIF_CHECKS_ROUNDTRIP_ORACLE_H_
#define VERIF_CHECKS_ROUNDTRIP_ORACLE_H_

#include "checks/geom_spaces.h"
#include "draco/compression/attributes/normal_compression_utils.h"
#include "mc/alloc_env_decl.h"

namespace rt {

using namespace mcg;

struct Declared {  // stream-declared transform of one attribute (by unique id)
  int kind = 0;    // 0 none, 1 quantization, 2 octahedron
  int bits = 0;
  std::vector<float> min;
  float range = 0;
};

// Reads the transform parameters the stream declares, by decoding with every
// attribute transform skipped. Attributes are matched by *position* with the
// ordinary decode (same stream, same decoder, same order) and keyed by the
// unique id of the ordinary decode.
inline bool declared_transforms(const Bytes &bytes, const PointCloud &normal, std::map<uint32_t, Declared> *out, std::string *err) {
  DecResult sk = decode(bytes, {GeometryAttribute::POSITION, GeometryAttribute::NORMAL, GeometryAttribute::COLOR,
                                GeometryAttribute::TEX_COORD, GeometryAttribute::GENERIC});
  if (!sk.ok) {
    *err = "skip-transform decode failed: " + sk.error;
    return false;
  }
  if (sk.pc->num_attributes() != normal.num_attributes()) {
    *err = "skip-transform decode has a different attribute count";
    return false;
  }
  for (int i = 0; i < sk.pc->num_attributes(); ++i) {
    const PointAttribute *a = sk.pc->attribute(i);
    Declared d;
    const AttributeTransformData *td = a->GetAttributeTransformData();
    if (td && td->transform_type() == ATTRIBUTE_QUANTIZATION_TRANSFORM) {
      AttributeQuantizationTransform t;
      if (!t.InitFromAttribute(*a)) {
        *err = "cannot read quantization transform";
        return false;
      }
      d.kind = 1;
      d.bits = t.quantization_bits();
      d.min = t.min_values();
      d.range = t.range();
    } else if (td && td->transform_type() == ATTRIBUTE_OCTAHEDRON_TRANSFORM) {
      AttributeOctahedronTransform t;
      if (!t.InitFromAttribute(*a)) {
        *err = "cannot read octahedron transform";
        return false;
      }
      d.kind = 2;
      d.bits = t.quantization_bits();
    }
    (*out)[normal.attribute(i)->unique_id()] = d;
  }
  return true;
}

// Reference quantization (mirrors the documented formula, float arithmetic).
inline float ref_quant_dequant(float v, float min, float range, int bits) {
  const int32_t max_q = (1u << bits) - 1;
  const float inverse_delta = static_cast<float>(max_q) / range;
  float t = (v - min);
  t *= inverse_delta;
  const int32_t q = static_cast<int32_t>(floor(t + 0.5f));
  const float delta = range / static_cast<float>(max_q);
  float r = static_cast<float>(q) * delta;
  return r + min;
}

// Source geometry with every quantized attribute replaced by "exactly the
// declared quantization of the original value".
inline GeomDef expected_geometry(const GeomDef &g, const std::map<uint32_t, Declared> &decl) {
  GeomDef e = g;
  for (auto &a : e.atts) {
    auto it = decl.find(a.uid);
    if (it == decl.end() || it->second.kind == 0 || a.dt != DT_FLOAT32) continue;
    const Declared &d = it->second;
    for (auto &entry : a.entries) {
      std::vector<float> v(a.nc);
      memcpy(v.data(), entry.data(), 4 * a.nc);
      if (d.kind == 1) {
        for (int c = 0; c < a.nc; ++c) v[c] = ref_quant_dequant(v[c], d.min[c], d.range, d.bits);
      } else if (d.kind == 2 && a.nc == 3) {
        OctahedronToolBox tb;
        tb.SetQuantizationBits(d.bits);
        int32_t s, t;
        tb.FloatVectorToQuantizedOctahedralCoords(v.data(), &s, &t);
        tb.QuantizedOctahedralCoordsToUnitVector(s, t, v.data());
      }
      memcpy(entry.data(), v.data(), 4 * a.nc);
    }
  }
  return e;
}

struct Result {
  bool encoded = false;
  bool decoded = false;
  Bytes bytes;
  int stream_method = -1;
};

// klass: input-class tag appended to failure signatures ("" for plain inputs).
inline Result check_roundtrip(const GeomDef &g, const EncCfg &cfg, mc::Ctx &ctx, const std::string &klass, bool check_values,
                              bool check_counts) {
  Result R;
  auto sig = [&](const std::string &s) { return klass.empty() ? s : s + "|" + klass; };
  auto ctxt = [&]() { return text(g) + " " + text(cfg); };
  std::unique_ptr<Mesh> mesh;
  std::unique_ptr<PointCloud> cloud;
  if (g.is_mesh) mesh = build_mesh(g);
  else cloud = build_cloud(g);
  const PointCloud &src = g.is_mesh ? *mesh : *cloud;
  EncCfg c = cfg;
  if (check_counts) c.track = true;
  // C09: a draco::Encoder object is long-lived; what it reports must describe the LAST encode, also after it encoded a mesh before
  if (check_counts && c.use_plain_encoder) c.preface_mesh_encode = true;
  EncResult enc;
  {
    // A single request above the harness's allocation cap (mc/alloc_env.h) is an
    // answer of *this environment*, not a defect of the encoder: count it.
    const uint64_t refused_before = mc::alloc_env().refused;
    try {
      enc = encode(g, src, mesh.get(), c);
    } catch (const std::bad_alloc &) {
      if (mc::alloc_env().refused > refused_before) {
        ctx.count("encoder_request_above_harness_cap");
        return R;
      }
      throw;
    }
  }
  ctx.count("encode_calls");
  if (!enc.pred_status.empty()) {
    ctx.count("prediction_scheme_refused_by_api");
    return R;
  }
  if (!enc.ok) {
    ctx.count("encode_reported_failure");
    ctx.count("encode_error:" + enc.error.substr(0, 60));
    return R;
  }
  R.encoded = true;
  R.bytes = enc.bytes;
  R.stream_method = gs::stream_method(enc.bytes);
  ctx.count("encode_ok");
  ctx.count(std::string(g.is_mesh ? "mesh" : "cloud") + "_method_" + std::to_string(R.stream_method));
  ctx.state(mc::hash_bytes(enc.bytes.data(), enc.bytes.size()));
  DecResult dec = decode(enc.bytes);
  if (!dec.ok) {
    ctx.fail(sig("decode-failed"), dec.error + " :: " + ctxt());
    return R;
  }
  R.decoded = true;
  ctx.count("decode_ok");
  const std::string bad = validate_structure(*dec.pc, dec.mesh);
  if (!bad.empty()) {
    ctx.fail(sig("decoded-structure-invalid:" + bad), ctxt());
    return R;
  }
  if (g.is_mesh != (dec.mesh != nullptr)) {
    ctx.fail(sig("geometry-type-changed"), ctxt());
    return R;
  }
  if (check_counts) {
    if (enc.num_encoded_points != dec.pc->num_points())
      ctx.fail(sig("reported-points-differ"), "reported " + std::to_string(enc.num_encoded_points) + " decoded " +
                                                  std::to_string(dec.pc->num_points()) + " :: " + ctxt());
    if (g.is_mesh && enc.num_encoded_faces != dec.mesh->num_faces())
      ctx.fail(sig("reported-faces-differ"), "reported " + std::to_string(enc.num_encoded_faces) + " decoded " +
                                                 std::to_string(dec.mesh->num_faces()) + " :: " + ctxt());
    if (!g.is_mesh && enc.num_encoded_faces != 0) ctx.fail(sig("reported-faces-nonzero-for-cloud"), ctxt());
  }
  if (!check_values) return R;
  if (dec.remaining != 0) ctx.fail(sig("stream-not-consumed-exactly"), std::to_string(dec.remaining) + " bytes left :: " + ctxt());

  // expected geometry
  bool any_q = false;
  for (size_t i = 0; i < g.atts.size(); ++i)
    if (i < cfg.qbits.size() && cfg.qbits[i] > 0 && g.atts[i].dt == DT_FLOAT32) any_q = true;
  GeomDef expected = g;
  if (any_q) {
    std::map<uint32_t, Declared> decl;
    std::string err;
    if (!declared_transforms(enc.bytes, *dec.pc, &decl, &err)) {
      ctx.fail(sig("skip-transform-decode-failed"), err + " :: " + ctxt());
      return R;
    }
    expected = expected_geometry(g, decl);
    ctx.count("cases_with_quantized_attribute");
  }
  RefGeom want, got = ref_of(*dec.pc, dec.mesh);
  {
    std::unique_ptr<Mesh> em;
    std::unique_ptr<PointCloud> ec;
    if (g.is_mesh) {
      em = build_mesh(expected);
      want = ref_of(*em, em.get());
    } else {
      ec = build_cloud(expected);
      want = ref_of(*ec, nullptr);
    }
  }
  if (want.atts != got.atts) {
    std::string d = "want";
    for (auto &a : want.atts) d += " {uid " + std::to_string(a.uid) + " type " + std::to_string(a.type) + " dt " + std::to_string(a.dt) + " nc " + std::to_string(a.nc) + "}";
    d += " got";
    for (auto &a : got.atts) d += " {uid " + std::to_string(a.uid) + " type " + std::to_string(a.type) + " dt " + std::to_string(a.dt) + " nc " + std::to_string(a.nc) + "}";
    ctx.fail(sig("attribute-set-differs"), d + " :: " + ctxt());
    return R;
  }
  if (g.is_mesh) {
    if (R.stream_method == MESH_SEQUENTIAL_ENCODING) {
      // order of points and faces is kept
      bool same = got.points == want.points && dec.mesh->num_faces() == g.faces.size();
      if (same)
        for (size_t f = 0; f < g.faces.size(); ++f)
          for (int k = 0; k < 3; ++k) same = same && (int)dec.mesh->face(FaceIndex((uint32_t)f))[k].value() == g.faces[f][k];
      if (!same) ctx.fail(sig("sequential-mesh-differs"), ctxt());
    } else {
      // Edgebreaker: T_nondeg ⊆ T_decoded ⊆ T_source as multisets
      std::vector<std::string> nondeg;
      for (size_t i = 0; i < want.tris.size(); ++i)
        if (!want.tri_pos_degenerate[i]) nondeg.push_back(want.tris[i]);
      auto Tsrc = multiset_of(want.tris), Tdec = multiset_of(got.tris), Tnd = multiset_of(nondeg);
      if (!multiset_included(Tdec, Tsrc)) ctx.fail(sig("edgebreaker-decoded-triangle-not-in-source"), ctxt());
      else if (!multiset_included(Tnd, Tdec)) ctx.fail(sig("edgebreaker-lost-nondegenerate-triangle"), ctxt());
      if (nondeg.size() != want.tris.size()) ctx.count("eb_cases_with_position_degenerate_face");
      if (got.tris.size() != nondeg.size()) ctx.count("eb_cases_keeping_position_degenerate_face");
    }
  } else {
    if (R.stream_method == POINT_CLOUD_SEQUENTIAL_ENCODING) {
      if (got.points != want.points) ctx.fail(sig("sequential-cloud-differs"), ctxt());
    } else {
      if (multiset_of(got.points) != multiset_of(want.points)) ctx.fail(sig("kdtree-cloud-differs"), ctxt());
    }
  }
  return R;
}

// ---------------------------------------------------------------- C07 end to end
// Encodes |g| (which must carry a float3 NORMAL attribute with qbits > 0) and
// checks the property's statement on every decoded normal: finite, unit length
// within 1e-6, angle to the source direction <= 3*(2/(2^q-2)) + 2e-6. Decoded
// points are matched to source points through their position (the position
// attribute must be distinct per vertex); at a vertex with several normals
// (seams) each decoded normal must be within the bound of one of the source
// normals of that vertex and vice versa.
inline void check_normals_end_to_end(const GeomDef &g, const EncCfg &cfg, int normal_att, int q, mc::Ctx &ctx) {
  std::unique_ptr<Mesh> mesh;
  std::unique_ptr<PointCloud> cloud;
  if (g.is_mesh) mesh = build_mesh(g);
  else cloud = build_cloud(g);
  const PointCloud &src = g.is_mesh ? *mesh : *cloud;
  EncResult enc = encode(g, src, mesh.get(), cfg);
  ctx.count("encode_calls");
  if (!enc.ok || !enc.pred_status.empty()) {
    ctx.count("encode_reported_failure");
    return;
  }
  DecResult dec = decode(enc.bytes);
  if (!dec.ok) {
    ctx.count("decode_failed_(C01_matter)");
    return;
  }
  ctx.count("decode_ok");
  ctx.state(mc::hash_bytes(enc.bytes.data(), enc.bytes.size()));
  const PointAttribute *dn = dec.pc->GetAttributeByUniqueId(g.atts[normal_att].uid);
  const PointAttribute *dp = dec.pc->GetNamedAttribute(GeometryAttribute::POSITION);
  const PointAttribute *sn = src.GetAttributeByUniqueId(g.atts[normal_att].uid);
  const PointAttribute *sp = src.GetNamedAttribute(GeometryAttribute::POSITION);
  const std::string ctxt = text(g) + " " + text(cfg);
  if (!dn || !dp || dn->data_type() != DT_FLOAT32 || dn->num_components() != 3) {
    ctx.fail("e2e:decoded-normal-attribute-missing-or-wrong-shape", ctxt);
    return;
  }
  const long double bound = 3.0L * (2.0L / (powl(2.0L, q) - 2.0L)) + 2e-6L;
  auto angle = [](const float *a, const float *b) {
    long double x[3] = {a[0], a[1], a[2]}, y[3] = {b[0], b[1], b[2]};
    const long double mx = std::max(fabsl(x[0]), std::max(fabsl(x[1]), fabsl(x[2])));
    const long double my = std::max(fabsl(y[0]), std::max(fabsl(y[1]), fabsl(y[2])));
    for (int k = 0; k < 3; ++k) {
      x[k] /= mx;
      y[k] /= my;
    }
    const long double cx = x[1] * y[2] - x[2] * y[1], cy = x[2] * y[0] - x[0] * y[2], cz = x[0] * y[1] - x[1] * y[0];
    return atan2l(sqrtl(cx * cx + cy * cy + cz * cz), x[0] * y[0] + x[1] * y[1] + x[2] * y[2]);
  };
  auto posv = [](const PointAttribute *a, PointIndex p, float *out) {
    if (a->data_type() == DT_FLOAT32) a->GetMappedValue(p, out);
    else {
      int32_t v[3];
      a->ConvertValue<int32_t>(a->mapped_index(p), 3, v);
      for (int k = 0; k < 3; ++k) out[k] = (float)v[k];
    }
  };
  std::vector<bool> source_covered(src.num_points(), false);
  for (PointIndex p(0); p < dec.pc->num_points(); ++p) {
    float n[3], pp[3];
    dn->GetMappedValue(p, n);
    posv(dp, p, pp);
    if (!std::isfinite(n[0]) || !std::isfinite(n[1]) || !std::isfinite(n[2])) {
      ctx.fail("e2e:decoded-normal-not-finite", ctxt);
      return;
    }
    const long double len = sqrtl((long double)n[0] * n[0] + (long double)n[1] * n[1] + (long double)n[2] * n[2]);
    if (fabsl(len - 1.0L) > 1e-6L) {
      ctx.fail("e2e:decoded-normal-not-unit-length", ctxt);
      return;
    }
    long double best = 1e9L;
    for (PointIndex s(0); s < src.num_points(); ++s) {
      float sp3[3], sn3[3];
      posv(sp, s, sp3);
      if (fabsf(sp3[0] - pp[0]) > 2e-3f || fabsf(sp3[1] - pp[1]) > 2e-3f || fabsf(sp3[2] - pp[2]) > 2e-3f) continue;
      sn->GetMappedValue(s, sn3);
      const long double a = angle(sn3, n);
      if (a <= bound) source_covered[s.value()] = true;
      best = std::min(best, a);
    }
    ctx.count("e2e_normals_compared");
    if (best > bound) {
      char b[200];
      snprintf(b, sizeof b, "decoded normal (%.9g,%.9g,%.9g) at point %u: smallest angle to a source normal of that vertex %.6Lg rad > bound %.6Lg rad (q=%d) :: ",
               n[0], n[1], n[2], p.value(), best, bound, q);
      ctx.fail(best > 1e8L ? "e2e:decoded-point-matches-no-source-vertex" : "e2e:angle-exceeds-bound", b + ctxt);
      return;
    }
  }
  // every source normal that the decoder could keep (its point is used by a face, or the geometry is a cloud / sequential) is represented
  if (!g.is_mesh || gs::stream_method(enc.bytes) == MESH_SEQUENTIAL_ENCODING)
    for (size_t i = 0; i < source_covered.size(); ++i)
      if (!source_covered[i]) {
        ctx.fail("e2e:source-normal-not-represented", ctxt);
        return;
      }
}

}  // namespace rt

#endif  // VERIF_CHECKS_ROUNDTRIP_ORACLE_H_
