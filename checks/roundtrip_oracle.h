// C01 / C09 oracle: encode a GeomDef with an EncCfg through the real encoder,
// decode the bytes with the real decoder and compare with the reference
// geometry model.
#ifndef VERIF_CHECKS_ROUNDTRIP_ORACLE_H_
#define VERIF_CHECKS_ROUNDTRIP_ORACLE_H_

#include "checks/geom_spaces.h"
#include "draco/compression/attributes/normal_compression_utils.h"
#include "mc/alloc_env_decl.h"

namespace rt {

using namespace mcg;

struct Declared {  // stream-declared transform of one attribute (by unique id)
  int kind = 0;    // 0 none, 1 quantization, 2 octahedron
  int bits = 0;
  std::vector<float> min;
  float range = 0;
};

// Reads the transform parameters the stream declares, by decoding with every
// attribute transform skipped. Attributes are matched by *position* with the
// ordinary decode (same stream, same decoder, same order) and keyed by the
// unique id of the ordinary decode.
inline bool declared_transforms(const Bytes &bytes, const PointCloud &normal, std::map<uint32_t, Declared> *out, std::string *err) {
  DecResult sk = decode(bytes, {GeometryAttribute::POSITION, GeometryAttribute::NORMAL, GeometryAttribute::COLOR,
                                GeometryAttribute::TEX_COORD, GeometryAttribute::GENERIC});
  if (!sk.ok) {
    *err = "skip-transform decode failed: " + sk.error;
    return false;
  }
  if (sk.pc->num_attributes() != normal.num_attributes()) {
    *err = "skip-transform decode has a different attribute count";
    return false;
  }
  for (int i = 0; i < sk.pc->num_attributes(); ++i) {
    const PointAttribute *a = sk.pc->attribute(i);
    Declared d;
    const AttributeTransformData *td = a->GetAttributeTransformData();
    if (td && td->transform_type() == ATTRIBUTE_QUANTIZATION_TRANSFORM) {
      AttributeQuantizationTransform t;
      if (!t.InitFromAttribute(*a)) {
        *err = "cannot read quantization transform";
        return false;
      }
      d.kind = 1;
      d.bits = t.quantization_bits();
      d.min = t.min_values();
      d.range = t.range();
    } else if (td && td->transform_type() == ATTRIBUTE_OCTAHEDRON_TRANSFORM) {
      AttributeOctahedronTransform t;
      if (!t.InitFromAttribute(*a)) {
        *err = "cannot read octahedron transform";
        return false;
      }
      d.kind = 2;
      d.bits = t.quantization_bits();
    }
    (*out)[normal.attribute(i)->unique_id()] = d;
  }
  return true;
}

// Reference quantization (mirrors the documented formula, float arithmetic).
inline float ref_quant_dequant(float v, float min, float range, int bits) {
  const int32_t max_q = (1u << bits) - 1;
  const float inverse_delta = static_cast<float>(max_q) / range;
  float t = (v - min);
  t *= inverse_delta;
  const int32_t q = static_cast<int32_t>(floor(t + 0.5f));
  const float delta = range / static_cast<float>(max_q);
  float r = static_cast<float>(q) * delta;
  return r + min;
}

// Source geometry with every quantized attribute replaced by "exactly the
// declared quantization of the original value".
inline GeomDef expected_geometry(const GeomDef &g, const std::map<uint32_t, Declared> &decl) {
  GeomDef e = g;
  for (auto &a : e.atts) {
    auto it = decl.find(a.uid);
    if (it == decl.end() || it->second.kind == 0 || a.dt != DT_FLOAT32) continue;
    const Declared &d = it->second;
    for (auto &entry : a.entries) {
      std::vector<float> v(a.nc);
      memcpy(v.data(), entry.data(), 4 * a.nc);
      if (d.kind == 1) {
        for (int c = 0; c < a.nc; ++c) v[c] = ref_quant_dequant(v[c], d.min[c], d.range, d.bits);
      } else if (d.kind == 2 && a.nc == 3) {
        OctahedronToolBox tb;
        tb.SetQuantizationBits(d.bits);
        int32_t s, t;
        tb.FloatVectorToQuantizedOctahedralCoords(v.data(), &s, &t);
        tb.QuantizedOctahedralCoordsToUnitVector(s, t, v.data());
      }
      memcpy(entry.data(), v.data(), 4 * a.nc);
    }
  }
  return e;
}

struct Result {
  bool encoded = false;
  bool decoded = false;
  Bytes bytes;
  int stream_method = -1;
};

// klass: input-class tag appended to failure signatures ("" for plain inputs).
inline Result check_roundtrip(const GeomDef &g, const EncCfg &cfg, mc::Ctx &ctx, const std::string &klass, bool check_values,
                              bool check_counts) {
  Result R;
  auto sig = [&](const std::string &s) { return klass.empty() ? s : s + "|" + klass; };
  auto ctxt = [&]() { return text(g) + " " + text(cfg); };
  std::unique_ptr<Mesh> mesh;
  std::unique_ptr<PointCloud> cloud;
  if (g.is_mesh) mesh = build_mesh(g);
  else cloud = build_cloud(g);
  const PointCloud &src = g.is_mesh ? *mesh : *cloud;
  EncCfg c = cfg;
  if (check_counts) c.track = true;
  EncResult enc;
  {
    // A single request above the harness's allocation cap (mc/alloc_env.h) is an
    // answer of *this environment*, not a defect of the encoder: count it.
    const uint64_t refused_before = mc::alloc_env().refused;
    try {
      enc = encode(g, src, mesh.get(), c);
    } catch (const std::bad_alloc &) {
      if (mc::alloc_env().refused > refused_before) {
        ctx.count("encoder_request_above_harness_cap");
        return R;
      }
      throw;
    }
  }
  ctx.count("encode_calls");
  if (!enc.pred_status.empty()) {
    ctx.count("prediction_scheme_refused_by_api");
    return R;
  }
  if (!enc.ok) {
    ctx.count("encode_reported_failure");
    ctx.count("encode_error:" + enc.error.substr(0, 60));
    return R;
  }
  R.encoded = true;
  R.bytes = enc.bytes;
  R.stream_method = gs::stream_method(enc.bytes);
  ctx.count("encode_ok");
  ctx.count(std::string(g.is_mesh ? "mesh" : "cloud") + "_method_" + std::to_string(R.stream_method));
  ctx.state(mc::hash_bytes(enc.bytes.data(), enc.bytes.size()));
  DecResult dec = decode(enc.bytes);
  if (!dec.ok) {
    ctx.fail(sig("decode-failed"), dec.error + " :: " + ctxt());
    return R;
  }
  R.decoded = true;
  ctx.count("decode_ok");
  const std::string bad = validate_structure(*dec.pc, dec.mesh);
  if (!bad.empty()) {
    ctx.fail(sig("decoded-structure-invalid:" + bad), ctxt());
    return R;
  }
  if (g.is_mesh != (dec.mesh != nullptr)) {
    ctx.fail(sig("geometry-type-changed"), ctxt());
    return R;
  }
  if (check_counts) {
    if (enc.num_encoded_points != dec.pc->num_points())
      ctx.fail(sig("reported-points-differ"), "reported " + std::to_string(enc.num_encoded_points) + " decoded " +
                                                  std::to_string(dec.pc->num_points()) + " :: " + ctxt());
    if (g.is_mesh && enc.num_encoded_faces != dec.mesh->num_faces())
      ctx.fail(sig("reported-faces-differ"), "reported " + std::to_string(enc.num_encoded_faces) + " decoded " +
                                                 std::to_string(dec.mesh->num_faces()) + " :: " + ctxt());
    if (!g.is_mesh && enc.num_encoded_faces != 0) ctx.fail(sig("reported-faces-nonzero-for-cloud"), ctxt());
  }
  if (!check_values) return R;
  if (dec.remaining != 0) ctx.fail(sig("stream-not-consumed-exactly"), std::to_string(dec.remaining) + " bytes left :: " + ctxt());

  // expected geometry
  bool any_q = false;
  for (size_t i = 0; i < g.atts.size(); ++i)
    if (i < cfg.qbits.size() && cfg.qbits[i] > 0 && g.atts[i].dt == DT_FLOAT32) any_q = true;
  GeomDef expected = g;
  if (any_q) {
    std::map<uint32_t, Declared> decl;
    std::string err;
    if (!declared_transforms(enc.bytes, *dec.pc, &decl, &err)) {
      ctx.fail(sig("skip-transform-decode-failed"), err + " :: " + ctxt());
      return R;
    }
    expected = expected_geometry(g, decl);
    ctx.count("cases_with_quantized_attribute");
  }
  RefGeom want, got = ref_of(*dec.pc, dec.mesh);
  {
    std::unique_ptr<Mesh> em;
    std::unique_ptr<PointCloud> ec;
    if (g.is_mesh) {
      em = build_mesh(expected);
      want = ref_of(*em, em.get());
    } else {
      ec = build_cloud(expected);
      want = ref_of(*ec, nullptr);
    }
  }
  if (want.atts != got.atts) {
    std::string d = "want";
    for (auto &a : want.atts) d += " {uid " + std::to_string(a.uid) + " type " + std::to_string(a.type) + " dt " + std::to_string(a.dt) + " nc " + std::to_string(a.nc) + "}";
    d += " got";
    for (auto &a : got.atts) d += " {uid " + std::to_string(a.uid) + " type " + std::to_string(a.type) + " dt " + std::to_string(a.dt) + " nc " + std::to_string(a.nc) + "}";
    ctx.fail(sig("attribute-set-differs"), d + " :: " + ctxt());
    return R;
  }
  if (g.is_mesh) {
    if (R.stream_method == MESH_SEQUENTIAL_ENCODING) {
      // order of points and faces is kept
      bool same = got.points == want.points && dec.mesh->num_faces() == g.faces.size();
      if (same)
        for (size_t f = 0; f < g.faces.size(); ++f)
          for (int k = 0; k < 3; ++k) same = same && (int)dec.mesh->face(FaceIndex((uint32_t)f))[k].value() == g.faces[f][k];
      if (!same) ctx.fail(sig("sequential-mesh-differs"), ctxt());
    } else {
      // Edgebreaker: T_nondeg ⊆ T_decoded ⊆ T_source as multisets
      std::vector<std::string> nondeg;
      for (size_t i = 0; i < want.tris.size(); ++i)
        if (!want.tri_pos_degenerate[i]) nondeg.push_back(want.tris[i]);
      auto Tsrc = multiset_of(want.tris), Tdec = multiset_of(got.tris), Tnd = multiset_of(nondeg);
      if (!multiset_included(Tdec, Tsrc)) ctx.fail(sig("edgebreaker-decoded-triangle-not-in-source"), ctxt());
      else if (!multiset_included(Tnd, Tdec)) ctx.fail(sig("edgebreaker-lost-nondegenerate-triangle"), ctxt());
      if (nondeg.size() != want.tris.size()) ctx.count("eb_cases_with_position_degenerate_face");
      if (got.tris.size() != nondeg.size()) ctx.count("eb_cases_keeping_position_degenerate_face");
    }
  } else {
    if (R.stream_method == POINT_CLOUD_SEQUENTIAL_ENCODING) {
      if (got.points != want.points) ctx.fail(sig("sequential-cloud-differs"), ctxt());
    } else {
      if (multiset_of(got.points) != multiset_of(want.points)) ctx.fail(sig("kdtree-cloud-differs"), ctxt());
    }
  }
  return R;
}

}  // namespace rt

#endif  // VERIF_CHECKS_ROUNDTRIP_ORACLE_H_
