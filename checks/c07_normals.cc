// C07 (unit level): quantized normals decode to unit vectors within a bounded
// angle. OctahedronToolBox + AttributeOctahedronTransform.
//
// For every enumerated float vector v: draco's own encoder path produces
// octahedral coordinates (s,t) and draco's decoder path a float vector n.
//   * 0 <= s,t <= 2^q-1
//   * v zero-length or denormal (all components zero/subnormal): n has no NaN
//   * otherwise: n finite, | |n|-1 | <= 1e-6,
//                angle(v, n) <= 3*(2/(2^q-2)) + 2e-6 rad
// Directions are produced by the harness's own octahedral un-mapping (double).
//
// The end-to-end part (through the attribute encoders) is a separate part of
// the registry entry and is not in this file.
#include <array>
#include <cfloat>
#include <cmath>
#include <memory>
#include <set>

#include "draco/attributes/attribute_octahedron_transform.h"
#include "draco/attributes/point_attribute.h"
#include "draco/compression/attributes/normal_compression_utils.h"
#include "draco/compression/config/compression_shared.h"
#include "draco/core/decoder_buffer.h"
#include "draco/core/encoder_buffer.h"
#include "mc/runner.h"

using namespace draco;

namespace {

std::string variant_tag;  // max-counters must not be summed over the parts

std::string q2(int q) {
  char b[8];
  snprintf(b, sizeof b, "%02d", q);
  return b;
}

// ------------------------------------------------------------ reference side

// Real-valued square position (in cells) -> direction, unit length, double.
void unmap(int q, double s, double t, double out[3]) {
  const double mx = double((1u << q) - 2), c = double(((1u << q) - 2) / 2);
  s = std::min(std::max(s, 0.0), mx);
  t = std::min(std::max(t, 0.0), mx);
  const double u = (s - c) / c, v = (t - c) / c;
  double x = 1.0 - std::fabs(u) - std::fabs(v), y = u, z = v;
  if (x < 0) {
    y = (u >= 0 ? 1.0 : -1.0) * (1.0 - std::fabs(v));
    z = (v >= 0 ? 1.0 : -1.0) * (1.0 - std::fabs(u));
  }
  const double n = std::sqrt(x * x + y * y + z * z);
  out[0] = x / n;
  out[1] = y / n;
  out[2] = z / n;
}

bool canonical(int q, int32_t s, int32_t t) {
  const int32_t mx = (1 << q) - 2, c = mx / 2;
  if ((s == 0 && t == 0) || (s == 0 && t == mx) || (s == mx && t == 0)) return false;
  if (s == 0 && t > c) return false;
  if (s == mx && t < c) return false;
  if (t == mx && s < c) return false;
  if (t == 0 && s > c) return false;
  return true;
}

long double bound_rad(int q) { return 3.0L * (2.0L / ((long double)((1u << q) - 2))) + 2e-6L; }

enum LenClass { kZeroOrDenormal = 0, kAbsSumBelowThreshold = 1, kRegular = 2 };
const char *kLenName[3] = {"zero-or-denormal", "abs-sum<=1e-6", "abs-sum>1e-6"};

LenClass classify(const float v[3]) {
  const float m = std::max(std::fabs(v[0]), std::max(std::fabs(v[1]), std::fabs(v[2])));
  if (m < FLT_MIN) return kZeroOrDenormal;
  const double a = std::fabs(double(v[0])) + std::fabs(double(v[1])) + std::fabs(double(v[2]));
  return a <= 1e-6 ? kAbsSumBelowThreshold : kRegular;
}

std::string showv(const float v[3]) {
  char b[160];
  uint32_t u[3];
  memcpy(u, v, 12);
  snprintf(b, sizeof b, "(%.9g, %.9g, %.9g)[0x%08x 0x%08x 0x%08x]", v[0], v[1], v[2], u[0], u[1], u[2]);
  return b;
}

struct Local {
  int q = 0;
  uint64_t vectors = 0, by_class[3] = {0, 0, 0}, left_hemisphere = 0, on_border = 0, noncanonical = 0, lossy = 0;
  long double max_ratio = 0;  // regular vectors only
  int fails = 0;
  std::map<std::string, uint64_t> suppressed;  // failures beyond the first 32 of this index: counted, not rendered
  void fail(mc::Ctx &ctx, const std::string &sig, const std::function<std::string()> &detail) {
    if (fails++ < 32) ctx.fail(sig, detail());
    else suppressed[sig]++;
  }
  void flush(mc::Ctx &ctx) {
    for (auto &kv : suppressed) ctx.count("fail:" + kv.first, kv.second);
    ctx.count("vectors", vectors);
    for (int k = 0; k < 3; ++k) ctx.count(std::string("vectors:") + kLenName[k], by_class[k]);
    ctx.count("emitted_left_hemisphere(outside diamond)", left_hemisphere);
    ctx.count("emitted_on_square_border", on_border);
    ctx.count("info:emitted_coordinates_not_canonical", noncanonical);
    ctx.count("decoded_direction_differs_from_input", lossy);
    ctx.count_max("max_angle_over_bound_ppm_q" + q2(q) + variant_tag, (uint64_t)std::ceil((double)(max_ratio * 1e6L)));
    ctx.count_max("max_angle_over_bound_ppm_all_q" + variant_tag, (uint64_t)std::ceil((double)(max_ratio * 1e6L)));
    ctx.sh->distinct_n[1].fetch_add(lossy, std::memory_order_relaxed);
  }
};

const double kOff[3] = {-0.499, 0.0, 0.499};  // centre, edge mid-points, corners pulled in by 1e-3 cell
const double kLen[4] = {1.0, 1e-30, 1e30, 1e-41};
const char *kLenLabel[4] = {"1", "1e-30", "1e30", "1e-41(denormal)"};
const int kPerPoint = 36;

// Lazy description of where a vector came from (only rendered on failure).
struct Where {
  const char *text = "";
  int32_t s = 0, t = 0;
  int j = -1;
  std::string str() const {
    if (j < 0) return text;
    char b[200];
    snprintf(b, sizeof b, "%s pre-image of grid point (%d,%d) offset (%+.3f,%+.3f) cells, length %s;", text, s, t,
             kOff[(j / 4) % 3], kOff[(j / 4) / 3], kLenLabel[j % 4]);
    return b;
  }
};

// The oracle. |v| input as given to draco, (s,t) emitted coordinates, |n| decoded.
void judge(int q, const float v[3], int32_t s, int32_t t, const float n[3], const Where &where, mc::Ctx &ctx, Local &L,
           bool hash_state) {
  const LenClass lc = classify(v);
  L.vectors++;
  L.by_class[lc]++;
  const int32_t maxq = (1 << q) - 1, mx = maxq - 1, c = mx / 2;
  auto detail = [&]() {
    char b[200];
    snprintf(b, sizeof b, " q=%d coords (%d,%d) decoded ", q, s, t);
    return where.str() + " input " + showv(v) + b + showv(n);
  };
  const std::string cls = std::string("|") + kLenName[lc];
  if (s < 0 || t < 0 || s > maxq || t > maxq) {
    L.fail(ctx, "coords-outside-q-bit-square" + cls, detail);
    return;
  }
  if (s == 0 || t == 0 || s == mx || t == mx) L.on_border++;
  if (std::abs(s - c) + std::abs(t - c) > c) L.left_hemisphere++;
  if (s > mx || t > mx || !canonical(q, s, t)) L.noncanonical++;
  if (hash_state) ctx.state(mc::hash_combine(q, (uint64_t(uint32_t(s)) << 32) | uint32_t(t)));
  if (std::isnan(n[0]) || std::isnan(n[1]) || std::isnan(n[2])) {
    L.fail(ctx, "decoded-nan" + cls, detail);
    return;
  }
  if (lc == kZeroOrDenormal) return;
  if (!std::isfinite(n[0]) || !std::isfinite(n[1]) || !std::isfinite(n[2])) {
    L.fail(ctx, "decoded-not-finite" + cls, detail);
    return;
  }
  const long double nx = n[0], ny = n[1], nz = n[2];
  const long double nlen = sqrtl(nx * nx + ny * ny + nz * nz);
  if (fabsl(nlen - 1.0L) > 1e-6L) {
    L.fail(ctx, "decoded-not-unit-length" + cls, [&]() { return detail() + " length " + std::to_string((double)nlen); });
    return;
  }
  // original direction: normalise in long double (scale first: huge/tiny lengths)
  long double a[3] = {v[0], v[1], v[2]};
  const long double m = std::max(fabsl(a[0]), std::max(fabsl(a[1]), fabsl(a[2])));
  for (int k = 0; k < 3; ++k) a[k] /= m;
  const long double al = sqrtl(a[0] * a[0] + a[1] * a[1] + a[2] * a[2]);
  for (int k = 0; k < 3; ++k) a[k] /= al;
  const long double b[3] = {nx / nlen, ny / nlen, nz / nlen};
  const long double cx = a[1] * b[2] - a[2] * b[1], cy = a[2] * b[0] - a[0] * b[2], cz = a[0] * b[1] - a[1] * b[0];
  const long double ang = atan2l(sqrtl(cx * cx + cy * cy + cz * cz), a[0] * b[0] + a[1] * b[1] + a[2] * b[2]);
  if (ang > 0) L.lossy++;
  const long double ratio = ang / bound_rad(q);
  if (lc == kRegular && ratio > L.max_ratio) L.max_ratio = ratio;
  if (ang > bound_rad(q)) {
    L.fail(ctx, "angle-exceeds-bound" + cls, [&]() {
      char bb[128];
      snprintf(bb, sizeof bb, " angle %.9Lg rad > bound %.9Lg rad", ang, bound_rad(q));
      return detail() + bb;
    });
  }
}

// ------------------------------------------------------------- draco side

// The path of SequentialNormalAttributeEncoder / ...Decoder on a float3
// attribute: SetParameters -> InitTransformedAttribute -> TransformAttribute;
// EncodeParameters -> DecodeParameters -> TransferToAttribute ->
// InitFromAttribute -> InverseTransformAttribute.
bool attribute_path(int q, const std::vector<float> &in, std::vector<int32_t> *coords, std::vector<float> *out,
                    std::string *err) {
  const int n = int(in.size() / 3);
  GeometryAttribute ga;
  ga.Init(GeometryAttribute::NORMAL, nullptr, 3, DT_FLOAT32, false, 12, 0);
  PointAttribute att(ga);
  att.Reset(n);
  att.SetIdentityMapping();
  memcpy(att.GetAddress(AttributeValueIndex(0)), in.data(), size_t(n) * 12);
  AttributeOctahedronTransform enc;
  enc.SetParameters(q);
  std::unique_ptr<PointAttribute> portable = enc.InitTransformedAttribute(att, n);
  if (!portable || !enc.TransformAttribute(att, {}, portable.get())) { *err = "TransformAttribute failed"; return false; }
  EncoderBuffer eb;
  if (!enc.EncodeParameters(&eb)) { *err = "EncodeParameters failed"; return false; }
  DecoderBuffer db;
  db.Init(eb.data(), eb.size());
  db.set_bitstream_version(kDracoMeshBitstreamVersion);
  AttributeOctahedronTransform dec;
  if (!dec.DecodeParameters(*portable, &db)) { *err = "DecodeParameters failed"; return false; }
  if (!dec.TransferToAttribute(portable.get())) { *err = "TransferToAttribute failed"; return false; }
  AttributeOctahedronTransform dec2;
  if (!dec2.InitFromAttribute(*portable)) { *err = "InitFromAttribute failed"; return false; }
  if (dec2.quantization_bits() != q) { *err = "quantization bits not transported"; return false; }
  PointAttribute outatt(ga);
  outatt.Reset(n);
  outatt.SetIdentityMapping();
  if (!dec2.InverseTransformAttribute(*portable, &outatt)) { *err = "InverseTransformAttribute failed"; return false; }
  coords->resize(size_t(n) * 2);
  out->resize(size_t(n) * 3);
  memcpy(coords->data(), portable->GetAddress(AttributeValueIndex(0)), size_t(n) * 8);
  memcpy(out->data(), outatt.GetAddress(AttributeValueIndex(0)), size_t(n) * 12);
  return true;
}

// 36 vectors around grid point (s,t)
void make_vectors(int q, int32_t s, int32_t t, float *dst) {
  for (int oi = 0; oi < 9; ++oi) {
    double d[3];
    unmap(q, s + kOff[oi % 3], t + kOff[oi / 3], d);
    for (int li = 0; li < 4; ++li)
      for (int k = 0; k < 3; ++k) *dst++ = float(d[k] * kLen[li]);
  }
}

Where where36(const char *text, int32_t s, int32_t t, int j) {
  Where w;
  w.text = text;
  w.s = s;
  w.t = t;
  w.j = j;
  return w;
}
Where where_text(const char *text) {
  Where w;
  w.text = text;
  return w;
}

// Direct toolbox calls on a list of grid points.
void run_points_direct(int q, const std::vector<std::pair<int32_t, int32_t>> &pts, mc::Ctx &ctx, Local &L,
                       bool hash_state) {
  OctahedronToolBox tb;
  if (!tb.SetQuantizationBits(q)) {
    ctx.fail("toolbox-rejects-quantization-bits", "q=" + std::to_string(q));
    return;
  }
  float v[kPerPoint * 3];
  for (auto &p : pts) {
    make_vectors(q, p.first, p.second, v);
    for (int j = 0; j < kPerPoint; ++j) {
      int32_t s = -1, t = -1;
      float n[3];
      tb.FloatVectorToQuantizedOctahedralCoords(v + 3 * j, &s, &t);
      tb.QuantizedOctahedralCoordsToUnitVector(s, t, n);
      judge(q, v + 3 * j, s, t, n, where36("toolbox:", p.first, p.second, j), ctx, L, hash_state);
    }
  }
}

void run_points_attribute(int q, const std::vector<std::pair<int32_t, int32_t>> &pts, mc::Ctx &ctx, Local &L) {
  std::vector<float> in(pts.size() * kPerPoint * 3), out;
  std::vector<int32_t> coords;
  for (size_t i = 0; i < pts.size(); ++i) make_vectors(q, pts[i].first, pts[i].second, &in[i * kPerPoint * 3]);
  std::string err;
  if (!attribute_path(q, in, &coords, &out, &err)) {
    ctx.fail("attribute-transform-path-failed", err + " q=" + std::to_string(q));
    return;
  }
  for (size_t i = 0; i < pts.size(); ++i)
    for (int j = 0; j < kPerPoint; ++j) {
      const size_t e = i * kPerPoint + j;
      judge(q, &in[e * 3], coords[e * 2], coords[e * 2 + 1], &out[e * 3], where36("attribute path:", pts[i].first, pts[i].second, j),
            ctx, L, true);
    }
}

// ---- spaces

// every grid point of the square, one row per index, through the attribute transform
void add_grid(mc::Runner &R, const std::string &name, int q, bool quick, bool thorough) {
  const int32_t side = (1 << q) - 1;
  mc::Space sp;
  sp.name = name;
  sp.size = side;
  sp.cases_per_index = uint64_t(side) * kPerPoint;
  sp.quick = quick;
  sp.thorough = thorough;
  sp.timeout_s = 60;
  sp.run = [=](uint64_t idx, mc::Ctx &ctx) {
    std::vector<std::pair<int32_t, int32_t>> pts;
    for (int32_t s = 0; s < side; ++s) pts.emplace_back(s, int32_t(idx));
    Local L;
    L.q = q;
    run_points_attribute(q, pts, ctx, L);
    L.flush(ctx);
  };
  sp.describe = [=](uint64_t idx) {
    return "q=" + std::to_string(q) + ": grid points (0.." + std::to_string(side - 1) + ", " + std::to_string(idx) +
           "), each with 9 sub-cell positions x lengths {1,1e-30,1e30,1e-41}, through AttributeOctahedronTransform";
  };
  sp.klass = [=](uint64_t) { return "q=" + std::to_string(q) + "|attribute-path"; };
  R.add(sp);
}

// All points within 3 cells of the border, the axes and the diamond, at
// position p along them (p = 0..max).
void band_points_at(int q, int32_t p, std::vector<std::pair<int32_t, int32_t>> &out) {
  const int32_t mx = (1 << q) - 2, c = mx / 2;
  auto add = [&](int64_t s, int64_t t) {
    if (s < 0 || t < 0 || s > mx || t > mx) return;
    out.emplace_back(int32_t(s), int32_t(t));
  };
  for (int d = 0; d <= 3; ++d) {
    add(d, p);
    add(int64_t(mx) - d, p);
    add(p, d);
    add(p, int64_t(mx) - d);
  }
  for (int d = -3; d <= 3; ++d) {
    add(int64_t(c) + d, p);
    add(p, int64_t(c) + d);
    const int64_t e = c - std::abs(p - c);
    add(p, int64_t(c) + e + d);
    add(p, int64_t(c) - e + d);
  }
}

const int kBandBlock = 128;
void add_band_literal(mc::Runner &R, const std::string &name, int q, bool quick, bool thorough) {
  const uint64_t side = (1u << q) - 1;
  mc::Space sp;
  sp.name = name;
  sp.size = (side + kBandBlock - 1) / kBandBlock;
  sp.cases_per_index = uint64_t(kBandBlock) * 44 * kPerPoint;  // upper bound: points clipped at the square are skipped
  sp.quick = quick;
  sp.thorough = thorough;
  sp.timeout_s = 60;
  sp.run = [=](uint64_t idx, mc::Ctx &ctx) {
    std::vector<std::pair<int32_t, int32_t>> pts;
    for (uint64_t p = idx * kBandBlock; p < std::min<uint64_t>(side, (idx + 1) * kBandBlock); ++p)
      band_points_at(q, int32_t(p), pts);
    Local L;
    L.q = q;
    run_points_direct(q, pts, ctx, L, false);
    L.flush(ctx);
  };
  sp.describe = [=](uint64_t idx) {
    return "q=" + std::to_string(q) + ": positions " + std::to_string(idx * kBandBlock) + ".." +
           std::to_string(std::min<uint64_t>(side, (idx + 1) * kBandBlock) - 1) +
           " along the bands (|d|<=3 cells from border, axes, diamond), 36 vectors per point, toolbox called directly";
  };
  sp.klass = [=](uint64_t) { return "q=" + std::to_string(q) + "|toolbox"; };
  R.add(sp);
}

// Bands sampled where they meet + a 64x64 lattice.
std::shared_ptr<std::vector<std::pair<int32_t, int32_t>>> band_sampled(int q) {
  const int32_t mx = (1 << q) - 2, c = mx / 2;
  std::set<int32_t> A, W, Lat;
  auto addw = [&](std::set<int32_t> &S, int64_t x) {
    if (x >= 0 && x <= mx) S.insert(int32_t(x));
  };
  for (int d = -3; d <= 3; ++d) {
    addw(A, d);
    addw(A, int64_t(c) + d);
    addw(A, int64_t(mx) + d);
    addw(W, c / 2 + d);
    addw(W, c + c / 2 + d);
  }
  for (int k = 0; k < 64; ++k) addw(Lat, int64_t(mx) * k / 63);
  for (int32_t a : A) W.insert(a);
  for (int32_t l : Lat)
    for (int d = -3; d <= 3; ++d) addw(W, int64_t(l) + d);
  std::set<std::pair<int32_t, int32_t>> pts;
  for (int32_t a : A)
    for (int32_t w : W) {
      pts.insert({a, w});
      pts.insert({w, a});
    }
  for (int32_t w : W)
    for (int d = -3; d <= 3; ++d) {
      const int64_t e = c - std::abs(w - c);
      for (int64_t t : {int64_t(c) + e + d, int64_t(c) - e + d})
        if (t >= 0 && t <= mx) {
          pts.insert({w, int32_t(t)});
          pts.insert({int32_t(t), w});
        }
    }
  for (int32_t a : Lat)
    for (int32_t b : Lat) pts.insert({a, b});
  return std::make_shared<std::vector<std::pair<int32_t, int32_t>>>(pts.begin(), pts.end());
}

const int kSampledBlock = 64;
void add_band_sampled(mc::Runner &R, const std::string &name, int q, bool quick, bool thorough) {
  auto all = band_sampled(q);
  mc::Space sp;
  sp.name = name;
  sp.size = (all->size() + kSampledBlock - 1) / kSampledBlock;
  sp.cases_per_index = uint64_t(kSampledBlock) * kPerPoint;
  sp.quick = quick;
  sp.thorough = thorough;
  sp.run = [=](uint64_t idx, mc::Ctx &ctx) {
    std::vector<std::pair<int32_t, int32_t>> pts(all->begin() + idx * kSampledBlock,
                                                 all->begin() + std::min<size_t>(all->size(), (idx + 1) * kSampledBlock));
    Local L;
    L.q = q;
    run_points_direct(q, pts, ctx, L, true);
    L.flush(ctx);
  };
  sp.describe = [=](uint64_t idx) {
    const auto &f = (*all)[idx * kSampledBlock];
    return "q=" + std::to_string(q) + ": " + std::to_string(kSampledBlock) + " band/lattice points starting at (" +
           std::to_string(f.first) + "," + std::to_string(f.second) + "), 36 vectors per point, toolbox called directly";
  };
  sp.klass = [=](uint64_t) { return "q=" + std::to_string(q) + "|toolbox"; };
  R.add(sp);
}

// Every integer vector with |x|+|y|+|z| == centre value. One x per index.
void add_intvec(mc::Runner &R, const std::string &name, int q, bool quick, bool thorough) {
  const int32_t c = ((1 << q) - 2) / 2;
  mc::Space sp;
  sp.name = name;
  sp.size = 2 * c + 1;
  sp.cases_per_index = 2 * uint64_t(c) + 1;  // average number of (y,z) per x (total 4c^2+2)
  sp.quick = quick;
  sp.thorough = thorough;
  sp.run = [=](uint64_t idx, mc::Ctx &ctx) {
    OctahedronToolBox tb;
    tb.SetQuantizationBits(q);
    Local L;
    L.q = q;
    const int32_t x = int32_t(idx) - c;
    const int32_t r = c - std::abs(x);
    uint64_t n = 0;
    for (int32_t y = -r; y <= r; ++y) {
      const int32_t zr = r - std::abs(y);
      for (int sg = 0; sg < (zr ? 2 : 1); ++sg) {
        const int32_t iv[3] = {x, y, sg ? -zr : zr};
        int32_t s = -1, t = -1;
        float nv[3];
        tb.IntegerVectorToQuantizedOctahedralCoords(iv, &s, &t);
        tb.QuantizedOctahedralCoordsToUnitVector(s, t, nv);
        const float fv[3] = {float(iv[0]), float(iv[1]), float(iv[2])};
        judge(q, fv, s, t, nv, where_text("integer vector (see input) through IntegerVectorToQuantizedOctahedralCoords;"),
              ctx, L, true);
        n++;
      }
    }
    ctx.count("integer_vectors", n);
    L.flush(ctx);
  };
  sp.describe = [=](uint64_t idx) {
    return "q=" + std::to_string(q) + ": every integer vector (" + std::to_string(int32_t(idx) - c) +
           ", y, z) with |x|+|y|+|z| = " + std::to_string(c) + " through IntegerVectorToQuantizedOctahedralCoords";
  };
  sp.klass = [=](uint64_t) { return "q=" + std::to_string(q) + "|integer-vector"; };
  R.add(sp);
}

// Zero, denormal, short (around the 1e-6 abs-sum threshold) and huge vectors in
// the 26 axis/edge/corner directions. One q per index.
std::vector<std::array<float, 3>> special_vectors() {
  std::vector<std::array<float, 3>> v;
  for (int m = 0; m < 8; ++m) v.push_back({m & 1 ? -0.f : 0.f, m & 2 ? -0.f : 0.f, m & 4 ? -0.f : 0.f});
  const float denorm[3] = {1.4e-45f, 1e-41f, 1.17549421e-38f};
  // 5e38 and 9e38: every component is a finite float32 but |x|+|y|+|z| exceeds FLT_MAX (only for directions with >= 2 non-zero components)
  const double abssum[12] = {2e-6, 1.001e-6, 0.999e-6, 1e-7, 1e-10, 1e-20, 1e-30, 3.6e-38, 1e30, 3e38, 5e38, 9e38};
  for (int a = -1; a <= 1; ++a)
    for (int b = -1; b <= 1; ++b)
      for (int c = -1; c <= 1; ++c) {
        if (!a && !b && !c) continue;
        for (float d : denorm) v.push_back({a * d, b * d, c * d});
        const double n = std::abs(a) + std::abs(b) + std::abs(c);
        for (double S : abssum) {
          if (S / n > 3.4e38) continue;  // a component would not be a finite float32
          v.push_back({float(a * S / n), float(b * S / n), float(c * S / n)});
        }
      }
  return v;
}

void add_special(mc::Runner &R, const std::string &name) {
  auto vecs = std::make_shared<std::vector<std::array<float, 3>>>(special_vectors());
  mc::Space sp;
  sp.name = name;
  sp.size = 29;
  sp.cases_per_index = 2 * vecs->size();
  sp.run = [=](uint64_t idx, mc::Ctx &ctx) {
    const int q = 2 + int(idx);
    Local L;
    L.q = q;
    OctahedronToolBox tb;
    tb.SetQuantizationBits(q);
    std::vector<float> in, out;
    std::vector<int32_t> coords;
    for (auto &v : *vecs) {
      int32_t s = -1, t = -1;
      float n[3];
      tb.FloatVectorToQuantizedOctahedralCoords(v.data(), &s, &t);
      tb.QuantizedOctahedralCoordsToUnitVector(s, t, n);
      judge(q, v.data(), s, t, n, where_text("special vector (toolbox);"), ctx, L, true);
      in.insert(in.end(), v.begin(), v.end());
    }
    std::string err;
    if (!attribute_path(q, in, &coords, &out, &err)) {
      ctx.fail("attribute-transform-path-failed", err + " q=" + std::to_string(q));
    } else {
      for (size_t e = 0; e < vecs->size(); ++e)
        judge(q, &in[e * 3], coords[e * 2], coords[e * 2 + 1], &out[e * 3], where_text("special vector (attribute path);"),
              ctx, L, true);
    }
    ctx.count("special_vectors", 2 * vecs->size());
    L.flush(ctx);
  };
  sp.describe = [=](uint64_t idx) {
    return "q=" + std::to_string(2 + idx) + ": " + std::to_string(vecs->size()) +
           " zero / denormal / short (abs sum 2e-6..3.6e-38) / huge (1e30, 3e38, and abs-sum above FLT_MAX: 5e38, 9e38) vectors in the 26 axis, edge and corner "
           "directions, toolbox and attribute path";
  };
  sp.klass = [=](uint64_t idx) { return "q=" + std::to_string(2 + idx) + "|special-vectors"; };
  R.add(sp);
}

}  // namespace

int main(int argc, char **argv) {
  mc::Runner R(argc, argv, "C07");
  R.level = "model_checking";
  const bool asan = R.flag("asan");
  variant_tag = asan ? "[asan]" : "[fast]";
  R.distinct_bits = 25;
  R.rule =
      "unit level. For q=2..8 (quick) / 2..11 (thorough) every grid point (s,t) of [0,2^q-2]^2: the 9 directions at cell "
      "centre, edge mid-points and corners (offsets 0, +-0.499 cell; directions from the harness's own octahedral "
      "un-mapping in double) x lengths {1, 1e-30, 1e30, 1e-41 (denormal)} through AttributeOctahedronTransform "
      "(encoder path + parameter transport + InverseTransformAttribute); q=9..14 (quick) / 11..20 (thorough): the same "
      "36 vectors for every grid point within 3 cells of the square border, the axes and the diamond (toolbox called "
      "directly); q=9..30: the same for the points where those bands meet (coordinates within 3 of 0,c/2,c,3c/2,max and "
      "of a 64-line lattice) plus the 64x64 lattice; every integer vector with |x|+|y|+|z| = centre for q<=9; zero, "
      "denormal, short and huge vectors in 26 directions for every q. states = distinct (q,s,t) emitted; non-trivial = "
      "input whose decoded direction differs from the input direction (angle > 0); inputs are distinct by construction";
  R.explanation =
      "stateless exhaustive enumeration on the real OctahedronToolBox / AttributeOctahedronTransform; oracle evaluated in "
      "long double: coords in [0,2^q-1]^2, decoded finite and unit within 1e-6, angle(atan2(|axb|,a.b)) <= "
      "3*(2/(2^q-2))+2e-6; for zero/denormal input only no-NaN and coords in range";
  R.assumptions = {
      "unit level: entropy coding and prediction are not in the loop (separate end-to-end part)",
      "beyond the full grids (q<=8 quick, q<=11 thorough) only band and lattice points are enumerated, not the whole grid",
      "a vector counts as denormal when all its components are zero or subnormal floats",
      "DRACO_DCHECK is compiled out (as in every shipped configuration)"};
  R.transition_counters = {"vectors"};
  if (!asan) {
    for (int q = 2; q <= 11; ++q) add_grid(R, "grid_q" + q2(q), q, q <= 8, true);
    for (int q = 9; q <= 20; ++q) add_band_literal(R, "band_q" + q2(q), q, q <= 14, q >= 11);
    for (int q = 9; q <= 30; ++q) add_band_sampled(R, "bandpts_q" + q2(q), q, true, true);
    for (int q = 2; q <= 9; ++q) add_intvec(R, "intvec_q" + q2(q), q, true, true);
    add_special(R, "a_special_vectors");  // "a_": reported first among equal signatures (smallest inputs)
  } else {
    for (int q = 2; q <= 7; ++q) add_grid(R, "asan_grid_q" + q2(q), q, q <= 6, true);
    for (int q = 9; q <= 12; ++q) add_band_literal(R, "asan_band_q" + q2(q), q, q <= 10, true);
    for (int q = 9; q <= 30; ++q) add_band_sampled(R, "asan_bandpts_q" + q2(q), q, q % 3 == 0, true);
    for (int q = 2; q <= 7; ++q) add_intvec(R, "asan_intvec_q" + q2(q), q, true, true);
    add_special(R, "asan_a_special_vectors");
  }
  R.require("vectors:zero-or-denormal", 1);
  R.require("vectors:abs-sum<=1e-6", 1);
  R.require("vectors:abs-sum>1e-6", 1);
  R.require("emitted_left_hemisphere(outside diamond)", 1);
  R.require("emitted_on_square_border", 1);
  R.require("integer_vectors", 1);
  R.require("decoded_direction_differs_from_input", 1);
  return R.main();
}
