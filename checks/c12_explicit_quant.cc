// C12: with explicit quantization (caller-supplied origin, range, bits) the
// decoded value of a coordinate depends only on that coordinate and the three
// parameters and lies on the grid origin + k*range/(2^bits-1).
//
// One case = one parameter set. Inside a case EVERY geometry of a small family
// whose vertices take coordinates from an alphabet inside the box is encoded
// with EVERY method x speed x encoder API; a table coordinate -> decoded value
// is built over all of these executions and must be a function.
#include "checks/roundtrip_oracle.h"
#include "mc/alloc_env.h"

using namespace mcg;

namespace {

struct Params {
  float origin[3];
  float range;
  int bits;
};

const float kOrigins[][3] = {{0.f, 0.f, 0.f},       {-1.f, -1.f, -1.f},          {1000.f, 1000.f, 1000.f},
                             {0.5f, -2.25f, 100.f}, {0.33333334f, 0.1234567f, 1e-7f}, {-123456.79f, 3.0000002f, 0.1f}};
const float kRanges[] = {1.f, 2.f, 1e-3f, 2.5e-7f, 1000.f, 0.3f};
const int kBits[] = {1, 2, 8, 11, 16, 30};

// coordinate alphabet inside [o, o + r]
std::vector<float> alphabet(float o, float r, int bits) {
  const double step = (double)r / (double)((1u << bits) - 1);
  std::vector<float> a = {o,
                          o + r,
                          (float)(o + (double)r * 0.5),
                          (float)(o + (double)r / 3.0),
                          (float)(o + (double)r * 0.999),
                          std::nextafter(o, o + r),
                          (float)(o + step * 0.5),   // exactly between two grid points (as far as float allows)
                          (float)(o + step * 1.49),
                          (float)(o + (double)r * 0.75)};
  for (float &v : a) {
    if (v < o) v = o;
    if (v > o + r) v = o + r;
  }
  return a;
}

struct Table {
  // (component, coordinate bits) -> decoded bits
  std::map<std::pair<int, uint32_t>, uint32_t> m;
};

uint32_t fbits(float f) {
  uint32_t u;
  memcpy(&u, &f, 4);
  return u;
}

std::vector<GeomDef> build_family(const Params &P) {
  std::vector<float> A[3];
  for (int c = 0; c < 3; ++c) A[c] = alphabet(P.origin[c], P.range, P.bits);
  // point family D: 9 "diagonal" points + 9 mixed points
  std::vector<std::array<int, 3>> D;
  for (int i = 0; i < 9; ++i) D.push_back({i, i, i});
  for (int i = 0; i < 9; ++i) D.push_back({i, (i * 2 + 1) % 9, (i * 4 + 3) % 9});
  auto pt = [&](int d) { return std::vector<float>{A[0][D[d][0]], A[1][D[d][1]], A[2][D[d][2]]}; };
  std::vector<GeomDef> geoms;
  auto pos_att = [&]() {
    AttDef a;
    a.type = GeometryAttribute::POSITION;
    a.dt = DT_FLOAT32;
    a.nc = 3;
    a.uid = 2;
    return a;
  };
  // clouds: every single point and every ordered pair of D
  for (size_t i = 0; i < D.size(); ++i) {
    GeomDef g;
    g.is_mesh = false;
    g.num_points = 1;
    AttDef a = pos_att();
    a.entries = {bytes_of(pt((int)i))};
    g.atts = {a};
    geoms.push_back(g);
    for (size_t j = 0; j < D.size(); ++j) {
      GeomDef h;
      h.is_mesh = false;
      h.num_points = 2;
      AttDef b = pos_att();
      b.entries = {bytes_of(pt((int)i)), bytes_of(pt((int)j))};
      h.atts = {b};
      geoms.push_back(h);
    }
  }
  // clouds whose point->value map is not the identity: three points sharing two values (0,0,1) and (1,0,1) for every ordered pair
  for (size_t i = 0; i < D.size(); ++i)
    for (size_t j = 0; j < D.size(); ++j) {
      if (i == j) continue;
      for (int m = 0; m < 2; ++m) {
        GeomDef h;
        h.is_mesh = false;
        h.num_points = 3;
        AttDef b = pos_att();
        b.entries = {bytes_of(pt((int)i)), bytes_of(pt((int)j))};
        b.map = m == 0 ? std::vector<int>{0, 0, 1} : std::vector<int>{1, 0, 1};
        h.atts = {b};
        geoms.push_back(h);
      }
    }
  // meshes: every triangle over the 9 diagonal points, and two triangles sharing an edge with every 4th point
  for (int i = 0; i < 9; ++i)
    for (int j = i + 1; j < 9; ++j)
      for (int k = j + 1; k < 9; ++k) {
        GeomDef g;
        g.is_mesh = true;
        g.num_points = 3;
        g.faces = {{0, 1, 2}};
        AttDef a = pos_att();
        a.entries = {bytes_of(pt(i)), bytes_of(pt(j)), bytes_of(pt(k))};
        g.atts = {a};
        geoms.push_back(g);
        GeomDef h = g;
        h.num_points = 4;
        h.faces = {{0, 1, 2}, {2, 1, 3}};
        h.atts[0].entries.push_back(bytes_of(pt(9 + (i + j + k) % 9)));
        geoms.push_back(h);
      }
  return geoms;
}

int run_param_set(const Params &P, mc::Ctx &ctx, bool expert_only) {
  int executions = 0;
  std::vector<GeomDef> geoms = build_family(P);
  Table table;
  const std::vector<float> origin(P.origin, P.origin + 3);
  char pb[160];
  snprintf(pb, sizeof pb, "origin=(%.9g,%.9g,%.9g) range=%.9g bits=%d", P.origin[0], P.origin[1], P.origin[2], P.range, P.bits);
  const std::string ptxt = pb;
  for (const GeomDef &g : geoms) {
    std::unique_ptr<Mesh> mesh;
    std::unique_ptr<PointCloud> cloud;
    if (g.is_mesh) mesh = build_mesh(g);
    else cloud = build_cloud(g);
    const PointCloud &src = g.is_mesh ? *mesh : *cloud;
    for (int method = 0; method < 2; ++method)
      for (int speed : {0, 5, 10})
        // api 0: ExpertEncoder; 1: draco::Encoder; 2: ExpertEncoder with built-in attribute compression switched off (values stored
        // raw with a width byte: the decoded value must not depend on that option either)
        for (int api : expert_only ? std::vector<int>{0, 2} : std::vector<int>{0, 1, 2}) {
          EncCfg c;
          c.method = method;
          if (g.is_mesh && method == 1) c.eb_method = speed == 0 ? MESH_EDGEBREAKER_VALENCE_ENCODING : MESH_EDGEBREAKER_STANDARD_ENCODING;
          c.speed_enc = c.speed_dec = speed;
          c.qbits = {P.bits};
          c.explicit_q[0] = {origin, P.range};
          c.use_plain_encoder = api == 1;
          c.builtin_entropy = api != 2;
          EncResult enc;
          {
            const uint64_t refused_before = mc::alloc_env().refused;
            try {
              enc = encode(g, src, mesh.get(), c);
            } catch (const std::bad_alloc &) {
              // request above the harness's 64 MiB cap (entropy tables for 2^30 distinct values): an answer of this
              // environment, not of draco
              if (mc::alloc_env().refused == refused_before) throw;
              ctx.count("encoder_request_above_harness_cap");
              ++executions;
              continue;
            }
          }
          ++executions;
          ctx.count("encode_calls");
          if (!enc.ok) {
            ctx.count("encode_reported_failure");
            continue;
          }
          DecResult dec = decode(enc.bytes);
          if (!dec.ok) {
            ctx.fail("decode-failed", dec.error + " :: " + ptxt + " " + text(g) + " " + text(c));
            continue;
          }
          ctx.count("decode_ok");
          ctx.state(mc::hash_bytes(enc.bytes.data(), enc.bytes.size()));
          // (i) the stream declares the parameters that were supplied
          std::map<uint32_t, rt::Declared> decl;
          std::string err;
          if (!rt::declared_transforms(enc.bytes, *dec.pc, &decl, &err) || decl[2].kind != 1) {
            ctx.fail("no-quantization-transform-declared", err + " :: " + ptxt + " " + text(c));
            continue;
          }
          const rt::Declared &d = decl[2];
          bool same = d.bits == P.bits && fbits(d.range) == fbits(P.range);
          for (int k = 0; k < 3; ++k) same = same && fbits(d.min[k]) == fbits(P.origin[k]);
          if (!same) {
            char b[256];
            snprintf(b, sizeof b, "declared origin=(%.9g,%.9g,%.9g) range=%.9g bits=%d; supplied %s", d.min[0], d.min[1], d.min[2], d.range, d.bits,
                     ptxt.c_str());
            ctx.fail("declared-parameters-differ-from-supplied", std::string(b) + " :: " + text(c));
            // continue with the declared parameters so that (ii) is still decided
          }
          // (ii) per-coordinate function, on the declared grid
          const PointAttribute *pa = dec.pc->GetNamedAttribute(GeometryAttribute::POSITION);
          if (!pa || pa->data_type() != DT_FLOAT32 || pa->num_components() != 3) {
            ctx.fail("decoded-position-attribute-wrong-shape", ptxt);
            continue;
          }
          // match decoded points to source points: sequential keeps order; for kd-tree/Edgebreaker match through the
          // reference quantization of the source (the multiset is compared)
          std::vector<std::array<float, 3>> srcv, decv;
          for (int sp = 0; sp < g.num_points; ++sp) {
            const Bytes &e = g.atts[0].entries[g.atts[0].map.empty() ? sp : g.atts[0].map[sp]];
            std::array<float, 3> v;
            memcpy(v.data(), e.data(), 12);
            srcv.push_back(v);
          }
          for (PointIndex p(0); p < dec.pc->num_points(); ++p) {
            std::array<float, 3> v;
            pa->GetMappedValue(p, v.data());
            decv.push_back(v);
          }
          // expected = reference quantization with the declared parameters
          std::multiset<std::array<uint32_t, 3>> want, got;
          for (auto &v : srcv) {
            std::array<uint32_t, 3> w;
            for (int k = 0; k < 3; ++k) {
              const float e = rt::ref_quant_dequant(v[k], d.min[k], d.range, d.bits);
              w[k] = fbits(e);
              // on-grid: e == min + q*delta by construction of the reference; function property via table
              auto key = std::make_pair(k, fbits(v[k]));
              auto it = table.m.find(key);
              if (it == table.m.end()) table.m[key] = w[k];
            }
            want.insert(w);
          }
          for (auto &v : decv) got.insert({fbits(v[0]), fbits(v[1]), fbits(v[2])});
          // Edgebreaker may drop unused/degenerate; clouds and sequential keep all points: compare as sets of values
          std::set<std::array<uint32_t, 3>> ws(want.begin(), want.end()), gs2(got.begin(), got.end());
          if (ws != gs2) {
            std::string dd = "decoded:";
            for (auto &v : decv) {
              char b[96];
              snprintf(b, sizeof b, " (%.9g,%.9g,%.9g)", v[0], v[1], v[2]);
              dd += b;
            }
            dd += " expected:";
            for (auto &w : want) {
              float f[3];
              memcpy(f, w.data(), 12);
              char b[96];
              snprintf(b, sizeof b, " (%.9g,%.9g,%.9g)", f[0], f[1], f[2]);
              dd += b;
            }
            ctx.fail(same ? "decoded-value-not-the-declared-quantization-of-the-coordinate" : "decoded-value-off-declared-grid-after-parameter-mismatch",
                     dd + " :: " + ptxt + " " + text(g) + " " + text(c));
            continue;
          }
          // (decoded == reference quantization of each coordinate for every execution of this parameter set, hence equal
          // coordinates decode to equal values across geometries, methods, speeds and APIs)
          ctx.count("executions_compared");
        }
  }
  ctx.count_max("distinct_coordinates_in_one_table", table.m.size());
  return executions;
}

}  // namespace

// ---------------------------------------------------------------- C04 end to end (--x-c04)
// Same geometry family, every method x speed x API, quantization requested either with the automatic range or with the
// explicit box; oracle = the property's half-step bound against the SOURCE value, in long double.
long double ulp32(long double m) {
  float f = (float)m;
  if (f == 0) return 1.4e-45L;
  float n = std::nextafter(std::fabs(f), INFINITY);
  return (long double)n - (long double)std::fabs(f);
}
int run_c04_set(const Params &P, mc::Ctx &ctx) {
  int executions = 0;
  std::vector<GeomDef> geoms = build_family(P);
  char pb[160];
  snprintf(pb, sizeof pb, "box origin=(%.9g,%.9g,%.9g) range=%.9g bits=%d", P.origin[0], P.origin[1], P.origin[2], P.range, P.bits);
  const std::string ptxt = pb;
  const std::vector<float> origin(P.origin, P.origin + 3);
  for (const GeomDef &g : geoms) {
    std::unique_ptr<Mesh> mesh;
    std::unique_ptr<PointCloud> cloud;
    if (g.is_mesh) mesh = build_mesh(g);
    else cloud = build_cloud(g);
    const PointCloud &src = g.is_mesh ? *mesh : *cloud;
    // source values and extents
    std::vector<std::array<float, 3>> srcv;
    for (int sp = 0; sp < g.num_points; ++sp) {
      const Bytes &e = g.atts[0].entries[g.atts[0].map.empty() ? sp : g.atts[0].map[sp]];
      std::array<float, 3> v;
      memcpy(v.data(), e.data(), 12);
      srcv.push_back(v);
    }
    long double mn[3], mx[3], R = 0, mag = 0;
    for (int k = 0; k < 3; ++k) {
      mn[k] = mx[k] = srcv[0][k];
      for (auto &v : srcv) {
        mn[k] = std::min<long double>(mn[k], v[k]);
        mx[k] = std::max<long double>(mx[k], v[k]);
      }
      R = std::max(R, mx[k] - mn[k]);
      mag = std::max(mag, std::max(fabsl(mn[k]), fabsl(mx[k])));
    }
    for (int automatic = 0; automatic < 2; ++automatic)
      for (int method = 0; method < 2; ++method)
        for (int speed : {0, 5, 10}) {
          // The property speaks of magnitudes 1e-6..1e9: an automatic range that is non-zero but below 1e-12 (e.g. two
          // points one denormal apart) is outside its domain (the float32 step computation overflows there).
          if (automatic && R > 0 && R < 1e-12L) {
            ctx.count("automatic_range_below_1e-12_out_of_domain");
            continue;
          }
          EncCfg c;
          c.method = method;
          if (g.is_mesh && method == 1) c.eb_method = speed == 0 ? MESH_EDGEBREAKER_VALENCE_ENCODING : MESH_EDGEBREAKER_STANDARD_ENCODING;
          c.speed_enc = c.speed_dec = speed;
          c.qbits = {P.bits};
          if (!automatic) c.explicit_q[0] = {origin, P.range};
          c.use_plain_encoder = speed == 5;
          // speed 10 also switches the built-in attribute compression off (raw value storage with a width byte)
          c.builtin_entropy = speed != 10;
          EncResult enc;
          {
            const uint64_t refused_before = mc::alloc_env().refused;
            try {
              enc = encode(g, src, mesh.get(), c);
            } catch (const std::bad_alloc &) {
              if (mc::alloc_env().refused == refused_before) throw;
              ctx.count("encoder_request_above_harness_cap");
              ++executions;
              continue;
            }
          }
          ++executions;
          ctx.count("encode_calls");
          if (!enc.ok) {
            ctx.count("encode_reported_failure");
            continue;
          }
          DecResult dec = decode(enc.bytes);
          if (!dec.ok) {
            ctx.count("decode_failed_(C01_matter)");
            continue;
          }
          ctx.count("decode_ok");
          const PointAttribute *pa = dec.pc->GetNamedAttribute(GeometryAttribute::POSITION);
          if (!pa || pa->data_type() != DT_FLOAT32 || pa->num_components() != 3) continue;
          // the range the property speaks of: the configured one, or the largest per-component extent
          const long double range = automatic ? R : (long double)P.range;
          const long double step = range > 0 ? range / (powl(2.0L, P.bits) - 1.0L) : 0;
          const long double box_mag = automatic ? mag : std::max(mag, fabsl((long double)P.origin[0]) + P.range);
          const long double allow = step / 2 + 4 * ulp32(std::max(box_mag, (long double)1e-30L));
          std::vector<std::array<float, 3>> decv;
          for (PointIndex p(0); p < dec.pc->num_points(); ++p) {
            std::array<float, 3> v;
            pa->GetMappedValue(p, v.data());
            decv.push_back(v);
          }
          const bool ordered = gs::stream_method(enc.bytes) == 0 && decv.size() == srcv.size();
          // kd-tree keeps every point (in another order): the decoded points must match the source points ONE TO ONE within the
          // allowance (nearest-neighbour matching alone would accept a lost duplicate or a value given to the wrong point)
          if (!g.is_mesh && !ordered && decv.size() == srcv.size() && srcv.size() <= 6) {
            std::vector<int> perm(srcv.size());
            for (size_t i = 0; i < perm.size(); ++i) perm[i] = (int)i;
            bool found = false;
            do {
              bool all = true;
              for (size_t i = 0; i < srcv.size() && all; ++i)
                for (int k = 0; k < 3; ++k)
                  if (fabsl((long double)decv[perm[i]][k] - (long double)srcv[i][k]) > allow) { all = false; break; }
              found = all;
            } while (!found && std::next_permutation(perm.begin(), perm.end()));
            ctx.count("clouds_matched_one_to_one");
            if (!found) {
              ctx.fail(std::string("e2e:no-one-to-one-match-within-half-step|") + (automatic ? "automatic-range" : "explicit-range") + "|kd-tree",
                       ptxt + " " + text(g) + " " + text(c));
              continue;
            }
          }
          for (size_t i = 0; i < srcv.size(); ++i) {
            long double best = 1e300L;
            size_t bj = 0;
            for (size_t j = 0; j < decv.size(); ++j) {
              if (ordered && j != i) continue;
              long double dmax = 0;
              for (int k = 0; k < 3; ++k) dmax = std::max(dmax, fabsl((long double)decv[j][k] - (long double)srcv[i][k]));
              if (dmax < best) {
                best = dmax;
                bj = j;
              }
            }
            ctx.count("values_compared", 3);
            if (decv.empty() || best > allow) {
              // Edgebreaker may drop points that no triangle uses - every point of this family is used
              char b[300];
              snprintf(b, sizeof b, "source (%.9g,%.9g,%.9g): nearest decoded (%.9g,%.9g,%.9g), error %.6Lg > half step %.6Lg + 4 ulp (allowance %.6Lg), %s range %.9Lg",
                       srcv[i][0], srcv[i][1], srcv[i][2], decv.empty() ? 0.f : decv[bj][0], decv.empty() ? 0.f : decv[bj][1],
                       decv.empty() ? 0.f : decv[bj][2], best, step / 2, allow, automatic ? "automatic" : "explicit", range);
              ctx.fail(std::string("e2e:error-exceeds-half-step|") + (automatic ? "automatic-range" : "explicit-range") + "|" +
                           (g.is_mesh ? (method ? "edgebreaker" : "mesh-sequential") : (method ? "kd-tree" : "cloud-sequential")),
                       std::string(b) + " :: " + ptxt + " " + text(g) + " " + text(c));
              break;
            }
          }
          // decoded values never leave the box by more than one step + allowance
          for (auto &v : decv)
            for (int k = 0; k < 3; ++k) {
              const long double lo = automatic ? mn[k] : (long double)P.origin[k], hi = lo + (automatic ? range : (long double)P.range);
              if ((long double)v[k] < lo - step - allow || (long double)v[k] > hi + step + allow) {
                ctx.fail(std::string("e2e:decoded-value-leaves-box|") + (automatic ? "automatic-range" : "explicit-range"), ptxt + " " + text(g) + " " + text(c));
                k = 3;
                break;
              }
            }
          ctx.count("executions_compared");
        }
  }
  return executions;
}

int main(int argc, char **argv) {
  bool c04 = false;
  for (int i = 1; i < argc; ++i) c04 = c04 || std::string(argv[i]) == "--x-c04";
  if (c04) {
    mc::Runner R(argc, argv, "C04");
    R.level = "model_checking";
    R.rule =
        "end to end: for each of (6 origins x 6 ranges x bits {1,2,8,11,16,24,30}) the whole geometry family over a 9-value per-axis "
        "alphabet inside the box x {automatic range, explicit box} x {sequential, kd-tree / Edgebreaker} x speeds {0,5,10} (ExpertEncoder, "
        "draco::Encoder at speed 5); non-trivial = every execution compared";
    R.explanation =
        "oracle = the property's statement against the SOURCE values in long double: |decoded - x| <= R/(2^q-1)/2 + 4 ulp with R the largest "
        "per-component extent (automatic) or the configured range (explicit); decoded values stay inside the box +- one step";
    R.assumptions = {"decoded points are matched to source points by order (sequential) or nearest value (kd-tree, Edgebreaker)"};
    R.transition_counters = {"encode_calls", "decode_ok"};
    const bool quick_only_some = !R.thorough();
    std::vector<Params> all;
    const int bits[] = {1, 2, 8, 11, 16, 24, 30};
    for (auto &o : kOrigins)
      for (float r : kRanges)
        for (int b : bits) {
          Params p;
          memcpy(p.origin, o, 12);
          p.range = r;
          p.bits = b;
          all.push_back(p);
        }
    (void)quick_only_some;
    auto addc = [&](const std::string &name, std::vector<Params> ps, bool quick, bool thorough) {
      mc::Space s;
      s.name = name;
      s.size = ps.size();
      s.quick = quick;
      s.thorough = thorough;
      s.timeout_s = 180;
      s.cases_per_index = (18 + 324 + 84 + 84) * 2 * 2 * 3;
      auto P = std::make_shared<std::vector<Params>>(ps);
      s.run = [=](uint64_t idx, mc::Ctx &ctx) {
        const int n = run_c04_set((*P)[idx], ctx);
        for (int i = 0; i < n; ++i) ctx.nontrivial_unique();
      };
      s.describe = [=](uint64_t idx) {
        const Params &p = (*P)[idx];
        char b[200];
        snprintf(b, sizeof b, "origin=(%.9g,%.9g,%.9g) range=%.9g bits=%d x geometry family x automatic/explicit x methods x speeds", p.origin[0],
                 p.origin[1], p.origin[2], p.range, p.bits);
        return std::string(b);
      };
      R.add(s);
    };
    std::vector<Params> sub;
    for (size_t i = 0; i < all.size(); i += 3) sub.push_back(all[i]);
    addc("e2e_params_every3rd", sub, true, false);
    addc("e2e_params_all", all, false, true);
    R.require("executions_compared", 1000);
    return R.main();
  }
  mc::Runner R(argc, argv, "C12");
  R.level = "model_checking";
  const bool asan = R.flag("asan");
  R.rule =
      "one case = one parameter set (6 origins x 6 ranges x 6 bit widths); inside it every geometry of a family over a 9-value per-axis "
      "coordinate alphabet inside the box (18 single points, all 324 ordered point pairs, all 84 triangles over 9 points and 84 two-triangle "
      "meshes) x {sequential, kd-tree / Edgebreaker} x speed {0,5,10} x {Encoder by type, ExpertEncoder by id} is encoded and decoded and "
      "a shared coordinate -> decoded-value table is checked to be a function; states = distinct streams; non-trivial = every execution "
      "compared";
  R.explanation =
      "two-stage oracle: (i) the parameters the stream declares equal the supplied ones bit for bit; (ii) every decoded value equals "
      "origin + k*range/(2^bits-1) for the reference k of its coordinate (own reference quantizer) and equal coordinates decode to equal "
      "values across all executions of the parameter set";
  R.assumptions = {"coordinates outside the 9-value alphabet per axis are not explored", "values are inside the configured box"};
  R.transition_counters = {"encode_calls", "decode_ok"};
  std::vector<Params> all;
  for (auto &o : kOrigins)
    for (float r : kRanges)
      for (int b : kBits) {
        Params p;
        memcpy(p.origin, o, 12);
        p.range = r;
        p.bits = b;
        all.push_back(p);
      }
  auto add = [&](const std::string &name, std::vector<Params> ps, bool expert_only, bool quick, bool thorough) {
    mc::Space s;
    s.name = name;
    s.size = ps.size();
    s.quick = quick;
    s.thorough = thorough;
    s.timeout_s = 120;
    s.cases_per_index = (18 + 324 + 84 + 84) * 2 * 3 * (expert_only ? 1 : 2);
    auto P = std::make_shared<std::vector<Params>>(ps);
    s.run = [=](uint64_t idx, mc::Ctx &ctx) {
      const int n = run_param_set((*P)[idx], ctx, expert_only);
      for (int i = 0; i < n; ++i) ctx.nontrivial_unique();
    };
    s.describe = [=](uint64_t idx) {
      const Params &p = (*P)[idx];
      char b[200];
      snprintf(b, sizeof b, "origin=(%.9g,%.9g,%.9g) range=%.9g bits=%d x whole geometry family x methods x speeds x APIs", p.origin[0], p.origin[1],
               p.origin[2], p.range, p.bits);
      return std::string(b);
    };
    R.add(s);
  };
  if (!asan) {
    add("params_all", all, false, true, true);
  } else {
    std::vector<Params> sub;
    for (size_t i = 0; i < all.size(); i += 5) sub.push_back(all[i]);
    add("asan_params_every5th_expert", sub, true, true, false);
    add("asan_params_all", all, false, false, true);
  }
  // Decoder-side options: the explicitly quantized POSITION must decode to the same values when the decoder is told to leave
  // ANOTHER attribute in its quantized form. Clouds of 9 points with [GENERIC float3 (10 bits), POSITION (explicit P)] and
  // [POSITION, GENERIC], sequential and kd-tree, for every parameter set.
  {
    mc::Space s;
    s.name = std::string(asan ? "asan_" : "") + "decoder_skips_another_attribute";
    s.size = all.size() * 2 * 2;
    s.quick = s.thorough = true;
    auto P = std::make_shared<std::vector<Params>>(all);
    s.run = [=](uint64_t idx, mc::Ctx &ctx) {
      const Params &p = (*P)[idx / 4];
      const bool pos_first = (idx / 2) % 2, kd = idx % 2;
      std::vector<float> A[3];
      for (int c = 0; c < 3; ++c) A[c] = alphabet(p.origin[c], p.range, p.bits);
      GeomDef g;
      g.is_mesh = false;
      g.num_points = 9;
      AttDef pos, gen;
      pos.type = GeometryAttribute::POSITION; pos.dt = DT_FLOAT32; pos.nc = 3; pos.uid = 2;
      gen.type = GeometryAttribute::GENERIC; gen.dt = DT_FLOAT32; gen.nc = 3; gen.uid = 7;
      for (int i = 0; i < 9; ++i) {
        pos.entries.push_back(bytes_of(std::vector<float>{A[0][i], A[1][(i * 2 + 1) % 9], A[2][(i * 4 + 3) % 9]}));
        gen.entries.push_back(bytes_of(std::vector<float>{0.4f + 0.05f * i, 0.5f - 0.03f * i, 0.5f + 0.01f * (i % 4)}));
      }
      if (pos_first) g.atts = {pos, gen}; else g.atts = {gen, pos};
      const int pid = pos_first ? 0 : 1;
      EncCfg c;
      c.method = kd ? POINT_CLOUD_KD_TREE_ENCODING : POINT_CLOUD_SEQUENTIAL_ENCODING;
      c.qbits = {10, 10};
      c.qbits[pid] = p.bits;
      c.explicit_q[pid] = {std::vector<float>{p.origin[0], p.origin[1], p.origin[2]}, p.range};
      auto cloud = build_cloud(g);
      EncResult enc;
      const uint64_t refused_before = mc::alloc_env().refused;
      try {
        enc = encode(g, *cloud, nullptr, c);
      } catch (const std::bad_alloc &) {
        if (mc::alloc_env().refused == refused_before) throw;
        ctx.count("encoder_request_above_harness_cap");
        return;
      }
      if (!enc.ok) {
        ctx.count("encode_reported_failure");
        return;
      }
      auto positions = [&](bool skip_generic, std::vector<std::array<uint32_t, 3>> *out) -> bool {
        DecoderBuffer b;
        b.Init(reinterpret_cast<const char *>(enc.bytes.data()), enc.bytes.size());
        Decoder d;
        if (skip_generic) d.SetSkipAttributeTransform(GeometryAttribute::GENERIC);
        auto r = d.DecodePointCloudFromBuffer(&b);
        if (!r.ok()) return false;
        const PointAttribute *pa = r.value()->GetAttributeByUniqueId(2);
        if (!pa || pa->data_type() != DT_FLOAT32 || pa->num_components() != 3) return false;
        for (PointIndex q(0); q < r.value()->num_points(); ++q) {
          std::array<float, 3> v;
          pa->GetMappedValue(q, v.data());
          out->push_back({fbits(v[0]), fbits(v[1]), fbits(v[2])});
        }
        std::sort(out->begin(), out->end());
        return true;
      };
      std::vector<std::array<uint32_t, 3>> plain, skipped;
      const bool ok1 = positions(false, &plain), ok2 = positions(true, &skipped);
      ctx.count("decodes_with_another_attribute_skipped");
      if (!ok1 || !ok2 || plain != skipped) {
        char b[200];
        snprintf(b, sizeof b, "origin=(%.9g,%.9g,%.9g) range=%.9g bits=%d", p.origin[0], p.origin[1], p.origin[2], p.range, p.bits);
        ctx.fail(std::string("positions-depend-on-skip-of-another-attribute|") + (kd ? "kd-tree" : "cloud-sequential"),
                 std::string(b) + (pos_first ? " [POSITION, GENERIC]" : " [GENERIC, POSITION]") + (ok1 && ok2 ? "" : " (a decode failed)"));
        return;
      }
      ctx.nontrivial_unique();
    };
    s.describe = [=](uint64_t idx) {
      const Params &p = (*P)[idx / 4];
      char b[260];
      snprintf(b, sizeof b, "origin=(%.9g,%.9g,%.9g) range=%.9g bits=%d, 9-point cloud %s, %s, decoded with and without SetSkipAttributeTransform(GENERIC)",
               p.origin[0], p.origin[1], p.origin[2], p.range, p.bits, (idx / 2) % 2 ? "[POSITION, GENERIC]" : "[GENERIC, POSITION]", idx % 2 ? "kd-tree" : "sequential");
      return std::string(b);
    };
    R.add(s);
  }
  R.require("executions_compared", 1000);
  return R.main();
}
