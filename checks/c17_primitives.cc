// C17: bit, varint and buffer primitives round-trip every value.
//
// Bounded exhaustive enumeration on the real draco primitives:
//   * EncodeVarint/DecodeVarint, zig-zag, Encode<T>/Decode<T>: all 8/16-bit
//     values, all 2^32 32-bit values (part "sweep32", -O2) and the structured
//     64-bit set (7-bit groups from {00,01,40,7f}, 1..10 groups);
//   * the five bit coders: every bit string up to a length bound fed bit-wise,
//     every sequence of ...Bits32(n) calls (n in {1,2,7,31,32}) up to a payload
//     bound, every width 1..32 with boundary values;
//   * EncoderBuffer/DecoderBuffer as a state machine: every operation sequence
//     up to a depth bound against a reference model, mirrored reads, wrong-mode
//     calls, truncated streams and reads past the end.
// Every block is followed by a sentinel so that exact consumption is checked;
// under ASan the decoder reads from an exact-size heap block so that any read
// past the written data is reported.
#include "c17c08_alloc_cap.h"

#include <array>
#include <stdexcept>
#include <type_traits>

#include "draco/compression/bit_coders/adaptive_rans_bit_decoder.h"
#include "draco/compression/bit_coders/adaptive_rans_bit_encoder.h"
#include "draco/compression/bit_coders/direct_bit_decoder.h"
#include "draco/compression/bit_coders/direct_bit_encoder.h"
#include "draco/compression/bit_coders/folded_integer_bit_decoder.h"
#include "draco/compression/bit_coders/folded_integer_bit_encoder.h"
#include "draco/compression/bit_coders/rans_bit_decoder.h"
#include "draco/compression/bit_coders/rans_bit_encoder.h"
#include "draco/compression/bit_coders/symbol_bit_decoder.h"
#include "draco/compression/bit_coders/symbol_bit_encoder.h"
#include "draco/compression/entropy/ans.h"
#include "draco/core/bit_utils.h"
#include "draco/core/decoder_buffer.h"
#include "draco/core/encoder_buffer.h"
#include "draco/core/macros.h"
#include "draco/core/varint_decoding.h"
#include "draco/core/varint_encoding.h"
#include "mc/runner.h"

using namespace draco;

namespace {

const uint16_t kVersion = DRACO_BITSTREAM_VERSION(2, 2);

// Exact-size heap copy: the byte after the data is an ASan redzone.
struct Exact {
  char *base;
  char *p;
  size_t n;
  Exact(const char *src, size_t len) : n(len) {
    base = static_cast<char *>(malloc(len ? len : 1));
    if (!base) abort();
    p = len ? base : base + 1;  // len==0: one past a 1-byte block
    if (len) memcpy(base, src, len);
  }
  ~Exact() { free(base); }
  Exact(const Exact &) = delete;
  Exact &operator=(const Exact &) = delete;
};

template <class T> struct TN;
template <> struct TN<uint8_t> { static const char *s() { return "u8"; } };
template <> struct TN<int8_t> { static const char *s() { return "i8"; } };
template <> struct TN<uint16_t> { static const char *s() { return "u16"; } };
template <> struct TN<int16_t> { static const char *s() { return "i16"; } };
template <> struct TN<uint32_t> { static const char *s() { return "u32"; } };
template <> struct TN<int32_t> { static const char *s() { return "i32"; } };
template <> struct TN<uint64_t> { static const char *s() { return "u64"; } };
template <> struct TN<int64_t> { static const char *s() { return "i64"; } };
template <> struct TN<float> { static const char *s() { return "f32"; } };
template <> struct TN<double> { static const char *s() { return "f64"; } };

// ---------------------------------------------------------------- reference
// Plain reference of the zig-zag symbol of v (positive -> even, negative ->
// odd) and of the number of 7-bit groups needed.
template <class T>
typename std::make_unsigned<T>::type ref_symbol(T v) {
  using U = typename std::make_unsigned<T>::type;
  if (std::is_unsigned<T>::value) return static_cast<U>(v);
  if (v >= 0) return static_cast<U>(static_cast<U>(v) << 1);
  return static_cast<U>((static_cast<U>(~static_cast<U>(v)) << 1) | 1);
}
inline int ref_groups(uint64_t u) {
  int n = 1;
  while (u >= 128) {
    u >>= 7;
    ++n;
  }
  return n;
}
template <class T>
int ref_len(T v) {
  return ref_groups(static_cast<uint64_t>(ref_symbol(v)));
}

template <class T>
std::string show_val(T v) {
  char b[64];
  if (std::is_floating_point<T>::value) {
    uint64_t bits = 0;
    memcpy(&bits, &v, sizeof(T));
    snprintf(b, sizeof b, "bits 0x%llx", (unsigned long long)bits);
  } else if (std::is_signed<T>::value) {
    snprintf(b, sizeof b, "%lld", (long long)v);
  } else {
    snprintf(b, sizeof b, "%llu (0x%llx)", (unsigned long long)v, (unsigned long long)v);
  }
  return b;
}

// ---------------------------------------------------------------- varint
// Returns nullptr when the round trip holds, else what went wrong.
template <class T, bool kExact>
const char *varint_rt(T v, EncoderBuffer &eb, int *len_out) {
  eb.Clear();
  if (!EncodeVarint<T>(v, &eb)) return "encode-returned-false";
  *len_out = static_cast<int>(eb.size());
  if (!eb.Encode(static_cast<uint8_t>(0xA5))) return "sentinel-encode-false";
  DecoderBuffer db;
  T out = static_cast<T>(0x5a);
  uint8_t s = 0;
  if (kExact) {
    Exact ex(eb.data(), eb.size());
    db.Init(ex.p, ex.n);
    if (!DecodeVarint<T>(&out, &db)) return "decode-returned-false";
    if (out != v) return "value-mismatch";
    if (!db.Decode(&s) || s != 0xA5) return "sentinel-not-next";
    if (db.remaining_size() != 0) return "bytes-left-over";
    T more;
    if (DecodeVarint<T>(&more, &db)) return "decode-past-end-succeeded";
    return nullptr;
  }
  db.Init(eb.data(), eb.size());
  if (!DecodeVarint<T>(&out, &db)) return "decode-returned-false";
  if (out != v) return "value-mismatch";
  if (!db.Decode(&s) || s != 0xA5) return "sentinel-not-next";
  if (db.remaining_size() != 0) return "bytes-left-over";
  return nullptr;
}

// Every proper prefix of the encoding must be rejected.
template <class T>
const char *varint_truncated(T v, EncoderBuffer &eb) {
  eb.Clear();
  if (!EncodeVarint<T>(v, &eb)) return "encode-returned-false";
  const size_t len = eb.size();
  for (size_t k = 0; k < len; ++k) {
    Exact ex(eb.data(), k);
    DecoderBuffer db;
    db.Init(ex.p, ex.n);
    T out;
    if (DecodeVarint<T>(&out, &db)) return "truncated-decode-succeeded";
    if (db.remaining_size() < 0) return "truncated-decode-position-past-end";
  }
  return nullptr;
}

template <class T>
void varint_case(T v, EncoderBuffer &eb, mc::Ctx &ctx, uint64_t *multibyte) {
  int len = 0;
  const char *w = varint_rt<T, true>(v, eb, &len);
  if (!w) w = varint_truncated<T>(v, eb);
  if (w) {
    ctx.fail(std::string("varint:") + TN<T>::s() + ":" + w + "|len" + std::to_string(ref_len(v)),
             "value " + show_val(v));
    return;
  }
  if (len > 1) ++*multibyte;
}

// ---------------------------------------------------------------- zig-zag
template <class S>
const char *zigzag_rt(S v) {
  using U = typename std::make_unsigned<S>::type;
  const U sym = ConvertSignedIntToSymbol(v);
  const S back = ConvertSymbolToSignedInt(sym);
  if (back != v) return "signed->symbol->signed";
  const U u = static_cast<U>(v);  // the same bit pattern taken as a symbol
  const S s2 = ConvertSymbolToSignedInt(u);
  const U u2 = ConvertSignedIntToSymbol(s2);
  if (u2 != u) return "symbol->signed->symbol";
  return nullptr;
}
template <class S>
void zigzag_case(S v, mc::Ctx &ctx) {
  const char *w = zigzag_rt<S>(v);
  if (w) ctx.fail(std::string("zigzag:") + TN<S>::s() + ":" + w, "value " + show_val(v));
}

// ---------------------------------------------------------------- scalars
template <class T, bool kExact>
const char *scalar_rt(T v, EncoderBuffer &eb, bool truncated = true) {
  eb.Clear();
  if (!eb.Encode(v)) return "encode-returned-false";
  if (eb.size() != sizeof(T)) return "wrong-size";
  if (!eb.Encode(static_cast<uint8_t>(0xA5))) return "sentinel-encode-false";
  T out;
  memset(&out, 0x5a, sizeof(T));
  uint8_t s = 0;
  if (kExact) {
    {
      Exact ex(eb.data(), eb.size());
      DecoderBuffer db;
      db.Init(ex.p, ex.n);
      T peek;
      if (!db.Peek(&peek) || memcmp(&peek, &v, sizeof(T)) != 0) return "peek-mismatch";
      if (!db.Decode(&out)) return "decode-returned-false";
      if (memcmp(&out, &v, sizeof(T)) != 0) return "value-mismatch";
      if (!db.Decode(&s) || s != 0xA5) return "sentinel-not-next";
      if (db.remaining_size() != 0) return "bytes-left-over";
      T more;
      if (db.Decode(&more) || db.Peek(&more)) return "decode-past-end-succeeded";
    }
    for (size_t k = 0; truncated && k < sizeof(T); ++k) {
      Exact ex(eb.data(), k);
      DecoderBuffer db;
      db.Init(ex.p, ex.n);
      T more;
      if (db.Decode(&more) || db.Peek(&more)) return "truncated-decode-succeeded";
      if (db.decoded_size() != 0) return "failed-decode-moved-position";
    }
    return nullptr;
  }
  DecoderBuffer db;
  db.Init(eb.data(), eb.size());
  if (!db.Decode(&out)) return "decode-returned-false";
  if (memcmp(&out, &v, sizeof(T)) != 0) return "value-mismatch";
  if (!db.Decode(&s) || s != 0xA5) return "sentinel-not-next";
  if (db.remaining_size() != 0) return "bytes-left-over";
  return nullptr;
}
template <class T>
void scalar_case(T v, EncoderBuffer &eb, mc::Ctx &ctx, bool truncated = true) {
  const char *w = scalar_rt<T, true>(v, eb, truncated);
  if (w) ctx.fail(std::string("scalar:") + TN<T>::s() + ":" + w, "value " + show_val(v));
}

// ------------------------------------------------- 8/16-bit: all values
const int kSmallChunk = 256;
void run_small(uint64_t idx, mc::Ctx &ctx) {
  EncoderBuffer eb;
  uint64_t multi = 0, cases = 0;
  for (int j = 0; j < kSmallChunk; ++j) {
    const uint32_t x = static_cast<uint32_t>(idx * kSmallChunk + j);
    const uint16_t u16 = static_cast<uint16_t>(x);
    const int16_t i16 = static_cast<int16_t>(u16);
    varint_case<uint16_t>(u16, eb, ctx, &multi);
    varint_case<int16_t>(i16, eb, ctx, &multi);
    zigzag_case<int16_t>(i16, ctx);
    scalar_case<uint16_t>(u16, eb, ctx);
    scalar_case<int16_t>(i16, eb, ctx);
    cases += 2;
    if (x < 256) {
      const uint8_t u8 = static_cast<uint8_t>(x);
      const int8_t i8 = static_cast<int8_t>(u8);
      varint_case<uint8_t>(u8, eb, ctx, &multi);
      varint_case<int8_t>(i8, eb, ctx, &multi);
      zigzag_case<int8_t>(i8, ctx);
      scalar_case<uint8_t>(u8, eb, ctx);
      scalar_case<int8_t>(i8, eb, ctx);
      cases += 2;
    }
  }
  ctx.count("varint_small_values", cases);
  ctx.count("varint_small_multibyte", multi);
  if (!ctx.replay) ctx.sh->distinct_n[1].fetch_add(multi, std::memory_order_relaxed);
}

// ------------------------------------------------- 64-bit structured set
const uint64_t kStruct64Size = 1398100;  // sum 4^g, g = 1..10
uint64_t structured64(uint64_t idx, int *groups_out) {
  static const uint64_t G[4] = {0x00, 0x01, 0x40, 0x7f};
  int g = 1;
  uint64_t cnt = 4;
  while (idx >= cnt) {
    idx -= cnt;
    ++g;
    cnt *= 4;
  }
  uint64_t v = 0;
  for (int i = 0; i < g; ++i) {
    v |= G[idx & 3] << (7 * i);  // group 9 keeps only its lowest bit (bit 63)
    idx >>= 2;
  }
  *groups_out = g;
  return v;
}
void run_struct64(uint64_t idx, mc::Ctx &ctx) {
  int g;
  const uint64_t u = structured64(idx, &g);
  const int64_t i = static_cast<int64_t>(u);
  EncoderBuffer eb;
  uint64_t multi = 0;
  varint_case<uint64_t>(u, eb, ctx, &multi);
  varint_case<int64_t>(i, eb, ctx, &multi);
  zigzag_case<int64_t>(i, ctx);
  // truncated scalar reads do not depend on the value: first 340 values only
  const bool tr = idx < 340;
  scalar_case<uint64_t>(u, eb, ctx, tr);
  scalar_case<int64_t>(i, eb, ctx, tr);
  double d;
  memcpy(&d, &u, 8);
  scalar_case<double>(d, eb, ctx, tr);
  ctx.count("varint64_len" + std::to_string(ref_len(u)));
  if (multi && !ctx.replay) ctx.sh->distinct_n[1].fetch_add(multi, std::memory_order_relaxed);
}
std::string describe_struct64(uint64_t idx) {
  int g;
  const uint64_t u = structured64(idx, &g);
  char b[160];
  snprintf(b, sizeof b, "64-bit value 0x%016llx (%d 7-bit groups from {00,01,40,7f}) as u64, i64 %lld, f64 bit pattern",
           (unsigned long long)u, g, (long long)static_cast<int64_t>(u));
  return b;
}

// ------------------------------------------------- 32-bit: all 2^32 values
// One index = 2^16 consecutive bit patterns u; each is written as
// [varint u32][varint i32][u32][i32][f32][sentinel byte] into one stream and
// read back. kExact selects the ASan slice flavour (exact-size heap block,
// every truncated varint prefix).
template <bool kExact, bool kVar, bool kSca>
void run_ints32_chunk(uint64_t chunk, mc::Ctx &ctx) {
  EncoderBuffer eb;
  uint64_t lens[6] = {0, 0, 0, 0, 0, 0};
  uint64_t multi = 0, itemised = 0, not_itemised = 0;
  const uint32_t base = static_cast<uint32_t>(chunk << 16);
  for (uint32_t j = 0; j < 65536; ++j) {
    const uint32_t u = base + j;
    const int32_t s = static_cast<int32_t>(u);
    float f;
    memcpy(&f, &u, 4);
    eb.Clear();
    bool ok = true;
    size_t l1 = 0, l2 = 0;
    if (kVar) {
      ok = EncodeVarint<uint32_t>(u, &eb);
      l1 = eb.size();
      ok = EncodeVarint<int32_t>(s, &eb) && ok;
      l2 = eb.size() - l1;
    }
    if (kSca) ok = eb.Encode(u) && eb.Encode(s) && eb.Encode(f) && ok;
    ok = eb.Encode(static_cast<uint8_t>(0xA5)) && ok;
    ok = ok && eb.size() == l1 + l2 + (kSca ? 12 : 0) + 1;
    bool good = ok;
    if (good) {
      uint32_t ou = 0x5a5a5a5a, ou2 = 0x5a5a5a5a;
      int32_t os = 0x5a5a5a5a, os2 = 0x5a5a5a5a;
      float of = 0;
      uint8_t sent = 0;
      DecoderBuffer db;
      auto readall = [&]() {
        if (kVar && !(DecodeVarint<uint32_t>(&ou, &db) && ou == u && DecodeVarint<int32_t>(&os, &db) && os == s)) return false;
        if (kSca && !(db.Decode(&ou2) && ou2 == u && db.Decode(&os2) && os2 == s && db.Decode(&of) && memcmp(&of, &u, 4) == 0))
          return false;
        return db.Decode(&sent) && sent == 0xA5 && db.remaining_size() == 0;
      };
      if (kExact) {
        Exact ex(eb.data(), eb.size());
        db.Init(ex.p, ex.n);
        good = readall() && !db.Decode(&ou2) && !DecodeVarint<uint32_t>(&ou, &db);
      } else {
        db.Init(eb.data(), eb.size());
        good = readall();
      }
    }
    if (!good && itemised >= 8) {
      ++not_itemised;  // a chunk full of failures: diagnose the first 8 only
    } else if (!good) {
      // slow path: find out which primitive failed and how
      ++itemised;
      int len;
      bool any = false;
      const char *w = kVar ? varint_rt<uint32_t, kExact>(u, eb, &len) : nullptr;
      if (w) ctx.fail(std::string("varint:u32:") + w + "|len" + std::to_string(ref_len(u)), "value " + show_val(u)), any = true;
      w = kVar ? varint_rt<int32_t, kExact>(s, eb, &len) : nullptr;
      if (w) ctx.fail(std::string("varint:i32:") + w + "|len" + std::to_string(ref_len(s)), "value " + show_val(s)), any = true;
      w = kSca ? scalar_rt<uint32_t, kExact>(u, eb) : nullptr;
      if (w) ctx.fail(std::string("scalar:u32:") + w, "value " + show_val(u)), any = true;
      w = kSca ? scalar_rt<int32_t, kExact>(s, eb) : nullptr;
      if (w) ctx.fail(std::string("scalar:i32:") + w, "value " + show_val(s)), any = true;
      w = kSca ? scalar_rt<float, kExact>(f, eb) : nullptr;
      if (w) ctx.fail(std::string("scalar:f32:") + w, "value " + show_val(f)), any = true;
      if (!any) ctx.fail("ints32:concatenated-stream-mismatch", "value " + show_val(u));
    }
    if (kExact && kVar && itemised < 8) {
      const char *w = varint_truncated<uint32_t>(u, eb);
      if (w) ctx.fail(std::string("varint:u32:") + w + "|len" + std::to_string(ref_len(u)), "value " + show_val(u));
      w = varint_truncated<int32_t>(s, eb);
      if (w) ctx.fail(std::string("varint:i32:") + w + "|len" + std::to_string(ref_len(s)), "value " + show_val(s));
    }
    if (kVar) {
      const char *z = zigzag_rt<int32_t>(s);
      if (z) ctx.fail(std::string("zigzag:i32:") + z, "value " + show_val(s));
      lens[l1 <= 5 ? l1 : 0]++;
      lens[l2 <= 5 ? l2 : 0]++;
      multi += (l1 > 1) + (l2 > 1);
    }
  }
  if (kVar)
    for (int l = 0; l <= 5; ++l)
      if (lens[l]) ctx.count(l ? "varint32_len" + std::to_string(l) : std::string("varint32_len_other"), lens[l]);
  if (kSca) ctx.count("scalar32_values", 3 * 65536);
  if (not_itemised) ctx.count("ints32_failing_values_not_itemised", not_itemised);
  if (kVar && !ctx.replay) ctx.sh->distinct_n[1].fetch_add(multi, std::memory_order_relaxed);
}

// ASan slices of the 2^32 sweep (chunk = 2^16 values): slice A = chunks around
// every varint length boundary, the sign boundary, both ends and every 1024th
// chunk (both tiers); slice B = every 128th chunk not in A (thorough).
std::vector<uint32_t> g_slice_a, g_slice_b;
void build_slice() {
  std::set<uint32_t> a;
  const uint32_t special[] = {0, 1, 31, 32, 33, 4095, 4096, 4097, 16383, 16384, 32767, 32768, 32769, 49152, 65534, 65535};
  for (uint32_t c : special) a.insert(c);
  for (uint32_t c = 0; c < 65536; c += 1024) a.insert(c);
  g_slice_a.assign(a.begin(), a.end());
  for (uint32_t c = 0; c < 65536; c += 128)
    if (!a.count(c)) g_slice_b.push_back(c);
}

// ---------------------------------------------------------------- bit coders
struct Call {
  uint8_t n;      // width (1 for bit-wise calls)
  bool bitwise;   // EncodeBit/DecodeNextBit instead of ...Bits32
  uint32_t v;     // value as passed to the encoder (may have bits above n)
};
struct Calls {
  Call c[40];
  int n = 0;
  void add(int w, bool bitwise, uint32_t v) {
    c[n].n = static_cast<uint8_t>(w);
    c[n].bitwise = bitwise;
    c[n].v = v;
    ++n;
  }
};
enum CoderId { RANS = 0, ADAPT = 1, DIRECT = 2, FOLDED = 3, SYMBOL = 4, kNumCoders = 5 };
const char *kCoderName[kNumCoders] = {"rans", "adaptive", "direct", "folded", "symbol"};

inline uint32_t mask_n(int n) { return n >= 32 ? 0xFFFFFFFFu : ((1u << n) - 1u); }

std::string show_calls(const Calls &cs) {
  std::string s;
  // consecutive bit-wise calls are shown as a bit string
  for (int i = 0; i < cs.n;) {
    if (cs.c[i].bitwise) {
      s += s.empty() ? "bits " : " bits ";
      while (i < cs.n && cs.c[i].bitwise) s += (cs.c[i++].v ? '1' : '0');
    } else {
      char b[48];
      snprintf(b, sizeof b, "%sBits32(%d,0x%x)", s.empty() ? "" : " ", cs.c[i].n, cs.c[i].v);
      s += b;
      ++i;
    }
  }
  if (cs.n == 0) s = "(no calls)";
  return s;
}

// Input class used in signatures (and as klass for crash attribution). For
// the symbol coder the class is the magnitude of the largest value (that is
// what its defects depend on), for the others the kind of calls and the
// widest call.
std::string calls_klass(int cid, const Calls &cs) {
  bool any_bit = false, any_lsb = false;
  int maxw = 0;
  uint32_t maxv = 0;
  for (int i = 0; i < cs.n; ++i) {
    if (cs.c[i].bitwise) any_bit = true;
    else any_lsb = true;
    maxw = std::max<int>(maxw, cs.c[i].n);
    maxv = std::max(maxv, cs.c[i].v & mask_n(cs.c[i].n));
  }
  if (cid == SYMBOL) {
    if (maxv >= 0x80000000u) return "symbol>=2^31";
    if (maxv == 0x7FFFFFFFu) return "symbol==2^31-1";
    if (maxv >= (1u << 26)) return "symbol in [2^26,2^31-1)";
    if (maxv >= (1u << 18)) return "symbol in [2^18,2^26)";
    return "symbol<2^18";
  }
  std::string k = any_bit && any_lsb ? "mixed" : any_lsb ? "lsb32" : "bitwise";
  k += maxw <= 7 ? ",w<=7" : maxw <= 30 ? ",w8-30" : maxw == 31 ? ",w31" : ",w32";
  return k;
}

template <class Dec>
bool dec_lsb(Dec &d, int n, uint32_t *out) {
  if constexpr (std::is_void<decltype(d.DecodeLeastSignificantBits32(n, out))>::value) {
    d.DecodeLeastSignificantBits32(n, out);
    return true;
  } else {
    return d.DecodeLeastSignificantBits32(n, out);
  }
}

struct CoderOpts {
  bool hash_state = false;  // ctx.state(hash of the encoded block)
  int extra_reads = 0;      // read that many bits past the written data
};

const uint32_t kSentinel32 = 0x5EA7C0DEu;

template <class Enc, class Dec>
void run_coder(int cid, const Calls &cs, mc::Ctx &ctx, const CoderOpts &o) {
  auto fail = [&](const std::string &what, const std::string &more) {
    ctx.fail(std::string("bitcoder:") + kCoderName[cid] + ":" + what + "|" + calls_klass(cid, cs), show_calls(cs) + more);
  };
  EncoderBuffer eb;
  eb.Encode(static_cast<uint8_t>(0x3C));  // the block does not start at offset 0
  try {
    Enc enc;
    enc.StartEncoding();
    for (int i = 0; i < cs.n; ++i) {
      if (cs.c[i].bitwise) enc.EncodeBit(cs.c[i].v != 0);
      else enc.EncodeLeastSignificantBits32(cs.c[i].n, cs.c[i].v);
    }
    enc.EndEncoding(&eb);
  } catch (const std::length_error &e) {
    fail("encode-exception:length_error", std::string(" :: ") + e.what());
    return;
  } catch (const std::bad_alloc &) {
    if (alloc_cap::g_last_refused != 0) {
      ctx.count("encoder_request_above_harness_cap");  // environment answer, not judged
      return;
    }
    fail("encode-exception:bad_alloc", " :: not caused by the harness cap");
    return;
  }
  const size_t block = eb.size() - 1;
  if (!eb.Encode(kSentinel32)) {
    fail("sentinel-encode-false", "");
    return;
  }
  if (o.hash_state) ctx.state(mc::hash_bytes(eb.data(), eb.size(), cid + 1));
  ctx.count_max(std::string("max_block_bytes:") + kCoderName[cid], block);
  Exact ex(eb.data(), eb.size());
  DecoderBuffer db;
  db.Init(ex.p, ex.n, kVersion);
  uint8_t pre = 0;
  db.Decode(&pre);
  try {
    Dec dec;
    if (!dec.StartDecoding(&db)) {
      fail("start-decoding-false", "");
      return;
    }
    for (int i = 0; i < cs.n; ++i) {
      if (cs.c[i].bitwise) {
        const bool b = dec.DecodeNextBit();
        if (b != (cs.c[i].v != 0)) {
          fail("bit-mismatch", " :: at call " + std::to_string(i));
          return;
        }
      } else {
        uint32_t out = 0x5a5a5a5a;
        if (!dec_lsb(dec, cs.c[i].n, &out)) {
          fail("decode-bits32-false", " :: at call " + std::to_string(i));
          return;
        }
        const uint32_t want = cs.c[i].v & mask_n(cs.c[i].n);
        if (out != want) {
          char b[96];
          snprintf(b, sizeof b, " :: at call %d got 0x%x want 0x%x", i, out, want);
          fail("value-mismatch", b);
          return;
        }
      }
    }
    // the decoder has consumed exactly the block: the sentinel is next
    uint32_t sent = 0;
    if (!db.Decode(&sent) || sent != kSentinel32) {
      fail("sentinel-not-next", " :: decoded_size " + std::to_string(db.decoded_size()) + " block " + std::to_string(block));
      return;
    }
    if (db.remaining_size() != 0) {
      fail("bytes-left-over", "");
      return;
    }
    // reads past the written data: memory safety is decided by ASan; the
    // direct coder must in addition fail or yield zeros.
    bool nonzero = false;
    for (int i = 0; i < o.extra_reads; ++i) nonzero |= dec.DecodeNextBit();
    if (o.extra_reads) {
      for (int k = 0; k < 2; ++k) {
        uint32_t out = 0;
        if (dec_lsb(dec, 32, &out) && out) nonzero = true;
      }
      if (nonzero) {
        if (cid == DIRECT) fail("read-past-end-nonzero", "");
        else ctx.count(std::string("past_end_reads_with_nonzero_bits:") + kCoderName[cid]);
      }
      ctx.count(std::string("past_end_probes:") + kCoderName[cid]);
    }
    dec.EndDecoding();
  } catch (const std::exception &e) {
    fail(std::string("decode-exception:") + typeid(e).name(), "");
    return;
  }
}

void run_any_coder(int cid, const Calls &cs, mc::Ctx &ctx, const CoderOpts &o) {
  switch (cid) {
    case RANS: run_coder<RAnsBitEncoder, RAnsBitDecoder>(cid, cs, ctx, o); break;
    case ADAPT: run_coder<AdaptiveRAnsBitEncoder, AdaptiveRAnsBitDecoder>(cid, cs, ctx, o); break;
    case DIRECT: run_coder<DirectBitEncoder, DirectBitDecoder>(cid, cs, ctx, o); break;
    case FOLDED: run_coder<FoldedBit32Encoder<RAnsBitEncoder>, FoldedBit32Decoder<RAnsBitDecoder>>(cid, cs, ctx, o); break;
    case SYMBOL: run_coder<SymbolBitEncoder, SymbolBitDecoder>(cid, cs, ctx, o); break;
  }
}

// --- (0) long structured bit strings: 0^a 1^b 0^c (and the complement) for a, b, c from a list of lengths around the
// coders' block and renormalisation thresholds; every 97th bit optionally replaced by a 32-bit value call.
const int kRunLens[14] = {0, 1, 7, 8, 9, 31, 32, 33, 255, 256, 257, 4095, 4096, 4097};
template <class Enc, class Dec>
void run_long_runs(int cid, uint64_t idx, mc::Ctx &ctx, std::string *desc) {
  const int a = kRunLens[idx % 14], b = kRunLens[(idx / 14) % 14], c = kRunLens[(idx / 196) % 14];
  const bool invert = (idx / 2744) % 2, with_values = (idx / 5488) % 2;
  if (desc) {
    *desc = std::string(kCoderName[cid]) + " bit coder: " + (invert ? "1" : "0") + "^" + std::to_string(a) + " " + (invert ? "0" : "1") + "^" + std::to_string(b) + " " +
            (invert ? "1" : "0") + "^" + std::to_string(c) + (with_values ? " with a 32-bit value call after every 97th bit" : "");
    return;
  }
  std::vector<uint8_t> bits;
  bits.insert(bits.end(), a, invert ? 1 : 0);
  bits.insert(bits.end(), b, invert ? 0 : 1);
  bits.insert(bits.end(), c, invert ? 1 : 0);
  Enc enc;
  enc.StartEncoding();
  for (size_t i = 0; i < bits.size(); ++i) {
    enc.EncodeBit(bits[i] != 0);
    if (with_values && i % 97 == 96) enc.EncodeLeastSignificantBits32(cid == SYMBOL ? 20 : 32, (uint32_t)(i * 2654435761u) & (cid == SYMBOL ? 0xFFFFFu : 0xFFFFFFFFu));
  }
  EncoderBuffer eb;
  enc.EndEncoding(&eb);
  eb.Encode(kSentinel32);
  DecoderBuffer db;
  db.Init(eb.data(), eb.size());
  db.set_bitstream_version(DRACO_BITSTREAM_VERSION(2, 2));
  Dec dec;
  const std::string sig = std::string("bitcoder:") + kCoderName[cid] + ":long-runs:";
  if (!dec.StartDecoding(&db)) {
    ctx.fail(sig + "start-decoding-false", "");
    return;
  }
  for (size_t i = 0; i < bits.size(); ++i) {
    const bool got = dec.DecodeNextBit();
    if (got != (bits[i] != 0)) {
      ctx.fail(sig + "bit-mismatch", "at bit " + std::to_string(i));
      return;
    }
    if (with_values && i % 97 == 96) {
      uint32_t v = 0;
      dec.DecodeLeastSignificantBits32(cid == SYMBOL ? 20 : 32, &v);
      const uint32_t want = (uint32_t)(i * 2654435761u) & (cid == SYMBOL ? 0xFFFFFu : 0xFFFFFFFFu);
      if (v != want) {
        ctx.fail(sig + "value-mismatch", "after bit " + std::to_string(i));
        return;
      }
    }
  }
  dec.EndDecoding();
  uint32_t s32 = 0;
  if (!db.Decode(&s32) || s32 != kSentinel32 || db.remaining_size() != 0) ctx.fail(sig + "not-self-delimiting", "");
  ctx.count(std::string("long_run_strings:") + kCoderName[cid]);
  ctx.state(mc::hash_bytes(eb.data(), eb.size()));
}
void add_long_runs_space(mc::Runner &R, int cid) {
  mc::Space sp;
  sp.name = std::string("bits_") + kCoderName[cid] + "_long_runs";
  sp.size = 2744 * 4;
  auto call = [cid](uint64_t idx, mc::Ctx &ctx, std::string *d) {
    switch (cid) {
      case RANS: run_long_runs<RAnsBitEncoder, RAnsBitDecoder>(cid, idx, ctx, d); break;
      case ADAPT: run_long_runs<AdaptiveRAnsBitEncoder, AdaptiveRAnsBitDecoder>(cid, idx, ctx, d); break;
      case DIRECT: run_long_runs<DirectBitEncoder, DirectBitDecoder>(cid, idx, ctx, d); break;
      case FOLDED: run_long_runs<FoldedBit32Encoder<RAnsBitEncoder>, FoldedBit32Decoder<RAnsBitDecoder>>(cid, idx, ctx, d); break;
      case SYMBOL: run_long_runs<SymbolBitEncoder, SymbolBitDecoder>(cid, idx, ctx, d); break;
    }
  };
  sp.run = [call](uint64_t idx, mc::Ctx &ctx) {
    call(idx, ctx, nullptr);
    ctx.nontrivial_unique();
  };
  sp.describe = [call](uint64_t idx) {
    std::string d;
    mc::Ctx dummy;
    call(idx, dummy, &d);
    return d;
  };
  R.add(sp);
}

// --- (1) every bit string of length lo..hi fed bit-wise.
// index = (2^L - 2^lo) + s for the string s of length L (bit 0 of s first).
void bits_from_index(uint64_t idx, int lo, Calls *cs) {
  int L = lo;
  uint64_t cnt = 1ull << lo;
  while (idx >= cnt) {
    idx -= cnt;
    ++L;
    cnt <<= 1;
  }
  cs->n = 0;
  for (int i = 0; i < L; ++i) cs->add(1, true, (idx >> i) & 1);
}
uint64_t bits_space_size(int lo, int hi) { return (1ull << (hi + 1)) - (1ull << lo); }

void add_bits_space(mc::Runner &R, int cid, int lo, int hi, bool quick, bool thorough) {
  mc::Space sp;
  sp.name = std::string("bits_") + kCoderName[cid] + "_len" + std::to_string(lo) + "to" + std::to_string(hi);
  sp.size = bits_space_size(lo, hi);
  sp.quick = quick;
  sp.thorough = thorough;
  sp.run = [=](uint64_t idx, mc::Ctx &ctx) {
    Calls cs;
    bits_from_index(idx, lo, &cs);
    CoderOpts o;
    o.hash_state = true;
    o.extra_reads = cid == SYMBOL ? 0 : 40;
    run_any_coder(cid, cs, ctx, o);
    ctx.count(std::string("bitwise_strings:") + kCoderName[cid]);
    // non-trivial: the string holds both bit values
    bool z = false, one = false;
    for (int i = 0; i < cs.n; ++i) (cs.c[i].v ? one : z) = true;
    if (z && one) ctx.nontrivial_unique();
  };
  sp.describe = [=](uint64_t idx) {
    Calls cs;
    bits_from_index(idx, lo, &cs);
    return std::string(kCoderName[cid]) + " bit coder, EncodeBit x" + std::to_string(cs.n) + ": " + show_calls(cs);
  };
  sp.klass = [=](uint64_t idx) {
    Calls cs;
    bits_from_index(idx, lo, &cs);
    return std::string(kCoderName[cid]) + "," + calls_klass(cid, cs);
  };
  R.add(sp);
}

// --- (2) every sequence of ...Bits32(n) calls, n in {1,2,7,31,32}, by payload.
// A call of width 1/2/7 takes its value from 1/2/7 payload bits (all values);
// a call of width 31/32 takes 3 payload bits that select one of 8 patterns.
// All sequences whose payload is <= 12 bits, with all payloads.
const int kWidths[5] = {1, 2, 7, 31, 32};
const int kCost[5] = {1, 2, 7, 3, 3};
struct Comp {
  uint8_t w[12];
  uint8_t n;
  uint8_t cost;
};
std::vector<Comp> g_comps;            // sorted by cost
std::vector<uint64_t> g_comp_offset;  // cumulative payload counts (index of first case)
uint64_t g_parts_lo_size = 0;         // cases with cost <= 9
uint64_t g_parts_total = 0;           // cases with cost <= 12
const int kPartsLoCost = 9, kPartsHiCost = 12;

void gen_comps(Comp cur, int cost_left, std::vector<Comp> *out) {
  out->push_back(cur);
  for (int k = 0; k < 5; ++k) {
    if (kCost[k] > cost_left || cur.n >= 12) continue;
    Comp nx = cur;
    nx.w[nx.n++] = static_cast<uint8_t>(kWidths[k]);
    nx.cost = static_cast<uint8_t>(cur.cost + kCost[k]);
    gen_comps(nx, cost_left - kCost[k], out);
  }
}
void build_comps() {
  Comp c;
  memset(&c, 0, sizeof c);
  gen_comps(c, kPartsHiCost, &g_comps);
  std::stable_sort(g_comps.begin(), g_comps.end(), [](const Comp &a, const Comp &b) { return a.cost < b.cost; });
  uint64_t off = 0;
  for (auto &k : g_comps) {
    if (k.cost == kPartsLoCost + 1 && g_parts_lo_size == 0) g_parts_lo_size = off;
    g_comp_offset.push_back(off);
    off += 1ull << k.cost;
  }
  g_parts_total = off;
}
uint32_t wide_pattern(int n, int k, int cid) {
  const uint32_t m = mask_n(n);
  uint32_t v;
  switch (k) {
    case 0: v = 0; break;
    case 1: v = 1; break;
    case 2: v = 1u << (n - 1); break;
    case 3: v = m; break;
    case 4: v = 0x55555555u & m; break;
    case 5: v = 0xAAAAAAAAu & m; break;
    case 6: v = (1u << (n - 1)) - 1u; break;
    default: v = 0x92345678u & m; break;
  }
  // The symbol coder aborts the process on 0x7fffffff (signed overflow of
  // max_value + 1 in ComputeShannonEntropy) and, before e3d4048, on
  // 0xffffffff. Both values are exercised in widths_symbol; a crash costs a
  // worker restart, so this large space uses the neighbours below them.
  if (cid == SYMBOL && (v == 0x7FFFFFFFu || v == 0xFFFFFFFFu)) v -= 1;
  return v;
}
void parts_from_index(uint64_t idx, int cid, Calls *cs) {
  size_t ci = std::upper_bound(g_comp_offset.begin(), g_comp_offset.end(), idx) - g_comp_offset.begin() - 1;
  const Comp &c = g_comps[ci];
  uint64_t payload = idx - g_comp_offset[ci];
  cs->n = 0;
  for (int i = 0; i < c.n; ++i) {
    const int w = c.w[i];
    if (w <= 7) {
      cs->add(w, false, static_cast<uint32_t>(payload & mask_n(w)));
      payload >>= w;
    } else {
      cs->add(w, false, wide_pattern(w, payload & 7, cid));
      payload >>= 3;
    }
  }
}
void add_parts_space(mc::Runner &R, int cid, bool hi, bool quick, bool thorough) {
  mc::Space sp;
  const uint64_t first = hi ? g_parts_lo_size : 0;
  sp.name = std::string("parts_") + kCoderName[cid] + (hi ? "_payload10to12" : "_payload0to9");
  sp.size = hi ? g_parts_total - g_parts_lo_size : g_parts_lo_size;
  sp.quick = quick;
  sp.thorough = thorough;
  sp.run = [=](uint64_t idx, mc::Ctx &ctx) {
    Calls cs;
    parts_from_index(first + idx, cid, &cs);
    CoderOpts o;
    run_any_coder(cid, cs, ctx, o);
    ctx.count(std::string("bits32_call_sequences:") + kCoderName[cid]);
    if (cs.n >= 2) ctx.nontrivial_unique();
  };
  sp.describe = [=](uint64_t idx) {
    Calls cs;
    parts_from_index(first + idx, cid, &cs);
    return std::string(kCoderName[cid]) + " bit coder: " + show_calls(cs);
  };
  sp.klass = [=](uint64_t idx) {
    Calls cs;
    parts_from_index(first + idx, cid, &cs);
    return std::string(kCoderName[cid]) + "," + calls_klass(cid, cs);
  };
  R.add(sp);
}

// --- (3) every width 1..32 with boundary values: single calls and pairs,
// with and without interleaved EncodeBit calls.
uint32_t width_value(int n, int k) {
  const uint32_t m = mask_n(n);
  switch (k) {
    case 0: return 0;
    case 1: return 1;
    case 2: return 1u << (n - 1);
    case 3: return m;
    case 4: return (1u << (n - 1)) - 1u;
    case 5: return 0x55555555u & m;
    case 6: return 0xAAAAAAAAu & m;
    default: return 0xFFFFFFFFu;  // bits above n set: only the low n count
  }
}
const uint64_t kWV = 32 * 8;  // (width, value) combinations
// general coders: singles + all pairs, each with and without interleaved
// EncodeBit calls; symbol coder (values above 2^18 cost O(value) time and
// memory there): singles, singles with interleaved EncodeBit, (x,(1,1)),
// ((1,1),x).
uint64_t widths_size(int cid) { return cid == SYMBOL ? 4 * kWV : 2 * (kWV + kWV * kWV); }
void widths_from_index(uint64_t idx, int cid, Calls *cs) {
  bool mix;
  int a = -1, b = -1;  // (width,value) ids, -2 = the fixed call Bits32(1,1)
  if (cid == SYMBOL) {
    const int which = static_cast<int>(idx / kWV);
    const int x = static_cast<int>(idx % kWV);
    mix = which == 1;
    if (which <= 1) a = x;
    else if (which == 2) { a = x; b = -2; }
    else { a = -2; b = x; }
  } else if (mix = idx >= widths_size(cid) / 2, idx %= widths_size(cid) / 2, idx < kWV) {
    a = static_cast<int>(idx);
  } else {
    idx -= kWV;
    a = static_cast<int>(idx / kWV);
    b = static_cast<int>(idx % kWV);
  }
  cs->n = 0;
  auto put = [&](int id) {
    if (id == -2) cs->add(1, false, 1);
    else cs->add(id / 8 + 1, false, width_value(id / 8 + 1, id % 8));
  };
  if (mix) cs->add(1, true, 1);
  put(a);
  if (mix) cs->add(1, true, 0);
  if (b != -1) put(b);
  if (mix) cs->add(1, true, 1);
}
void add_widths_space(mc::Runner &R, int cid) {
  mc::Space sp;
  sp.name = std::string("widths_") + kCoderName[cid];
  sp.size = widths_size(cid);
  sp.timeout_s = 60;
  sp.run = [=](uint64_t idx, mc::Ctx &ctx) {
    Calls cs;
    widths_from_index(idx, cid, &cs);
    CoderOpts o;
    run_any_coder(cid, cs, ctx, o);
    ctx.count(std::string("width_cases:") + kCoderName[cid]);
    ctx.nontrivial_unique();
  };
  sp.describe = [=](uint64_t idx) {
    Calls cs;
    widths_from_index(idx, cid, &cs);
    return std::string(kCoderName[cid]) + " bit coder: " + show_calls(cs);
  };
  sp.klass = [=](uint64_t idx) {
    Calls cs;
    widths_from_index(idx, cid, &cs);
    return std::string(kCoderName[cid]) + "," + calls_klass(cid, cs);
  };
  R.add(sp);
}

// --- (4) symbol bit decoder read one value past the written ones.
void add_symbol_past_end_space(mc::Runner &R) {
  mc::Space sp;
  sp.name = "past_end_symbol";
  sp.size = bits_space_size(0, 2);  // strings of length 0..2
  sp.run = [=](uint64_t idx, mc::Ctx &ctx) {
    Calls cs;
    bits_from_index(idx, 0, &cs);
    CoderOpts o;
    o.extra_reads = 1;
    run_any_coder(SYMBOL, cs, ctx, o);
  };
  sp.describe = [=](uint64_t idx) {
    Calls cs;
    bits_from_index(idx, 0, &cs);
    return "symbol bit coder: " + show_calls(cs) + ", then one DecodeNextBit and two DecodeLeastSignificantBits32(32) past the written data";
  };
  sp.klass = [=](uint64_t) { return std::string("symbol,read-past-end"); };
  R.add(sp);
}

// ------------------------------------------- EncoderBuffer/DecoderBuffer
enum OpKind { OP_E8, OP_E16, OP_EV, OP_START, OP_PUT, OP_PUTN, OP_END, OP_CLEAR };
struct Op {
  OpKind k;
  int64_t a;   // value / required_bits / nbits
  uint32_t b;  // encode_size flag / bits value
  const char *name;
};
const Op kOps[] = {
    {OP_E8, 0xA5, 0, "Encode<u8>(0xa5)"},
    {OP_E16, 0xBEEF, 0, "Encode<u16>(0xbeef)"},
    {OP_EV, 0, 0, "EncodeVarint<u32>(0)"},
    {OP_EV, 300, 0, "EncodeVarint<u32>(300)"},
    {OP_EV, 0xFFFFFFFFll, 0, "EncodeVarint<u32>(0xffffffff)"},
    {OP_START, 1, 0, "StartBitEncoding(1,false)"},
    {OP_START, 1, 1, "StartBitEncoding(1,true)"},
    {OP_START, 33, 0, "StartBitEncoding(33,false)"},
    {OP_START, 33, 1, "StartBitEncoding(33,true)"},
    {OP_START, 1100, 0, "StartBitEncoding(1100,false)"},
    {OP_START, 1100, 1, "StartBitEncoding(1100,true)"},
    {OP_START, 0, 1, "StartBitEncoding(0,true)"},
    {OP_PUT, 1, 1, "Bits32(1,1)"},
    {OP_PUT, 3, 0xFFFFFFFDu, "Bits32(3,0xfffffffd)"},
    {OP_PUT, 7, 0x55, "Bits32(7,0x55)"},
    {OP_PUT, 32, 0xDEADBEEFu, "Bits32(32,0xdeadbeef)"},
    {OP_PUTN, 32, 0xCAFEF00Du, "33xBits32(32,0xcafef00d)"},
    {OP_END, 0, 0, "EndBitEncoding"},
    {OP_CLEAR, 0, 0, "Clear"},
};
const int kNumOps = sizeof(kOps) / sizeof(kOps[0]);
const int kPutNRepeat = 33;

struct Item {
  int kind;  // 0 u8, 1 u16, 2 varint u32, 3 bit sequence
  uint64_t v = 0;
  bool with_size = false;
  std::vector<std::pair<int, uint32_t>> puts;  // (nbits, value as passed)
  int64_t bits() const {
    int64_t t = 0;
    for (auto &p : puts) t += p.first;
    return t;
  }
};
struct Model {
  std::vector<Item> items;
  bool bit = false;
  int64_t reserved_bits = 0;
  int64_t used_bits = 0;
  Item cur;
  uint64_t hash() const {
    uint64_t h = bit ? 0x1234 : 0x77;
    auto hi = [&](const Item &it) {
      h = mc::hash_combine(h, it.kind * 3 + it.with_size);
      h = mc::hash_combine(h, it.v);
      for (auto &p : it.puts) h = mc::hash_combine(h, (uint64_t(p.first) << 32) | p.second);
    };
    for (auto &it : items) hi(it);
    if (bit) {
      h = mc::hash_combine(h, reserved_bits);
      hi(cur);
    }
    return h;
  }
};

void ops_from_index(uint64_t idx, int min_len, std::vector<int> *ops) {
  int d = min_len;
  uint64_t cnt = 1;
  for (int i = 0; i < min_len; ++i) cnt *= kNumOps;
  while (idx >= cnt) {
    idx -= cnt;
    ++d;
    cnt *= kNumOps;
  }
  ops->clear();
  for (int i = 0; i < d; ++i) {
    ops->push_back(static_cast<int>(idx % kNumOps));
    idx /= kNumOps;
  }
}
std::string show_ops(const std::vector<int> &ops) {
  std::string s = "EncoderBuffer ops:";
  for (int o : ops) s += std::string(" ") + kOps[o].name + ";";
  if (ops.empty()) s += " (none)";
  s += " then EndBitEncoding if open, Encode<u32>(sentinel), mirrored DecoderBuffer reads on the full stream and on every proper prefix";
  return s;
}

// Mirrored reads of |m| from the first |n| bytes of the stream (n == full
// length: everything must decode; n smaller: reads that lie inside the prefix
// must decode, the first one that does not must fail or yield zeros).
// Returns nullptr or what went wrong.
const char *read_back(const char *data, size_t n, size_t full, const Model &m, uint64_t *reads) {
  Exact ex(data, n);
  DecoderBuffer db;
  db.Init(ex.p, ex.n, kVersion);
  const bool truncated = n < full;
  size_t pos = 0;
  for (const Item &it : m.items) {
    // wrong-mode call on the decoder: must be refused and change nothing
    uint32_t x = 0;
    if (db.DecodeLeastSignificantBits32(1, &x)) return "decoder:bits32-outside-bit-mode-accepted";
    if (static_cast<size_t>(db.decoded_size()) != pos) return "decoder:position-wrong";
    ++*reads;
    if (it.kind == 0) {
      uint8_t o = 0;
      const bool ok = db.Decode(&o);
      if (pos + 1 > n) return ok ? "decoder:read-past-end-succeeded" : nullptr;
      if (!ok || o != static_cast<uint8_t>(it.v)) return "decoder:u8-mismatch";
      pos += 1;
    } else if (it.kind == 1) {
      uint16_t o = 0;
      const bool ok = db.Decode(&o);
      if (pos + 2 > n) return ok ? "decoder:read-past-end-succeeded" : nullptr;
      if (!ok || o != static_cast<uint16_t>(it.v)) return "decoder:u16-mismatch";
      pos += 2;
    } else if (it.kind == 2) {
      uint32_t o = 0;
      const bool ok = DecodeVarint<uint32_t>(&o, &db);
      const size_t len = ref_groups(it.v);
      if (pos + len > n) return ok ? "decoder:read-past-end-succeeded" : nullptr;
      if (!ok || o != static_cast<uint32_t>(it.v)) return "decoder:varint-mismatch";
      pos += len;
    } else {
      const int64_t nbits = it.bits();
      const size_t bytes = static_cast<size_t>((nbits + 7) / 8);
      uint64_t sz = ~0ull;
      size_t hdr = 0;
      if (it.with_size) {
        hdr = ref_groups(bytes);
        const bool ok = db.StartBitDecoding(true, &sz);
        if (pos + hdr > n) return ok ? "decoder:read-past-end-succeeded" : nullptr;
        if (!ok) return "decoder:start-bit-decoding-false";
        if (sz != bytes) return "decoder:bit-sequence-size-mismatch";
      } else {
        if (!db.StartBitDecoding(false, nullptr)) return "decoder:start-bit-decoding-false";
      }
      if (!db.bit_decoder_active()) return "decoder:bit-mode-not-active";
      const size_t rs = pos + hdr;
      const int64_t avail = static_cast<int64_t>(n - rs) * 8;  // bits present in this prefix
      int64_t bp = 0;
      for (auto &p : it.puts) {
        uint32_t o = 0x5a5a5a5a;
        if (!db.DecodeLeastSignificantBits32(p.first, &o)) return "decoder:bits32-false";
        uint32_t want = p.second & mask_n(p.first);
        if (bp + p.first > avail) {
          // bits beyond the end of the data read as zero
          const int64_t keep = avail > bp ? avail - bp : 0;
          want &= keep >= 32 ? 0xFFFFFFFFu : ((1u << keep) - 1u);
        }
        if (o != want) return (bp + p.first > avail) ? "decoder:bits-past-end-not-zero" : "decoder:bits-mismatch";
        bp += p.first;
      }
      uint32_t o33 = 0;
      if (db.DecodeLeastSignificantBits32(33, &o33)) return "decoder:bits32-width33-accepted";
      db.EndBitDecoding();
      if (db.bit_decoder_active()) return "decoder:bit-mode-still-active";
      if (rs + bytes > n) {
        if (db.remaining_size() < 0) return "decoder:position-past-end";
        return nullptr;
      }
      pos = rs + bytes;
    }
  }
  if (truncated) return nullptr;  // the cut lies inside the sentinel
  uint32_t sent = 0;
  if (static_cast<size_t>(db.decoded_size()) != pos) return "decoder:position-wrong";
  if (!db.Decode(&sent) || sent != kSentinel32) return "decoder:sentinel-not-next";
  if (db.remaining_size() != 0) return "decoder:bytes-left-over";
  // reads past the end: fail or zeros, position unchanged
  uint8_t a = 0;
  uint16_t b = 0;
  uint32_t c = 0;
  uint64_t d = 0;
  char raw[3];
  if (db.Decode(&a) || db.Decode(&b) || db.Decode(&c) || db.Decode(&d) || db.Peek(&a) || db.Decode(raw, 1) || db.Peek(raw, 3))
    return "decoder:read-past-end-succeeded";
  if (DecodeVarint<uint32_t>(&c, &db) || DecodeVarint<uint64_t>(&d, &db)) return "decoder:read-past-end-succeeded";
  uint64_t sz = 0;
  if (db.StartBitDecoding(true, &sz)) return "decoder:read-past-end-succeeded";
  if (!db.StartBitDecoding(false, nullptr)) return "decoder:start-bit-decoding-false";
  uint32_t z = 0x5a5a5a5a;
  if (!db.DecodeLeastSignificantBits32(32, &z) || z != 0) return "decoder:bits-past-end-not-zero";
  z = 0x5a5a5a5a;
  if (!db.DecodeLeastSignificantBits32(1, &z) || z != 0) return "decoder:bits-past-end-not-zero";
  db.EndBitDecoding();
  if (db.remaining_size() != 0) return "decoder:position-moved-by-reads-past-end";
  return nullptr;
}

void run_bufsm(const std::vector<int> &ops, mc::Ctx &ctx) {
  EncoderBuffer eb;
  Model m;
  uint64_t transitions = 0, wrong_mode = 0;
  auto fail = [&](const std::string &sig, const std::string &more) { ctx.fail(sig, show_ops(ops) + " :: " + more); };
  // Calls |f| expecting it to be refused: it must return false (when it has a
  // result) and leave size and contents untouched.
  auto unchanged = [&](const std::vector<char> &before) {
    return eb.size() == before.size() && (before.empty() || memcmp(eb.data(), before.data(), before.size()) == 0);
  };
  for (size_t step = 0; step < ops.size(); ++step) {
    const Op &op = kOps[ops[step]];
    const std::string at = std::string(op.name) + " at step " + std::to_string(step);
    const std::vector<char> before(eb.data(), eb.data() + eb.size());
    const bool was_bit = m.bit;
    if (eb.bit_encoder_active() != m.bit) {
      fail("encbuf:bit_encoder_active-wrong", at);
      return;
    }
    ++transitions;
    switch (op.k) {
      case OP_E8:
      case OP_E16:
      case OP_EV: {
        bool r;
        if (op.k == OP_E8) r = eb.Encode(static_cast<uint8_t>(op.a));
        else if (op.k == OP_E16) r = eb.Encode(static_cast<uint16_t>(op.a));
        else r = EncodeVarint<uint32_t>(static_cast<uint32_t>(op.a), &eb);
        if (was_bit) {
          ++wrong_mode;
          if (r) { fail("encbuf:byte-write-in-bit-mode-accepted", at); return; }
          if (!unchanged(before)) { fail("encbuf:refused-call-changed-buffer", at); return; }
        } else {
          if (!r) { fail("encbuf:byte-write-returned-false", at); return; }
          Item it;
          it.kind = op.k == OP_E8 ? 0 : op.k == OP_E16 ? 1 : 2;
          it.v = static_cast<uint64_t>(op.a);
          m.items.push_back(it);
        }
        break;
      }
      case OP_START: {
        const bool r = eb.StartBitEncoding(op.a, op.b != 0);
        const bool want = !was_bit && op.a > 0;
        if (r != want) { fail(want ? "encbuf:start-bit-encoding-false" : "encbuf:invalid-start-bit-encoding-accepted", at); return; }
        if (!want) {
          ++wrong_mode;
          if (!unchanged(before)) { fail("encbuf:refused-call-changed-buffer", at); return; }
        } else {
          m.bit = true;
          m.reserved_bits = op.a;
          m.used_bits = 0;
          m.cur = Item();
          m.cur.kind = 3;
          m.cur.with_size = op.b != 0;
        }
        break;
      }
      case OP_PUT:
      case OP_PUTN: {
        const int rep = op.k == OP_PUTN ? kPutNRepeat : 1;
        if (was_bit && m.used_bits + rep * op.a > m.reserved_bits) {
          // more bits than announced to StartBitEncoding: outside the contract
          ctx.count("bufsm_sequences_cut_at_precondition");
          --transitions;
          goto done;
        }
        for (int k = 0; k < rep; ++k) {
          const bool r = eb.EncodeLeastSignificantBits32(static_cast<int>(op.a), op.b);
          if (!was_bit) {
            if (r) { fail("encbuf:bits32-in-byte-mode-accepted", at); return; }
            if (!unchanged(before)) { fail("encbuf:refused-call-changed-buffer", at); return; }
          } else {
            if (!r) { fail("encbuf:bits32-returned-false", at); return; }
            m.cur.puts.emplace_back(static_cast<int>(op.a), op.b);
            m.used_bits += op.a;
          }
        }
        if (!was_bit) ++wrong_mode;
        break;
      }
      case OP_END:
        eb.EndBitEncoding();
        if (was_bit) {
          m.items.push_back(m.cur);
          m.bit = false;
        } else {
          ++wrong_mode;
          if (!unchanged(before)) { fail("encbuf:end-bit-encoding-in-byte-mode-changed-buffer", at); return; }
        }
        break;
      case OP_CLEAR:
        eb.Clear();
        m = Model();
        if (eb.size() != 0) { fail("encbuf:clear-left-bytes", at); return; }
        break;
    }
    ctx.state(m.hash());
  }
done:
  if (m.bit) {
    eb.EndBitEncoding();
    m.items.push_back(m.cur);
    m.bit = false;
  }
  if (eb.bit_encoder_active()) { fail("encbuf:bit_encoder_active-wrong", "after the final EndBitEncoding"); return; }
  // expected stream length from the reference model
  size_t expect = 0;
  bool has_bits = false, has_bytes = false, has_sized = false, has_sized2 = false;
  for (auto &it : m.items) {
    if (it.kind == 0) expect += 1;
    else if (it.kind == 1) expect += 2;
    else if (it.kind == 2) expect += ref_groups(it.v);
    else {
      const size_t bytes = static_cast<size_t>((it.bits() + 7) / 8);
      expect += bytes + (it.with_size ? ref_groups(bytes) : 0);
      if (it.bits() > 0) has_bits = true;
      if (it.with_size && it.bits() > 0) has_sized = true;
      if (it.with_size && bytes >= 128) has_sized2 = true;
    }
    if (it.kind != 3) has_bytes = true;
  }
  if (!eb.Encode(kSentinel32)) { fail("encbuf:sentinel-encode-false", ""); return; }
  const size_t full = eb.size();
  uint64_t reads = 0;
  const char *w = read_back(eb.data(), full, full, m, &reads);
  if (w) { fail(std::string("bufsm:") + w, "full stream " + mc::hex(eb.data(), std::min<size_t>(full, 64))); return; }
  if (full != expect + 4) { fail("bufsm:stream-length-differs-from-model", "size " + std::to_string(full) + " model " + std::to_string(expect + 4)); return; }
  // every proper prefix (long streams: the first 48 and the last 48 cuts)
  uint64_t cuts = 0;
  for (size_t k = 0; k < full; ++k) {
    if (full > 96 && k >= 48 && k < full - 48) continue;
    w = read_back(eb.data(), k, full, m, &reads);
    ++cuts;
    if (w) { fail(std::string("bufsm:truncated:") + w, "prefix of " + std::to_string(k) + " bytes of " + mc::hex(eb.data(), std::min<size_t>(full, 64))); return; }
  }
  ctx.count("bufsm_transitions", transitions);
  ctx.count("bufsm_wrong_mode_calls_refused", wrong_mode);
  ctx.count("bufsm_mirrored_reads", reads);
  ctx.count("bufsm_truncated_streams", cuts);
  if (has_sized) ctx.count("bufsm_sequences_with_sized_bit_region");
  if (has_sized2) ctx.count("bufsm_sequences_with_2byte_size_prefix");
  if (has_bits && has_bytes) ctx.nontrivial_unique();
}

void add_bufsm_space(mc::Runner &R, const std::string &name, int lo, int hi, bool quick, bool thorough) {
  uint64_t size = 0, p = 1;
  for (int d = 0; d <= hi; ++d) {
    if (d >= lo) size += p;
    p *= kNumOps;
  }
  mc::Space sp;
  sp.name = name;
  sp.size = size;
  sp.quick = quick;
  sp.thorough = thorough;
  sp.run = [=](uint64_t idx, mc::Ctx &ctx) {
    std::vector<int> ops;
    ops_from_index(idx, lo, &ops);
    run_bufsm(ops, ctx);
  };
  sp.describe = [=](uint64_t idx) {
    std::vector<int> ops;
    ops_from_index(idx, lo, &ops);
    return show_ops(ops);
  };
  R.add(sp);
}

}  // namespace

int main(int argc, char **argv) {
  mc::Runner R(argc, argv, "C17");
  R.level = "model_checking";
  R.distinct_bits = 26;
  const bool sweep = R.flag("sweep32");
  build_slice();
  build_comps();
  R.rule =
      "exhaustive enumeration, nothing sampled. varint/zig-zag/Encode<T>: every 8- and 16-bit value, every one of the 2^32 "
      "32-bit values (as u32, i32 and f32 bit pattern; -O2 part, plus an ASan slice of " +
      std::to_string(g_slice_a.size()) + " (quick) / " + std::to_string(g_slice_a.size() + g_slice_b.size()) +
      " (thorough) chunks of 2^16 values around every length/sign boundary and at regular strides), every 64-bit value built from 7-bit groups {00,01,40,7f} "
      "over 1..10 groups; bit coders (rans, adaptive, direct, folded<rans>, symbol): every bit string of length 0..16 "
      "(quick) / 0..20 (thorough) fed with EncodeBit, every sequence of EncodeLeastSignificantBits32(n,v) calls with n in "
      "{1,2,7,31,32} whose payload is <= 9 (quick) / <= 12 (thorough) bits where widths 1/2/7 take all values and widths "
      "31/32 take 3 payload bits selecting one of 8 boundary patterns, every width 1..32 with 8 boundary values as single "
      "call and as pair (symbol coder: single and paired with Bits32(1,1)) with and without interleaved EncodeBit; "
      "EncoderBuffer: every sequence of <= 4 (quick) / <= 5 (thorough) operations from a 19-operation alphabet run in "
      "lockstep with a reference model, then mirrored DecoderBuffer reads of the full stream, of every proper prefix and "
      "past the end from an exact-size heap block. states = distinct reference-model states of the buffer machine + "
      "distinct encoded blocks of the bit-wise spaces; non-trivial (distinct by construction, one input per index) = "
      "varint values needing more than one byte, bit strings holding both bit values, call sequences of >= 2 calls, "
      "buffer sequences that commit both a byte-mode write and a non-empty bit sequence";
  R.explanation =
      "stateless exhaustive enumeration on the real draco primitives; oracle = decoded == written, sentinel decodes next, "
      "remaining_size()==0, refused wrong-mode calls change nothing, reads past the end fail or yield zeros; reference "
      "model = item list + std::vector of bit writes, varint lengths from a plain LEB128/zig-zag reference";
  R.assumptions = {
      "DRACO_DCHECK is compiled out (as in every shipped configuration)",
      "EncoderBuffer bit writes stay within the bit count announced to StartBitEncoding (documented precondition); "
      "sequences that would exceed it are cut at that point",
      "bit-coder decode calls mirror the encode calls (same widths in the same order)",
      "for the rANS based coders reads past the written data are only required to be memory safe (their bits depend on "
      "the coder state); zeros/failure is required of DecoderBuffer and DirectBitDecoder",
      "single allocations above 256 MiB are refused with std::bad_alloc by the harness allocator cap",
      "SymbolBit coder in the large call-sequence spaces uses 0x7ffffffe / 0xfffffffe instead of 0x7fffffff / 0xffffffff "
      "(those two values are exercised in widths_symbol) to bound the number of process-aborting cases"};
  R.transition_counters = {"bufsm_transitions"};

  auto ints32_describe = [](uint64_t chunk, const char *pre) {
    char b[260];
    snprintf(b, sizeof b,
             "%svarint u32, varint i32, Encode<u32>, Encode<i32>, Encode<f32> and zig-zag of all 2^16 bit patterns "
             "0x%08llx..0x%08llx",
             pre, (unsigned long long)(chunk << 16), (unsigned long long)((chunk << 16) + 65535));
    return std::string(b);
  };
  if (sweep) {
    // part run at -O2: all 2^32 values
    mc::Space a;
    a.name = "varint32_all";
    a.size = 65536;
    a.cases_per_index = 2 * 65536;
    a.run = [](uint64_t idx, mc::Ctx &ctx) { run_ints32_chunk<false, true, false>(idx, ctx); };
    a.describe = [=](uint64_t idx) { return ints32_describe(idx, "[varint u32, varint i32, zig-zag only] "); };
    R.add(a);
    // Encode<T>/Decode<T> is a memcpy: its 2^32 sweep runs in the thorough tier
    // only (quick covers it on the ASan slice).
    mc::Space b;
    b.name = "scalar32_all";
    b.size = 65536;
    b.quick = false;
    b.cases_per_index = 3 * 65536;
    b.run = [](uint64_t idx, mc::Ctx &ctx) { run_ints32_chunk<false, false, true>(idx, ctx); };
    b.describe = [=](uint64_t idx) { return ints32_describe(idx, "[Encode<u32>, Encode<i32>, Encode<f32> only] "); };
    R.add(b);
    R.require("varint32_len5", 1);
    R.require("varint32_len1", 1);
    return R.main();
  }

  {
    mc::Space sp;
    sp.name = "ints_8_16";
    sp.size = 65536 / kSmallChunk;
    sp.cases_per_index = 2 * kSmallChunk;
    sp.run = run_small;
    sp.describe = [](uint64_t idx) {
      return "varint, truncated varint, zig-zag and Encode<T> of u16/i16 bit patterns " + std::to_string(idx * kSmallChunk) + ".." +
             std::to_string(idx * kSmallChunk + kSmallChunk - 1) + (idx == 0 ? " and of all u8/i8 values" : "");
    };
    R.add(sp);
  }
  {
    mc::Space sp;
    sp.name = "ints_64_structured";
    sp.size = kStruct64Size;
    sp.cases_per_index = 2;
    sp.run = run_struct64;
    sp.describe = describe_struct64;
    R.add(sp);
  }
  for (int k = 0; k < 2; ++k) {
    const std::vector<uint32_t> *chunks = k ? &g_slice_b : &g_slice_a;
    mc::Space sp;
    sp.name = k ? "ints32_asan_slice_b" : "ints32_asan_slice_a";
    sp.size = chunks->size();
    sp.quick = k == 0;
    sp.cases_per_index = 5 * 65536;
    sp.run = [=](uint64_t idx, mc::Ctx &ctx) { run_ints32_chunk<true, true, true>((*chunks)[idx], ctx); };
    sp.describe = [=](uint64_t idx) {
      return ints32_describe((*chunks)[idx], "ASan slice (exact-size block, every truncated varint prefix): ");
    };
    R.add(sp);
  }
  // Final-state serialisation of the rANS coders: EVERY legal final state of the bit coder (L_BASE .. L_BASE*256-1) and of the symbol
  // coder at precision 12 (all 4.2 M states) and 20 (a band of 2^16 states around every length-tag boundary and both ends), written
  // by write_end behind 0..3 payload bytes and read back by read_init: same state, same payload offset.
  {
    mc::Space sp;
    sp.name = "rans_final_states";
    const uint64_t kChunk = 4096;
    // the lower bound of the normalised state interval is what write_init starts from; the interval is [L, L * 256) (byte-wise I/O)
    uint8_t probe[16];
    draco::AnsCoder pw;
    draco::ans_write_init(&pw, probe);
    const uint64_t kLBase = pw.state, kIoBase = 256;
    draco::RAnsEncoder<12> p12w;
    p12w.write_init(probe);
    draco::RAnsEncoder<20> p20w;
    p20w.write_init(probe);
    const uint64_t bit_states = kLBase * kIoBase - kLBase;
    const uint64_t p12_base = p12w.ans_.state, p12_states = p12_base * kIoBase - p12_base;
    const uint64_t p20_base = p20w.ans_.state;
    auto p20 = std::make_shared<std::vector<uint64_t>>();  // chunk starts (state - base)
    for (uint64_t centre : {uint64_t(1) << 6, uint64_t(1) << 14, uint64_t(1) << 22, uint64_t(1) << 30})
      for (uint64_t k = 0; k < 16; ++k) {
        const uint64_t start = centre > 8 * kChunk ? centre - 8 * kChunk + k * kChunk : k * kChunk;
        if (start + kChunk <= p20_base * kIoBase - p20_base) p20->push_back(start);
      }
    for (uint64_t k = 0; k < 16; ++k) p20->push_back(p20_base * kIoBase - p20_base - (k + 1) * kChunk);
    const uint64_t n_bit = (bit_states + kChunk - 1) / kChunk, n_p12 = (p12_states + kChunk - 1) / kChunk, n_p20 = p20->size();
    sp.size = n_bit + n_p12 + n_p20;
    sp.quick = sp.thorough = true;
    sp.cases_per_index = kChunk * 4;
    sp.run = [=](uint64_t idx, mc::Ctx &ctx) {
      uint8_t buf[16];
      auto fail = [&](const char *what, uint64_t state, int payload, uint64_t got, int off) {
        ctx.fail(std::string("rans-final-state:") + what,
                 "state " + std::to_string(state) + " behind " + std::to_string(payload) + " payload bytes reads back as state " + std::to_string(got) + " payload offset " + std::to_string(off));
      };
      if (idx < n_bit) {
        for (uint64_t s = idx * kChunk; s < std::min(bit_states, (idx + 1) * kChunk); ++s)
          for (int payload = 0; payload < 4; ++payload) {
            memset(buf, 0xA5, sizeof buf);
            draco::AnsCoder w;
            draco::ans_write_init(&w, buf);
            w.buf_offset = payload;
            w.state = (uint32_t)(s + kLBase);
            const int n = draco::ans_write_end(&w);
            draco::AnsDecoder r;
            const int rc = draco::ans_read_init(&r, buf, n);
            ctx.count("rans_states_round_tripped");
            if (rc != 0 || r.state != s + kLBase || r.buf_offset != payload) {
              fail("bit-coder", s + kLBase, payload, rc ? 0 : r.state, rc ? -1 : r.buf_offset);
              return;
            }
          }
      } else {
        const bool is12 = idx < n_bit + n_p12;
        const uint64_t start = is12 ? (idx - n_bit) * kChunk : (*p20)[idx - n_bit - n_p12];
        const uint64_t base = is12 ? p12_base : p20_base, states = is12 ? p12_states : p20_base * kIoBase - p20_base;
        for (uint64_t s = start; s < std::min(states, start + kChunk); ++s)
          for (int payload = 0; payload < 4; ++payload) {
            memset(buf, 0xA5, sizeof buf);
            uint64_t got = 0;
            int off = -1, rc = 1;
            if (is12) {
              draco::RAnsEncoder<12> w;
              w.write_init(buf);
              w.ans_.buf_offset = payload;
              w.ans_.state = (uint32_t)(s + base);
              const int n = w.write_end();
              draco::RAnsDecoder<12> r;
              rc = r.read_init(buf, n);
              got = r.ans_.state;
              off = r.ans_.buf_offset;
            } else {
              draco::RAnsEncoder<20> w;
              w.write_init(buf);
              w.ans_.buf_offset = payload;
              w.ans_.state = (uint32_t)(s + base);
              const int n = w.write_end();
              draco::RAnsDecoder<20> r;
              rc = r.read_init(buf, n);
              got = r.ans_.state;
              off = r.ans_.buf_offset;
            }
            ctx.count("rans_states_round_tripped");
            if (rc != 0 || got != s + base || off != payload) {
              fail(is12 ? "symbol-coder-precision-12" : "symbol-coder-precision-20", s + base, payload, got, off);
              return;
            }
          }
      }
      ctx.nontrivial_unique();
    };
    sp.describe = [=](uint64_t idx) {
      if (idx < n_bit) return std::string("rANS bit coder final states ") + std::to_string(idx * kChunk + kLBase) + "..+4095 x 0..3 payload bytes";
      if (idx < n_bit + n_p12) return std::string("rANS symbol coder (precision 12) final states ") + std::to_string((idx - n_bit) * kChunk + p12_base) + "..+4095 x 0..3 payload bytes";
      return std::string("rANS symbol coder (precision 20) final states ") + std::to_string((*p20)[idx - n_bit - n_p12] + p20_base) + "..+4095 x 0..3 payload bytes";
    };
    R.add(sp);
  }
  for (int cid = 0; cid < kNumCoders; ++cid) {
    add_long_runs_space(R, cid);
    add_bits_space(R, cid, 0, 16, true, true);
    add_bits_space(R, cid, 17, 20, false, true);
  }
  for (int cid = 0; cid < kNumCoders; ++cid) add_widths_space(R, cid);
  for (int cid = 0; cid < kNumCoders; ++cid) {
    add_parts_space(R, cid, false, true, true);
    add_parts_space(R, cid, true, false, true);
  }
  add_symbol_past_end_space(R);
  add_bufsm_space(R, "bufsm_len0to4", 0, 4, true, true);
  add_bufsm_space(R, "bufsm_len5", 5, 5, false, true);

  R.require("varint_small_multibyte", 1);
  R.require("varint64_len10", 1);
  R.require("varint32_len5", 1);
  R.require("bufsm_wrong_mode_calls_refused", 1);
  R.require("bufsm_sequences_with_sized_bit_region", 1);
  R.require("bufsm_sequences_with_2byte_size_prefix", 1);
  R.require("bufsm_truncated_streams", 1);
  for (int cid = 0; cid < kNumCoders; ++cid) {
    R.require(std::string("bitwise_strings:") + kCoderName[cid], 1);
    R.require(std::string("bits32_call_sequences:") + kCoderName[cid], 1);
    R.require(std::string("width_cases:") + kCoderName[cid], 1);
  }
  return R.main();
}
