// C04 (unit level): quantization error is at most half a step.
// AttributeQuantizationTransform + Quantizer/Dequantizer.
//
// Every float32 of a box [min, max] (enumerated by bit pattern) is pushed, in
// batches, through the real transform (parameters either set explicitly or
// computed from the attribute, then shipped through EncodeParameters /
// DecodeParameters) and its inverse. Oracle, evaluated in long double:
//   |dec - x| <= (R/(2^q-1))/2 + 4*ulp32(max(|min|,|min+R|))
//   dec in [min - a, min + R + a],  a = R/(2^q-1) + 4*ulp32(...)
// R = the largest per-component extent of the attribute (the real, exactly
// computed extent of the enumerated box), min = that component's minimum.
//
// The end-to-end part (through the encoders) is a separate part of the
// registry entry and is not in this file.
#include <cfloat>
#include <cmath>
#include <memory>

#include "draco/attributes/attribute_quantization_transform.h"
#include "draco/attributes/point_attribute.h"
#include "draco/compression/config/compression_shared.h"
#include "draco/core/decoder_buffer.h"
#include "draco/core/encoder_buffer.h"
#include "mc/runner.h"

using namespace draco;

namespace {

std::string variant_tag;

// ---- float enumeration: monotone integer key <-> float (−0 is not a key)
int64_t key_of(float f) {
  uint32_t u;
  memcpy(&u, &f, 4);
  return (u & 0x80000000u) ? -int64_t(u & 0x7fffffffu) : int64_t(u);
}
float float_of(int64_t k) {
  uint32_t u = k >= 0 ? uint32_t(k) : (0x80000000u | uint32_t(-k));
  float f;
  memcpy(&f, &u, 4);
  return f;
}
std::string showf(float f) {
  uint32_t u;
  memcpy(&u, &f, 4);
  char b[64];
  snprintf(b, sizeof b, "%.9g[0x%08x]", f, u);
  return b;
}
// spacing of float32 at magnitude |v| (2^-149 at and below the subnormals)
long double ulp32(long double v) {
  v = fabsl(v);
  if (v < (long double)FLT_MIN) return ldexpl(1.0L, -149);
  int e;
  frexpl(v, &e);  // v = m * 2^e, m in [0.5,1)
  return ldexpl(1.0L, e - 24);
}

struct Comp {
  float mn, mx;
  uint64_t count() const { return uint64_t(key_of(mx) - key_of(mn)) + 1; }
  float at(uint64_t i) const { return float_of(key_of(mn) + int64_t(i)); }
};

enum Mode { kSetParameters = 0, kComputeParameters = 1 };
const char *kModeName[2] = {"SetParameters", "ComputeParameters"};

struct BoxSpace {
  std::string name, label;
  std::vector<Comp> comps;  // one per component
  bool uniform;             // all components the same box: consecutive floats fill consecutive components
  Mode mode;
  std::vector<int> qlist;
  uint64_t entries_total, entries_per_batch, batches;
  int nc() const { return int(comps.size()); }
  long double R() const {
    long double r = 0;
    for (auto &c : comps) r = std::max(r, (long double)c.mx - (long double)c.mn);
    return r;
  }
  float value(uint64_t entry, int c) const {
    if (uniform) {
      uint64_t i = entry * comps.size() + c;
      const uint64_t n = comps[0].count();
      return comps[0].at(i < n ? i : i % n);
    }
    return comps[c].at(entry % comps[c].count());
  }
  void finish(uint64_t batch_entries) {
    if (uniform) entries_total = (comps[0].count() + comps.size() - 1) / comps.size();
    else {
      entries_total = 0;
      for (auto &c : comps) entries_total = std::max(entries_total, c.count());
    }
    entries_per_batch = std::min(batch_entries, entries_total);
    batches = (entries_total + entries_per_batch - 1) / entries_per_batch;
  }
  // all batches have the same size; the last one is shifted back to end at the last entry
  uint64_t batch_start(uint64_t b) const { return std::min(b * entries_per_batch, entries_total - entries_per_batch); }
};

struct Stats {
  uint64_t values = 0, lossy = 0, q_zero = 0, q_max = 0, q_above_max = 0;
  long double max_excess_ulp = 0;
};

std::string box_text(const BoxSpace &B) {
  std::string s;
  for (int c = 0; c < B.nc(); ++c) {
    if (B.uniform && c) break;
    s += (c ? " x " : "") + std::string("[") + showf(B.comps[c].mn) + ", " + showf(B.comps[c].mx) + "]";
  }
  if (B.uniform && B.nc() > 1) s += " in each of " + std::to_string(B.nc()) + " components";
  return s;
}

void run_batch(const BoxSpace &B, int q, uint64_t batch, mc::Ctx &ctx) {
  const int nc = B.nc();
  const uint64_t e0 = B.batch_start(batch), ne = B.entries_per_batch;
  const int n = int(ne) + 2;  // two leading entries hold the box corners
  GeometryAttribute ga;
  ga.Init(GeometryAttribute::GENERIC, nullptr, nc, DT_FLOAT32, false, 4 * nc, 0);
  PointAttribute att(ga);
  att.Reset(n);
  att.SetIdentityMapping();
  float *in = reinterpret_cast<float *>(att.GetAddress(AttributeValueIndex(0)));
  for (int c = 0; c < nc; ++c) {
    in[c] = B.comps[c].mn;
    in[nc + c] = B.comps[c].mx;
  }
  {
    // same values as B.value(e0 + e, c), computed incrementally
    float *dst = in + 2 * nc;
    if (B.uniform) {
      const uint64_t cnt = B.comps[0].count();
      const int64_t k0 = key_of(B.comps[0].mn);
      uint64_t i = (e0 * nc) % cnt;
      for (uint64_t k = 0; k < ne * nc; ++k) {
        *dst++ = float_of(k0 + int64_t(i));
        if (++i == cnt) i = 0;
      }
    } else {
      uint64_t i[8], cnt[8];
      int64_t k0[8];
      for (int c = 0; c < nc; ++c) {
        cnt[c] = B.comps[c].count();
        k0[c] = key_of(B.comps[c].mn);
        i[c] = e0 % cnt[c];
      }
      for (uint64_t e = 0; e < ne; ++e)
        for (int c = 0; c < nc; ++c) {
          *dst++ = float_of(k0[c] + int64_t(i[c]));
          if (++i[c] == cnt[c]) i[c] = 0;
        }
    }
  }

  const std::string cls = "|box=" + B.label + "|" + kModeName[B.mode] + "|components=" + std::to_string(nc);
  auto where = [&]() { return "q=" + std::to_string(q) + " box " + box_text(B) + " " + kModeName[B.mode]; };

  AttributeQuantizationTransform enc;
  std::vector<float> mins(nc);
  for (int c = 0; c < nc; ++c) mins[c] = B.comps[c].mn;
  float frange = 0;  // what a caller configuring the box explicitly would pass: the largest extent, in float
  for (int c = 0; c < nc; ++c) frange = std::max(frange, B.comps[c].mx - B.comps[c].mn);
  bool ok = B.mode == kSetParameters ? enc.SetParameters(q, mins.data(), nc, frange) : enc.ComputeParameters(att, q);
  if (!ok) {
    ctx.fail("transform-rejects-parameters" + cls, where());
    return;
  }
  std::unique_ptr<PointAttribute> portable = enc.InitTransformedAttribute(att, n);
  if (!portable || !enc.TransformAttribute(att, {}, portable.get())) {
    ctx.fail("transform-attribute-failed" + cls, where());
    return;
  }
  EncoderBuffer eb;
  if (!enc.EncodeParameters(&eb)) {
    ctx.fail("encode-parameters-failed" + cls, where());
    return;
  }
  DecoderBuffer db;
  db.Init(eb.data(), eb.size());
  db.set_bitstream_version(kDracoMeshBitstreamVersion);
  AttributeQuantizationTransform dec;
  if (!dec.DecodeParameters(*portable, &db)) {
    ctx.fail("decode-parameters-failed" + cls, where());
    return;
  }
  PointAttribute outatt(ga);
  outatt.Reset(n);
  outatt.SetIdentityMapping();
  if (!dec.InverseTransformAttribute(*portable, &outatt)) {
    ctx.fail("inverse-transform-failed" + cls, where());
    return;
  }
  const float *out = reinterpret_cast<const float *>(outatt.GetAddress(AttributeValueIndex(0)));
  const int32_t *qv = reinterpret_cast<const int32_t *>(portable->GetAddress(AttributeValueIndex(0)));

  // ---- oracle
  const long double R = B.R();
  const long double maxq = (long double)((1u << q) - 1);
  const long double half = R / maxq / 2.0L;
  const bool constant = R == 0;
  long double ulp[8], lo[8], hi[8], allow[8];
  for (int c = 0; c < nc; ++c) {
    const long double mn = B.comps[c].mn;
    ulp[c] = ulp32(std::max(fabsl(mn), fabsl(mn + R)));
    allow[c] = half + 4 * ulp[c];
    const long double a = 2 * half + 4 * ulp[c];
    lo[c] = mn - a;
    hi[c] = mn + R + a;
  }
  Stats S;
  int fails = 0;
  uint64_t suppressed_err = 0, suppressed_box = 0;
  const int32_t imax = int32_t((1u << q) - 1);
  // Fast path in double: a value strictly inside half a step and inside the box
  // needs no further look (float -> double is exact, the double subtraction is
  // off by at most 2^-53 relative, the margin 1e-12 covers that).
  double half_d[8], lo_d[8], hi_d[8];
  for (int c = 0; c < nc; ++c) {
    half_d[c] = (double)half * (1.0 - 1e-12);
    lo_d[c] = (double)B.comps[c].mn;
    hi_d[c] = (double)((long double)B.comps[c].mn + R) * (1.0 - 1e-12 * (((long double)B.comps[c].mn + R) > 0 ? 1 : -1));
  }
  for (int i = 0; i < n; ++i)
    for (int c = 0; c < nc; ++c) {
      const size_t j = size_t(i) * nc + c;
      const float xf = in[j], df = out[j];
      const int32_t qq = qv[j];
      S.lossy += xf != df;
      S.q_zero += qq == 0;
      S.q_max += qq == imax;
      S.q_above_max += (qq > imax) | (qq < 0);
      const double dd = df;
      if (std::fabs(dd - (double)xf) <= half_d[c] && dd >= lo_d[c] && dd <= hi_d[c]) continue;
      const long double x = xf, d = df;
      const long double err = fabsl(d - x);
      const long double ex = (err - half) / ulp[c];
      if (ex > S.max_excess_ulp) S.max_excess_ulp = ex;
      auto detail = [&]() {
        char b[256];
        snprintf(b, sizeof b, " component %d value %s quantized %d decoded %s error %.9Lg allowed %.9Lg (half step %.9Lg + 4 ulp of %.9Lg)",
                 c, showf(in[j]).c_str(), qv[j], showf(out[j]).c_str(), err, allow[c], half, ulp[c]);
        return where() + b;
      };
      if (!(err <= allow[c])) {
        const std::string sig = (constant ? "constant-attribute-not-reproduced" : "error-exceeds-half-step-plus-4ulp") + cls;
        if (fails++ < 16) ctx.fail(sig, detail());
        else suppressed_err++;
      }
      if (!(d >= lo[c] && d <= hi[c])) {
        if (fails++ < 16) ctx.fail("decoded-value-leaves-quantization-box" + cls, detail());
        else suppressed_box++;
      }
    }
  S.values = uint64_t(n) * nc;
  if (suppressed_err)
    ctx.count("fail:" + std::string(constant ? "constant-attribute-not-reproduced" : "error-exceeds-half-step-plus-4ulp") + cls,
              suppressed_err);
  if (suppressed_box) ctx.count("fail:decoded-value-leaves-quantization-box" + cls, suppressed_box);
  ctx.count("values", S.values);
  ctx.count(std::string("values:") + kModeName[B.mode], S.values);
  ctx.count("values:components=" + std::to_string(nc), S.values);
  ctx.count("decoded_differs_from_original", S.lossy);
  ctx.count("quantized_to_0", S.q_zero);
  ctx.count("quantized_to_2^q-1", S.q_max);
  ctx.count("info:quantized_outside_[0,2^q-1]", S.q_above_max);
  const uint64_t milli = S.max_excess_ulp > 0 ? (uint64_t)ceill(S.max_excess_ulp * 1000.0L) : 0;
  ctx.count_max("max_excess_over_half_step_milliulp:" + B.label + variant_tag, milli);
  ctx.count_max("max_excess_over_half_step_milliulp:all" + variant_tag, milli);
  ctx.sh->distinct_n[1].fetch_add(S.lossy, std::memory_order_relaxed);
  uint64_t h = mc::hash_combine(mc::hash_str(B.name), q);
  h = mc::hash_combine(h, (S.lossy ? 1 : 0) | (S.lossy < S.values ? 2 : 0) | (S.q_zero ? 4 : 0) | (S.q_max ? 8 : 0) |
                              (S.q_above_max ? 16 : 0));
  ctx.state(h);
}

void add_space(mc::Runner &R, std::shared_ptr<BoxSpace> B, bool quick, bool thorough) {
  mc::Space sp;
  sp.name = B->name;
  sp.size = B->qlist.size() * B->batches;
  sp.cases_per_index = (B->entries_per_batch + 2) * B->nc();
  sp.quick = quick;
  sp.thorough = thorough;
  sp.timeout_s = 60;
  sp.run = [B](uint64_t idx, mc::Ctx &ctx) { run_batch(*B, B->qlist[idx / B->batches], idx % B->batches, ctx); };
  sp.describe = [B](uint64_t idx) {
    const uint64_t b = idx % B->batches, e0 = B->batch_start(b);
    std::string s = "q=" + std::to_string(B->qlist[idx / B->batches]) + " " + kModeName[B->mode] + ": box " + box_text(*B) +
                    ", entries " + std::to_string(e0) + ".." + std::to_string(e0 + B->entries_per_batch - 1) + " of " +
                    std::to_string(B->entries_total) + " (first " + showf(B->value(e0, 0)) + ", last " +
                    showf(B->value(e0 + B->entries_per_batch - 1, B->nc() - 1)) + ") + the two box corners";
    return s;
  };
  sp.klass = [B](uint64_t idx) {
    return "box=" + B->label + "|" + kModeName[B->mode] + "|components=" + std::to_string(B->nc()) +
           "|q=" + std::to_string(B->qlist[idx / B->batches]);
  };
  R.add(sp);
}

std::vector<int> q_all() {
  std::vector<int> v;
  for (int q = 1; q <= 30; ++q) v.push_back(q);
  return v;
}

std::shared_ptr<BoxSpace> uniform_box(const std::string &prefix, const std::string &label, float mn, float mx, int nc,
                                      Mode mode, std::vector<int> qlist) {
  auto B = std::make_shared<BoxSpace>();
  B->label = label;
  B->name = prefix + "box_" + label + "_c" + std::to_string(nc) + (mode == kSetParameters ? "_set" : "_compute");
  B->comps.assign(nc, Comp{mn, mx});
  B->uniform = true;
  B->mode = mode;
  B->qlist = std::move(qlist);
  B->finish(nc == 1 ? (1u << 20) : (1u << 18));
  return B;
}

std::shared_ptr<BoxSpace> mixed_box(const std::string &prefix, const std::string &label, std::vector<Comp> comps, Mode mode,
                                    std::vector<int> qlist) {
  auto B = std::make_shared<BoxSpace>();
  B->label = label;
  B->name = prefix + "box_" + label + (mode == kSetParameters ? "_set" : "_compute");
  B->comps = std::move(comps);
  B->uniform = false;
  B->mode = mode;
  B->qlist = std::move(qlist);
  B->finish(1u << 18);
  return B;
}

}  // namespace

int main(int argc, char **argv) {
  mc::Runner R(argc, argv, "C04");
  R.level = "model_checking";
  const bool asan = R.flag("asan");
  variant_tag = asan ? "[asan]" : "[fast]";
  const std::string px = asan ? "asan_" : "";
  R.rule =
      "unit level. Every float32 (enumerated by bit pattern; -0 excluded) of each box is pushed through "
      "AttributeQuantizationTransform (TransformAttribute, EncodeParameters/DecodeParameters, InverseTransformAttribute) in "
      "PointAttribute batches of 2^20 (1 component) / 2^18 x 3 values, each batch also holding the two box corners, for "
      "every q of the space's q list: quick = boxes [0.5,1], [1e-6,2e-6], [1000,1001], [1e6,1e6+3], constants, and the "
      "3-component boxes with different extents (component 0 has 1/8 of the largest extent, or is constant), all q=1..30, "
      "explicit SetParameters and ComputeParameters, 1 and 3 components; thorough adds [0,1], [-1,1], [0,1e9] "
      "(4.5e9 floats; ComputeParameters on an attribute holding the corners, 1 component) for q in "
      "{1,2,4,8,11,14,16,20,23,24,25,30}. states = distinct (space, q, outcome mask: "
      "lossless/lossy/hits 0/hits 2^q-1/exceeds 2^q-1) per batch; non-trivial = a value whose decoded float differs "
      "from the original (rounding happened); all (box, q, configuration, value) tuples are distinct by construction";
  R.explanation =
      "stateless exhaustive enumeration of all float32 values of bounded boxes on the real transform; oracle in long "
      "double: |dec-x| <= R/(2^q-1)/2 + 4 ulp32(max(|min|,|min+R|)), dec within one step + 4 ulp of the box, constant "
      "attribute reproduced within 4 ulp";
  R.assumptions = {
      "unit level: prediction and entropy coding are not in the loop (they are lossless on the quantized integers; separate "
      "end-to-end part)",
      "boxes other than the enumerated ones are not covered (all magnitudes 1e-6..1e9 are represented, not all mantissas of "
      "min)",
      "R is the exact extent of the enumerated box; the explicit range handed to SetParameters is that extent rounded to float",
      "DRACO_DCHECK is compiled out (as in every shipped configuration)"};
  R.transition_counters = {"values"};

  const float e6 = 1e-6f;
  struct U { const char *label; float mn, mx; bool small; };
  const U boxes[] = {{"0.5..1", 0.5f, 1.0f, true},       {"1e-6..2e-6", e6, e6 + e6, true},  {"1000..1001", 1000.f, 1001.f, true},
                     {"1e6..1e6+3", 1e6f, 1000003.f, true}, {"0..1", 0.f, 1.f, false},         {"-1..1", -1.f, 1.f, false},
                     {"0..1e9", 0.f, 1e9f, false},
                     // extents far below float epsilon (a degenerate-range heuristic must not swallow them)
                     {"1e-6..1.05e-6", e6, 1.05e-6f, true},  {"2e-6..2.05e-6", 2e-6f, 2.05e-6f, true},
                     {"1..1+2ulp", 1.0f, 1.00000024f, true}};
  const std::vector<Comp> mixed8 = {{1000.f, 1000.0625f}, {0.5f, 1.0f}, {3.f, 3.25f}};
  const std::vector<Comp> mixed0 = {{7.f, 7.f}, {0.5f, 1.0f}, {3.f, 3.25f}};
  const float constants[] = {0.f, 3.f, -1.f, 1e-6f, 0.1f, 1000.f, 1e6f, 1e9f, -1e9f, 1e-30f, 1e-41f};
  const std::vector<int> q_sub = {1, 2, 8, 11, 14, 16, 20, 24, 30};
  // the three boxes with 1.1e9 .. 2.1e9 floats each: 12 of the 30 values of q (dense where the quantized integer
  // outgrows the float32 mantissa)
  const std::vector<int> q_huge = {1, 2, 4, 8, 11, 14, 16, 20, 23, 24, 25, 30};

  if (!asan) {
    for (const U &b : boxes) {
      if (b.small) {
        for (int nc : {1, 3})
          for (Mode m : {kSetParameters, kComputeParameters})
            add_space(R, uniform_box(px, b.label, b.mn, b.mx, nc, m, q_all()), true, true);
      } else {
        add_space(R, uniform_box(px, b.label, b.mn, b.mx, 1, kComputeParameters, q_huge), false, true);
      }
    }
    for (Mode m : {kSetParameters, kComputeParameters}) {
      add_space(R, mixed_box(px, "mixed-c0-eighth-extent", mixed8, m, q_all()), true, true);
      add_space(R, mixed_box(px, "mixed-c0-constant", mixed0, m, q_all()), true, true);
    }
  } else {
    // the same arithmetic under ASan+UBSan on the small boxes
    for (const U &b : boxes) {
      if (!b.small) continue;
      const bool tiny = key_of(b.mx) - key_of(b.mn) < (1 << 16);
      for (int nc : {1, 3})
        for (Mode m : {kSetParameters, kComputeParameters}) {
          if (!tiny && ((nc == 1) != (m == kComputeParameters))) continue;  // large: c1+compute and c3+set
          add_space(R, uniform_box(px, b.label, b.mn, b.mx, nc, m, tiny ? q_all() : q_sub), true, true);
        }
    }
    add_space(R, mixed_box(px, "mixed-c0-eighth-extent", mixed8, kComputeParameters, q_sub), true, true);
    add_space(R, mixed_box(px, "mixed-c0-constant", mixed0, kComputeParameters, q_sub), true, true);
  }
  // constant attributes (range 0 -> draco substitutes 1): 1000 identical entries
  for (float cst : constants)
    for (int nc : {1, 3}) {
      char lab[64];
      snprintf(lab, sizeof lab, "constant(%g)", cst);
      auto B = std::make_shared<BoxSpace>();
      B->label = lab;
      B->name = px + "box_" + lab + "_c" + std::to_string(nc) + "_compute";
      B->comps.assign(nc, Comp{cst, cst});
      B->uniform = false;
      B->mode = kComputeParameters;
      B->qlist = q_all();
      B->entries_total = B->entries_per_batch = 1000;
      B->batches = 1;
      add_space(R, B, true, true);
    }
  R.require("values:SetParameters", 1);
  R.require("values:ComputeParameters", 1);
  R.require("values:components=1", 1);
  R.require("values:components=3", 1);
  R.require("decoded_differs_from_original", 1);
  R.require("quantized_to_0", 1);
  R.require("quantized_to_2^q-1", 1);
  return R.main();
}
