// C08: rANS symbol coding (EncodeSymbols / DecodeSymbols) is lossless and
// self-delimiting.
//
// Bounded exhaustive enumeration on the real encoder/decoder:
//  (a) every array of length 1..L over the cheap alphabet x components x
//      compression level 0..10 x scheme {auto, forced tagged, forced raw};
//      every array of length <= 3 over the expensive alphabet at levels 0/7/10;
//  (b) every frequency vector over <= 4 symbols up to a total, realised as a
//      sorted array and as its reversal, dense and sparse symbol ids;
//  (c) the normalisation families: n distinct symbols once each + a heavy
//      symbol repeated m times (+ a second heavy symbol m/3 times).
// Each block is followed by a sentinel varint. Oracle: if EncodeSymbols
// returns true then DecodeSymbols returns true, output == input, the sentinel
// decodes next and nothing is left; EncodeSymbols returning false is a
// reported failure (counted); an exception, crash or sanitizer report is a
// violation.
#include "c17c08_alloc_cap.h"

#include <memory>
#include <stdexcept>

#include "draco/compression/config/compression_shared.h"
#include "draco/compression/entropy/symbol_decoding.h"
#include "draco/compression/entropy/symbol_encoding.h"
#include "draco/core/decoder_buffer.h"
#include "draco/core/encoder_buffer.h"
#include "draco/core/macros.h"
#include "draco/core/options.h"
#include "draco/core/varint_decoding.h"
#include "draco/core/varint_encoding.h"
#include "mc/runner.h"

using namespace draco;

namespace {

const uint16_t kVersion = DRACO_BITSTREAM_VERSION(2, 2);
const uint32_t kSentinel = 0x2F5A7;  // 3-byte varint
const uint8_t kPrefix = 0x3C;

enum Scheme { S_AUTO = 0, S_TAGGED = 1, S_RAW = 2 };
const char *kSchemeName[3] = {"auto", "forced-tagged", "forced-raw"};

// Exact-size heap copy: the byte after the data is an ASan redzone.
struct Exact {
  char *base;
  char *p;
  size_t n;
  Exact(const char *src, size_t len) : n(len) {
    base = static_cast<char *>(malloc(len ? len : 1));
    if (!base) abort();
    p = len ? base : base + 1;
    if (len) memcpy(base, src, len);
  }
  ~Exact() { free(base); }
  Exact(const Exact &) = delete;
  Exact &operator=(const Exact &) = delete;
};

// Input class of a symbol array: what the encoder's behaviour depends on.
std::string value_class(uint32_t maxv) {
  if (maxv >= 0x80000000u) return "symbol>=2^31";
  if (maxv == 0x7FFFFFFFu) return "symbol==2^31-1";
  if (maxv >= (1u << 26)) return "symbol in [2^26,2^31-1)";
  if (maxv >= (1u << 18)) return "symbol in [2^18,2^26)";
  return "symbol<2^18";
}
uint32_t max_of(const uint32_t *s, size_t n) {
  uint32_t m = 0;
  for (size_t i = 0; i < n; ++i) m = std::max(m, s[i]);
  return m;
}

std::string show_array(const uint32_t *s, size_t n) {
  std::string o = "[";
  const size_t lim = 24;
  for (size_t i = 0; i < n && i < lim; ++i) {
    o += (i ? "," : "") + std::to_string(s[i]);
  }
  if (n > lim) o += ",... (" + std::to_string(n) + " values, last " + std::to_string(s[n - 1]) + ")";
  return o + "]";
}

// Per-index accumulators, flushed to the shared counters once per index.
struct Acc {
  uint64_t enc_ok = 0, enc_false = 0, tagged = 0, raw = 0, auto_tagged = 0, auto_raw = 0, nontrivial = 0;
  uint64_t raw_bits[20] = {0};
  uint64_t false_by_scheme[3] = {0, 0, 0};
  size_t max_block = 0;
  void flush(mc::Ctx &ctx) {
    if (enc_ok) ctx.count("encode_ok", enc_ok);
    if (enc_false) ctx.count("encode_reported_failure", enc_false);
    for (int s = 0; s < 3; ++s)
      if (false_by_scheme[s]) ctx.count(std::string("encode_reported_failure:") + kSchemeName[s], false_by_scheme[s]);
    if (tagged) ctx.count("scheme_used:tagged", tagged);
    if (raw) ctx.count("scheme_used:raw", raw);
    if (auto_tagged) ctx.count("auto_chose:tagged", auto_tagged);
    if (auto_raw) ctx.count("auto_chose:raw", auto_raw);
    for (int b = 0; b < 20; ++b)
      if (raw_bits[b]) ctx.count("raw_unique_symbols_bit_length:" + std::string(b < 10 ? "0" : "") + std::to_string(b), raw_bits[b]);
    ctx.count_max("max_block_bytes", max_block);
    if (nontrivial && !ctx.replay) ctx.sh->distinct_n[1].fetch_add(nontrivial, std::memory_order_relaxed);
  }
};

// One codec execution. |what| renders the case for failure reports.
template <class DescFn>
void run_case(const uint32_t *sym, int n, int comps, int level, int scheme, mc::Ctx &ctx, Acc &acc, const DescFn &what) {
  const uint32_t maxv = max_of(sym, n);
  auto fail = [&](const std::string &sig, const std::string &more) {
    ctx.fail(sig + "|" + value_class(maxv), what() + " comps=" + std::to_string(comps) +
                                                                           " level=" + std::to_string(level) + " scheme=" +
                                                                           kSchemeName[scheme] + (more.empty() ? "" : " :: " + more));
  };
  Options opt;
  if (scheme == S_TAGGED) SetSymbolEncodingMethod(&opt, SYMBOL_CODING_TAGGED);
  if (scheme == S_RAW) SetSymbolEncodingMethod(&opt, SYMBOL_CODING_RAW);
  if (!SetSymbolEncodingCompressionLevel(&opt, level)) {
    fail("set-compression-level-refused", "");
    return;
  }
  EncoderBuffer eb;
  eb.Encode(kPrefix);
  bool ok = false;
  alloc_cap::g_last_refused = 0;
  try {
    ok = EncodeSymbols(sym, n, comps, &opt, &eb);
  } catch (const std::length_error &e) {
    fail("encode-exception:length_error", e.what());
    return;
  } catch (const std::bad_alloc &) {
    if (alloc_cap::g_last_refused != 0) {
      // A single request above the harness's 256 MiB cap (value tables proportional to the largest symbol) is an answer
      // of this environment, not of draco: counted, not judged.
      ctx.count("encoder_request_above_harness_cap");
      return;
    }
    fail("encode-exception:bad_alloc", "not caused by the harness cap");
    return;
  } catch (const std::exception &e) {
    fail(std::string("encode-exception:") + typeid(e).name(), e.what());
    return;
  }
  if (!ok) {
    // reported failure: acceptable outcome
    acc.enc_false++;
    acc.false_by_scheme[scheme]++;
    ctx.state(mc::hash_combine(0xF00D, scheme));
    return;
  }
  acc.enc_ok++;
  const size_t block = eb.size() - 1;
  acc.max_block = std::max(acc.max_block, block);
  const uint8_t method = block >= 1 ? static_cast<uint8_t>(eb.data()[1]) : 0xff;
  int rawbits = 0;
  if (method == SYMBOL_CODING_TAGGED) {
    acc.tagged++;
    if (scheme == S_AUTO) acc.auto_tagged++;
  } else if (method == SYMBOL_CODING_RAW) {
    acc.raw++;
    if (scheme == S_AUTO) acc.auto_raw++;
    rawbits = block >= 2 ? static_cast<uint8_t>(eb.data()[2]) : 0;
    acc.raw_bits[rawbits < 20 ? rawbits : 19]++;
  }
  if ((scheme == S_TAGGED && method != SYMBOL_CODING_TAGGED) || (scheme == S_RAW && method != SYMBOL_CODING_RAW)) {
    fail("forced-scheme-not-used", "method byte " + std::to_string(method));
    return;
  }
  if (!EncodeVarint<uint32_t>(kSentinel, &eb)) {
    fail("sentinel-encode-false", "");
    return;
  }
  // distinct outcomes: (method, raw precision class, block size)
  ctx.state(mc::hash_combine(mc::hash_combine(method, rawbits), block));
  Exact ex(eb.data(), eb.size());
  DecoderBuffer db;
  db.Init(ex.p, ex.n, kVersion);
  uint8_t pre = 0;
  db.Decode(&pre);
  std::vector<uint32_t> out(n, 0xDEADBEEFu);
  bool dok = false;
  try {
    dok = DecodeSymbols(n, comps, &db, out.data());
  } catch (const std::exception &e) {
    fail(std::string("decode-exception:") + typeid(e).name(), e.what());
    return;
  }
  if (!dok) {
    fail(std::string("decode-returned-false:") + (method == SYMBOL_CODING_TAGGED ? "tagged" : "raw"),
         "block " + std::to_string(block) + " bytes: " + mc::hex(eb.data() + 1, std::min<size_t>(block, 48)));
    return;
  }
  if (memcmp(out.data(), sym, sizeof(uint32_t) * n) != 0) {
    int at = 0;
    while (at < n && out[at] == sym[at]) ++at;
    fail(std::string("output-differs:") + (method == SYMBOL_CODING_TAGGED ? "tagged" : "raw"),
         "first difference at " + std::to_string(at) + ": got " + std::to_string(out[at]) + " want " + std::to_string(sym[at]) +
             "; block " + mc::hex(eb.data() + 1, std::min<size_t>(block, 48)));
    return;
  }
  uint32_t sent = 0;
  if (!DecodeVarint<uint32_t>(&sent, &db) || sent != kSentinel) {
    fail(std::string("sentinel-not-next:") + (method == SYMBOL_CODING_TAGGED ? "tagged" : "raw"),
         "decoder at " + std::to_string(db.decoded_size()) + ", block ends at " + std::to_string(block + 1));
    return;
  }
  if (db.remaining_size() != 0) {
    fail("bytes-left-over", std::to_string(db.remaining_size()));
    return;
  }
  // non-trivial: at least two distinct symbols
  for (int i = 1; i < n; ++i)
    if (sym[i] != sym[0]) {
      acc.nontrivial++;
      break;
    }
}

// ------------------------------------------------------------ (a) cheap
const uint32_t kCheap[10] = {0, 1, 2, 3, 63, 64, 255, 256, 4095, 4096};
const uint32_t kExpensive[10] = {0, 1, 1u << 17, (1u << 18) - 1, 1u << 18, 1u << 22, 1u << 24, 0x7FFFFFFFu, 0x80000000u, 0xFFFFFFFFu};
// length 3: without 2^24 (a forced-raw case with max value 2^24 costs ~0.3 s and ~0.5 GiB)
const uint32_t kExpensive9[9] = {0, 1, 1u << 17, (1u << 18) - 1, 1u << 18, 1u << 22, 0x7FFFFFFFu, 0x80000000u, 0xFFFFFFFFu};

struct Block {
  int len, comps;
  uint64_t count, offset;
};
// All (length, components) blocks for lengths lo..hi over an alphabet of |k|.
std::vector<Block> make_blocks(int lo, int hi, uint64_t k, uint64_t *total) {
  std::vector<Block> v;
  uint64_t off = 0;
  for (int n = lo; n <= hi; ++n) {
    uint64_t cnt = 1;
    for (int i = 0; i < n; ++i) cnt *= k;
    for (int c = 1; c <= 4; ++c) {
      if (n % c) continue;
      v.push_back({n, c, cnt, off});
      off += cnt;
    }
  }
  *total = off;
  return v;
}
void array_from_index(const std::vector<Block> &blocks, uint64_t idx, const uint32_t *alphabet, uint64_t k, uint32_t *sym, int *n,
                      int *comps) {
  size_t b = 0;
  while (b + 1 < blocks.size() && idx >= blocks[b + 1].offset) ++b;
  idx -= blocks[b].offset;
  *n = blocks[b].len;
  *comps = blocks[b].comps;
  for (int i = 0; i < *n; ++i) {
    sym[i] = alphabet[idx % k];
    idx /= k;
  }
}

// |level_classes|: use one level per precision-adjustment class {0,5,7,8,10}
// instead of all of 0..10 (the level only selects the adjustment -2..+2 of the
// raw scheme's precision class).
const int kLevelClasses[5] = {0, 5, 7, 8, 10};
void add_cheap_space(mc::Runner &R, const std::string &name, int lo, int hi, bool quick, bool thorough, bool level_classes = false) {
  const int nlevels = level_classes ? 5 : 11;
  uint64_t total = 0;
  auto blocks = std::make_shared<std::vector<Block>>(make_blocks(lo, hi, 10, &total));
  mc::Space sp;
  sp.name = name;
  sp.size = total;
  sp.quick = quick;
  sp.thorough = thorough;
  sp.cases_per_index = 3 * nlevels;
  sp.run = [=](uint64_t idx, mc::Ctx &ctx) {
    uint32_t sym[8];
    int n, comps;
    array_from_index(*blocks, idx, kCheap, 10, sym, &n, &comps);
    Acc acc;
    for (int l = 0; l < nlevels; ++l)
      for (int scheme = 0; scheme < 3; ++scheme)
        run_case(sym, n, comps, level_classes ? kLevelClasses[l] : l, scheme, ctx, acc, [&] { return "symbols " + show_array(sym, n); });
    acc.flush(ctx);
  };
  sp.describe = [=](uint64_t idx) {
    uint32_t sym[8];
    int n, comps;
    array_from_index(*blocks, idx, kCheap, 10, sym, &n, &comps);
    return "symbols " + show_array(sym, n) + " comps=" + std::to_string(comps) +
           (level_classes ? ", levels {0,5,7,8,10}" : ", levels 0..10") + " x {auto, forced tagged, forced raw}";
  };
  sp.klass = [=](uint64_t) { return std::string("symbol<2^18"); };
  R.add(sp);
}

// expensive alphabet: one codec call per index
const int kExpLevels[3] = {0, 7, 10};
void add_expensive_space(mc::Runner &R, const std::string &name, int lo, int hi, bool quick, bool thorough,
                         const uint32_t *alphabet = kExpensive, uint64_t k = 10) {
  uint64_t total = 0;
  auto blocks = std::make_shared<std::vector<Block>>(make_blocks(lo, hi, k, &total));
  mc::Space sp;
  sp.name = name;
  sp.size = total * 9;
  sp.quick = quick;
  sp.thorough = thorough;
  sp.timeout_s = 60;
  auto decode = [=](uint64_t idx, uint32_t *sym, int *n, int *comps, int *level, int *scheme) {
    *scheme = static_cast<int>(idx % 3);
    *level = kExpLevels[(idx / 3) % 3];
    array_from_index(*blocks, idx / 9, alphabet, k, sym, n, comps);
  };
  sp.run = [=](uint64_t idx, mc::Ctx &ctx) {
    uint32_t sym[8];
    int n, comps, level, scheme;
    decode(idx, sym, &n, &comps, &level, &scheme);
    Acc acc;
    run_case(sym, n, comps, level, scheme, ctx, acc, [&] { return "symbols " + show_array(sym, n); });
    acc.flush(ctx);
    ctx.count("expensive_cases:" + value_class(max_of(sym, n)));
  };
  sp.describe = [=](uint64_t idx) {
    uint32_t sym[8];
    int n, comps, level, scheme;
    decode(idx, sym, &n, &comps, &level, &scheme);
    return "symbols " + show_array(sym, n) + " comps=" + std::to_string(comps) + " level=" + std::to_string(level) +
           " scheme=" + kSchemeName[scheme];
  };
  sp.klass = [=](uint64_t idx) {
    uint32_t sym[8];
    int n, comps, level, scheme;
    decode(idx, sym, &n, &comps, &level, &scheme);
    return value_class(max_of(sym, n));
  };
  R.add(sp);
}

// ------------------------------------------------------------ (b) frequency vectors
struct FV {
  uint8_t f[4];
};
std::vector<FV> g_fv;        // all vectors with 1 <= total <= 64, sorted by total
uint64_t g_fv_first[66];     // index of the first vector with total t
const int kFvHiTotal = 64;
void build_fv() {
  for (int t = 1; t <= kFvHiTotal; ++t) {
    g_fv_first[t] = g_fv.size();
    for (int a = 0; a <= t; ++a)
      for (int b = 0; a + b <= t; ++b)
        for (int c = 0; a + b + c <= t; ++c) {
          FV v = {{static_cast<uint8_t>(a), static_cast<uint8_t>(b), static_cast<uint8_t>(c), static_cast<uint8_t>(t - a - b - c)}};
          g_fv.push_back(v);
        }
  }
  g_fv_first[kFvHiTotal + 1] = g_fv.size();
}
// symbol ids: dense, and sparse with zero-probability gaps of 1, 1, 64 and 65
// table entries (one run-length token covers at most 64 zero entries)
const uint32_t kFvIds[2][4] = {{0, 1, 2, 3}, {1, 3, 68, 134}};
const int kFvLevels[5] = {0, 5, 7, 8, 10};  // one level per precision adjustment class (-2,-1,0,+1,+2)
int fv_array(uint64_t idx, uint64_t first, uint32_t *sym, std::string *txt) {
  const uint64_t vi = first + idx / 4;
  const int map = (idx / 2) % 2, reversed = idx % 2;
  const FV &v = g_fv[vi];
  int n = 0;
  for (int k = 0; k < 4; ++k)
    for (int j = 0; j < v.f[k]; ++j) sym[n++] = kFvIds[map][k];
  if (reversed) std::reverse(sym, sym + n);
  if (txt) {
    char b[200];
    snprintf(b, sizeof b, "frequency vector (%d,%d,%d,%d) over symbol ids {%u,%u,%u,%u}, %s array of %d symbols", v.f[0], v.f[1], v.f[2],
             v.f[3], kFvIds[map][0], kFvIds[map][1], kFvIds[map][2], kFvIds[map][3], reversed ? "descending" : "ascending", n);
    *txt = b;
  }
  return n;
}
void add_fv_space(mc::Runner &R, const std::string &name, int total_lo, int total_hi, bool quick, bool thorough) {
  const uint64_t first = g_fv_first[total_lo];
  const uint64_t count = g_fv_first[total_hi + 1] - first;
  mc::Space sp;
  sp.name = name;
  sp.size = count * 4;
  sp.quick = quick;
  sp.thorough = thorough;
  sp.cases_per_index = 15;
  sp.run = [=](uint64_t idx, mc::Ctx &ctx) {
    uint32_t sym[64];
    const int n = fv_array(idx, first, sym, nullptr);
    Acc acc;
    for (int l = 0; l < 5; ++l)
      for (int scheme = 0; scheme < 3; ++scheme)
        run_case(sym, n, 1, kFvLevels[l], scheme, ctx, acc, [&] {
          std::string t;
          fv_array(idx, first, sym, &t);
          return t;
        });
    acc.flush(ctx);
  };
  sp.describe = [=](uint64_t idx) {
    uint32_t sym[64];
    std::string t;
    fv_array(idx, first, sym, &t);
    return t + ", comps=1, levels {0,5,7,8,10} x {auto, forced tagged, forced raw}";
  };
  sp.klass = [=](uint64_t) { return std::string("symbol<2^18"); };
  R.add(sp);
}

// ------------------------------------------------------------ (c) normalisation families
const uint32_t kFamN[] = {1,    2,    3,    15,   16,   17,   63,   64,      65,      255,     256,         257,     511,        512,
                          513,  1000, 1023, 1024, 1025, 2047, 2048, 4095,    4096,    4097,    8191,        8192,    1u << 14,   1u << 16,
                          1u << 17, (1u << 18) - 1, 1u << 18, (1u << 18) + 1};
const uint32_t kFamM[] = {0, 1, 2, 100, 4095, 4096, 4097, 100000, 1000000};
const int kNumFamN = sizeof(kFamN) / sizeof(kFamN[0]), kNumFamM = sizeof(kFamM) / sizeof(kFamM[0]);
struct Fam {
  uint32_t n, m;
  bool second;
};
std::vector<Fam> g_fam_small, g_fam_large;
void build_fam() {
  for (int i = 0; i < kNumFamN; ++i)
    for (int j = 0; j < kNumFamM; ++j)
      for (int s = 0; s < 2; ++s) {
        Fam f = {kFamN[i], kFamM[j], s != 0};
        (f.n <= 4097 && f.m <= 4097 ? g_fam_small : g_fam_large).push_back(f);
      }
}
std::string show_fam(const Fam &f) {
  std::string s = "symbols 0.." + std::to_string(f.n - 1) + " once each, then symbol 0 x" + std::to_string(f.m);
  if (f.second) s += ", then symbol " + std::to_string(f.n - 1) + " x" + std::to_string(f.m / 3);
  return s;
}
void add_fam_space(mc::Runner &R, const std::string &name, const std::vector<Fam> *fams, bool quick, bool thorough) {
  mc::Space sp;
  sp.name = name;
  sp.size = fams->size() * 11;  // index = family * 11 + level
  sp.quick = quick;
  sp.thorough = thorough;
  sp.cases_per_index = 3;
  sp.timeout_s = 120;
  sp.solo_timeout_s = 600;
  sp.run = [=](uint64_t idx, mc::Ctx &ctx) {
    const Fam &f = (*fams)[idx / 11];
    const int level = static_cast<int>(idx % 11);
    std::vector<uint32_t> sym;
    sym.reserve(f.n + f.m + f.m / 3);
    for (uint32_t i = 0; i < f.n; ++i) sym.push_back(i);
    for (uint32_t i = 0; i < f.m; ++i) sym.push_back(0);
    if (f.second)
      for (uint32_t i = 0; i < f.m / 3; ++i) sym.push_back(f.n - 1);
    Acc acc;
    for (int scheme = 0; scheme < 3; ++scheme)
      run_case(sym.data(), static_cast<int>(sym.size()), 1, level, scheme, ctx, acc, [&] { return show_fam(f); });
    acc.flush(ctx);
    ctx.count("family_arrays");
  };
  sp.describe = [=](uint64_t idx) {
    return show_fam((*fams)[idx / 11]) + ", comps=1, level " + std::to_string(idx % 11) + " x {auto, forced tagged, forced raw}";
  };
  sp.klass = [=](uint64_t idx) { return value_class((*fams)[idx / 11].n - 1); };
  R.add(sp);
}

// Long arrays with 2..4 components (the tagged scheme takes one bit length per entry = the maximum over its components):
// values i % K in a different phase per component, a single outlier optionally placed in one component of one entry.
void add_multicomp_space(mc::Runner &R, const std::string &name, bool small, bool quick, bool thorough) {
  // small: levels {1,7,10} x lengths {4096, 99996}; else all 11 levels x 4 lengths
  static const int kLensAll[4] = {1000, 4096, 99996, 100000};
  static const int kLensSmall[2] = {4096, 99996};
  static const int kLevelsSmall[3] = {1, 7, 10};
  const int *kLens = small ? kLensSmall : kLensAll;
  static const uint32_t kMods[4] = {2, 300, 5000, 70000};
  // index -> (level 0..10) x (outlier 0 none / 1 first entry / 2 last component of last entry) x mod x length x comps{2,3,4}
  mc::Radix rx{small ? 3u : 11u, 3, 4, small ? 2u : 4u, 3};
  mc::Space sp;
  sp.name = name;
  sp.size = rx.size();
  sp.quick = quick;
  sp.thorough = thorough;
  sp.cases_per_index = 3;
  sp.timeout_s = 120;
  auto make = [rx, kLens, small](uint64_t idx, std::vector<uint32_t> *sym, int *comps, int *level, std::string *d) {
    auto dg = rx.decode(idx);
    *comps = 2 + (int)dg[4];
    int n = kLens[dg[3]];
    n -= n % *comps;
    const uint32_t K = kMods[dg[2]];
    *level = small ? kLevelsSmall[dg[0]] : (int)dg[0];
    sym->resize(n);
    for (int i = 0; i < n; ++i) (*sym)[i] = (uint32_t)(((uint64_t)(i / *comps) * 7 + (uint64_t)(i % *comps) * 131) % K);
    if (dg[1] == 1) (*sym)[0] = (1u << 24) + 5;
    if (dg[1] == 2) (*sym)[n - 1] = (1u << 17) - 1;
    if (d) *d = std::to_string(n) + " values, " + std::to_string(*comps) + " components, values (7*entry + 131*component) mod " + std::to_string(K) +
                (dg[1] == 1 ? ", first value 2^24+5" : dg[1] == 2 ? ", last value 2^17-1" : "") + ", level " + std::to_string(*level);
  };
  sp.run = [make](uint64_t idx, mc::Ctx &ctx) {
    std::vector<uint32_t> sym;
    int comps, level;
    std::string d;
    make(idx, &sym, &comps, &level, &d);
    Acc acc;
    for (int scheme = 0; scheme < 3; ++scheme) run_case(sym.data(), (int)sym.size(), comps, level, scheme, ctx, acc, [&] { return d; });
    acc.flush(ctx);
    ctx.count("multi_component_long_arrays");
  };
  sp.describe = [make](uint64_t idx) {
    std::vector<uint32_t> sym;
    int comps, level;
    std::string d;
    make(idx, &sym, &comps, &level, &d);
    return d + " x {auto, forced tagged, forced raw}";
  };
  R.add(sp);
}

// Length sweeps: the size prefix of a block, the rANS payload and the frequency table each change their own encoded length at
// thresholds of the PAYLOAD size (128 bytes, 16384 bytes), which arrays of a few fixed lengths never hit. Every length of a window
// (1..700 symbols, and the window in which the payload passes 16384..16511 bytes for the alphabet size) x alphabet {2,16,256} x
// levels x components x the three scheme choices.
void add_length_sweep_space(mc::Runner &R, const std::string &name, int window, std::vector<int> levels, std::vector<int> comps_list,
                            std::vector<int> alphabets, bool quick, bool thorough) {
  static const uint32_t kK[3] = {2, 16, 256};
  // window 0: lengths 1..700; window 1: per alphabet, the lengths around payload = 16384 bytes (bits per symbol 1, 4, 8)
  static const int kLo[3] = {130000, 32400, 16000}, kHi[3] = {133400, 33500, 16800}, kStep[3] = {4, 1, 1};
  auto L = std::make_shared<std::vector<std::array<int, 2>>>();  // (alphabet index, length)
  for (int a : alphabets) {
    if (window == 0)
      for (int n = 1; n <= 700; ++n) L->push_back({a, n});
    else
      for (int n = kLo[a]; n <= kHi[a]; n += kStep[a]) L->push_back({a, n});
  }
  mc::Radix rx{(uint64_t)levels.size(), (uint64_t)comps_list.size(), (uint64_t)L->size()};
  mc::Space sp;
  sp.name = name;
  sp.size = rx.size();
  sp.quick = quick;
  sp.thorough = thorough;
  sp.cases_per_index = 3;
  sp.timeout_s = 120;
  auto make = [=](uint64_t idx, std::vector<uint32_t> *sym, int *comps, int *level, std::string *d) {
    auto dg = rx.decode(idx);
    *level = levels[dg[0]];
    *comps = comps_list[dg[1]];
    const int a = (*L)[dg[2]][0];
    int n = (*L)[dg[2]][1];
    n -= n % *comps;
    if (n == 0) n = *comps;
    sym->resize(n);
    uint32_t x = 0x9e3779b9u ^ (uint32_t)n;
    for (int i = 0; i < n; ++i) {
      x ^= x << 13; x ^= x >> 17; x ^= x << 5;  // xorshift32, a fixed function of (length, position)
      (*sym)[i] = x % kK[a];
    }
    if (d) *d = std::to_string(n) + " values of a fixed xorshift sequence modulo " + std::to_string(kK[a]) + ", " + std::to_string(*comps) + " components, level " + std::to_string(*level);
  };
  sp.run = [=](uint64_t idx, mc::Ctx &ctx) {
    std::vector<uint32_t> sym;
    int comps, level;
    std::string d;
    make(idx, &sym, &comps, &level, &d);
    Acc acc;
    for (int scheme = 0; scheme < 3; ++scheme) run_case(sym.data(), (int)sym.size(), comps, level, scheme, ctx, acc, [&] { return d; });
    acc.flush(ctx);
    ctx.count("length_sweep_arrays");
  };
  sp.describe = [=](uint64_t idx) {
    std::vector<uint32_t> sym;
    int comps, level;
    std::string d;
    make(idx, &sym, &comps, &level, &d);
    return d + " x {auto, forced tagged, forced raw}";
  };
  R.add(sp);
}

}  // namespace

int main(int argc, char **argv) {
  mc::Runner R(argc, argv, "C08");
  R.level = "model_checking";
  R.distinct_bits = 24;
  const bool fast_part = R.flag("fast-part");
  build_fv();
  build_fam();
  R.rule =
      "exhaustive enumeration, nothing sampled; one evaluation = EncodeSymbols + sentinel varint + DecodeSymbols on an "
      "exact-size heap copy. (a) every array of length 1..4 (quick) / 1..6 (thorough; lengths <= 5 under ASan, length 6 at -O2 "
      "with one level per precision class {0,5,7,8,10}) over {0,1,2,3,63,64,255,256,4095,4096} x "
      "components {1,2,3,4} dividing the length x compression level 0..10 x scheme {auto, forced tagged, forced raw}; every "
      "array of length <= 2 (quick) / <= 3 (thorough; length 3 without 2^24) over "
      "{0,1,2^17,2^18-1,2^18,2^22,2^24,2^31-1,2^31,2^32-1} x components x "
      "levels {0,7,10} x scheme (-O2 part; length 1 also under ASan); (b) every frequency vector over 4 symbol ids with total "
      "1..24 (quick) / 1..64 (thorough; totals <= 40 under ASan, 41..64 at -O2) as ascending and descending array, dense ids {0,1,2,3} and sparse ids {1,3,68,134}, "
      "levels {0,5,7,8,10} x scheme; (c) families: symbols 0..n-1 once each + symbol 0 m times (+ symbol n-1 m/3 times) for " +
      std::to_string(kNumFamN) + " values of n up to 2^18+1 and " + std::to_string(kNumFamM) +
      " values of m up to 10^6, levels 0..10 x scheme. states = distinct outcomes (scheme used, raw precision class, block size "
      "/ reported failure); non-trivial (distinct by construction, one input per index and option tuple) = successful round "
      "trips of arrays holding at least two different symbols";
  R.explanation =
      "stateless exhaustive enumeration on the real EncodeSymbols/DecodeSymbols; oracle: encode true => decode true, output == "
      "input, sentinel varint decodes next, remaining_size()==0; encode false = reported failure (counted, not a violation); "
      "exceptions, crashes and sanitizer reports are violations";
  R.assumptions = {"the number of values passed is a multiple of the number of components",
                   "DecoderBuffer carries bitstream version 2.2 (RAnsSymbolDecoder refuses version 0)",
                   "single allocations above 256 MiB are refused with std::bad_alloc by the harness allocator cap",
                   "values in (2^24, 2^31-1) are not enumerated (the encoder allocates and clears max_value+1 counters)",
                   "DRACO_DCHECK is compiled out (as in every shipped configuration)"};
  R.transition_counters = {"encode_ok", "encode_reported_failure"};

  if (fast_part) {
    add_fam_space(R, "norm_large", &g_fam_large, true, true);
    add_length_sweep_space(R, "length_sweep_1_to_700", 0, {0, 7, 10}, {1, 2}, {0, 1, 2}, true, true);
    add_length_sweep_space(R, "length_sweep_payload_16384_quick", 1, {7}, {1}, {2}, true, false);
    add_length_sweep_space(R, "length_sweep_payload_16384", 1, {0, 7, 10}, {1, 2}, {0, 1, 2}, false, true);
    add_multicomp_space(R, "long_arrays_2_to_4_components_small", true, true, false);
    add_multicomp_space(R, "long_arrays_2_to_4_components", false, false, true);
    add_expensive_space(R, "expensive_len1to2", 1, 2, true, true);
    add_expensive_space(R, "expensive_len3_without_2p24", 3, 3, false, true, kExpensive9, 9);
    // the two largest cheap blocks run at -O2 (about 95 us per case under ASan)
    add_cheap_space(R, "cheap_len6_level_classes", 6, 6, false, true, true);
    add_fv_space(R, "freq_total41to64", 41, 64, false, true);
    R.require("encode_reported_failure:forced-raw", 1);
    R.require("scheme_used:tagged", 1);
    R.require("scheme_used:raw", 1);
    R.require("raw_unique_symbols_bit_length:18", 1);
    return R.main();
  }
  add_cheap_space(R, "cheap_len1to4", 1, 4, true, true);
  add_cheap_space(R, "cheap_len5", 5, 5, false, true);
  add_fv_space(R, "freq_total1to24", 1, 24, true, true);
  add_fv_space(R, "freq_total25to40", 25, 40, false, true);
  add_fam_space(R, "norm_small", &g_fam_small, true, true);
  add_expensive_space(R, "expensive_len1_asan", 1, 1, true, true);
  R.require("encode_ok", 1);
  R.require("scheme_used:tagged", 1);
  R.require("scheme_used:raw", 1);
  R.require("auto_chose:tagged", 1);
  R.require("auto_chose:raw", 1);
  R.require("raw_unique_symbols_bit_length:01", 1);
  R.require("raw_unique_symbols_bit_length:14", 1);
  return R.main();
}
