// Generators for the bounded geometry spaces S1..S5 of DESIGN.md §3, shared by
// the geometry-level harnesses (C01 C09 C10 C12 C05 C06 C02...).
#ifndef VERIF_CHECKS_GEOM_SPACES_H_
#define VERIF_CHECKS_GEOM_SPACES_H_

#include <limits>

#include "mc/geom.h"

namespace gs {

using namespace mcg;

typedef std::vector<std::array<int, 3>> Topo;

// All triangle lists with F faces over at most max_ids vertex ids, up to
// vertex relabelling: ids appear in first-occurrence order (restricted growth
// strings of length 3F). Face order and corner rotation are kept.
inline void rgs_rec(int pos, int len, int used, int max_ids, std::vector<int> &cur, std::vector<Topo> &out) {
  if (pos == len) {
    Topo t(len / 3);
    for (int i = 0; i < len; ++i) t[i / 3][i % 3] = cur[i];
    out.push_back(t);
    return;
  }
  for (int v = 0; v <= used && v < max_ids; ++v) {
    cur[pos] = v;
    rgs_rec(pos + 1, len, std::max(used, v + 1), max_ids, cur, out);
  }
}
inline std::vector<Topo> canonical_topologies(int F, int max_ids) {
  std::vector<Topo> out;
  if (F == 0) {
    out.push_back(Topo());
    return out;
  }
  std::vector<int> cur(3 * F);
  rgs_rec(0, 3 * F, 0, max_ids, cur, out);
  return out;
}

inline int num_ids(const Topo &t) {
  int m = -1;
  for (auto &f : t)
    for (int k = 0; k < 3; ++k) m = std::max(m, f[k]);
  return m + 1;
}

inline std::string topo_text(const Topo &t) {
  std::string s;
  for (auto &f : t) s += "(" + std::to_string(f[0]) + "," + std::to_string(f[1]) + "," + std::to_string(f[2]) + ")";
  return s;
}

// Named families for F = 3, 4 (seam space S2).
inline std::vector<std::pair<std::string, Topo>> named_families() {
  std::vector<std::pair<std::string, Topo>> v;
  v.push_back({"fan3", {{0, 1, 2}, {0, 2, 3}, {0, 3, 4}}});
  v.push_back({"strip3", {{0, 1, 2}, {2, 1, 3}, {2, 3, 4}}});
  v.push_back({"closed_fan3", {{0, 1, 2}, {0, 2, 3}, {0, 3, 1}}});
  v.push_back({"three_on_edge", {{0, 1, 2}, {0, 1, 3}, {0, 1, 4}}});
  v.push_back({"bowtie", {{0, 1, 2}, {0, 3, 4}}});
  v.push_back({"tetrahedron", {{0, 1, 2}, {0, 3, 1}, {1, 3, 2}, {2, 3, 0}}});
  v.push_back({"pillow", {{0, 1, 2}, {0, 2, 1}}});
  v.push_back({"fan4", {{0, 1, 2}, {0, 2, 3}, {0, 3, 4}, {0, 4, 1}}});
  v.push_back({"strip4", {{0, 1, 2}, {2, 1, 3}, {2, 3, 4}, {4, 3, 0}}});
  v.push_back({"two_pillows", {{0, 1, 2}, {0, 2, 1}, {3, 4, 5}, {3, 5, 4}}});  // two closed components
  return v;
}

// Coordinates bound to vertex ids.
inline void id_position(int id, float *p) {
  static const float P[12][3] = {{0, 0, 0}, {1, 0, 0}, {0, 1, 0}, {0, 0, 1}, {1, 1, 1}, {2, 3, 5}, {3, 1, 2}, {5, 2, 3}, {4, 4, 1}, {6, 1, 1}, {1, 6, 2}, {2, 2, 7}};
  for (int k = 0; k < 3; ++k) p[k] = P[id % 12][k];
}

enum PosKind { POS_F32 = 0, POS_F32_Q = 1, POS_I32 = 2, POS_F32_DUPVALUES = 3, POS_KINDS = 4 };

inline AttDef position_att(int num_entries, PosKind kind, const std::vector<int> &entry_vertex_id) {
  AttDef a;
  a.type = GeometryAttribute::POSITION;
  a.nc = 3;
  a.uid = 0;
  a.dt = kind == POS_I32 ? DT_INT32 : DT_FLOAT32;
  for (int e = 0; e < num_entries; ++e) {
    float p[3];
    int id = entry_vertex_id[e];
    if (kind == POS_F32_DUPVALUES && id >= 3 && id < 5) id = 0;  // distinct entries, equal values
    id_position(id, p);
    if (kind == POS_I32) {
      std::vector<int32_t> v = {(int32_t)p[0] * 7 - 3, (int32_t)p[1] * 7 - 3, (int32_t)p[2] * 7 - 3};
      a.entries.push_back(bytes_of(v));
    } else {
      std::vector<float> v = {p[0], p[1], p[2]};
      a.entries.push_back(bytes_of(v));
    }
  }
  return a;
}

// S1: position-only mesh from a topology. isolated: 0 none, 1 one extra point
// at the end, 2 one extra point at the beginning (all ids shifted).
inline GeomDef s1_mesh(const Topo &t, int isolated, PosKind kind) {
  GeomDef g;
  g.is_mesh = true;
  const int k = num_ids(t);
  const int shift = isolated == 2 ? 1 : 0;
  g.num_points = k + (isolated ? 1 : 0);
  for (auto &f : t) g.faces.push_back({f[0] + shift, f[1] + shift, f[2] + shift});
  std::vector<int> ev(g.num_points);
  for (int p = 0; p < g.num_points; ++p) {
    if (isolated == 2) ev[p] = p == 0 ? 5 : p - 1;
    else if (isolated == 1) ev[p] = p == k ? 5 : p;
    else ev[p] = p;
  }
  g.atts.push_back(position_att(g.num_points, kind, ev));
  return g;
}

// S2: a mesh whose second attribute takes, per corner, one of two values.
// bits: bit (3*f+k) selects the value of corner k of face f.
// dedup_points: points = distinct (vertex id, value) pairs (true) or one point
// per corner (false: several points with identical entries - still valid).
enum SeamAttKind { SEAM_TEX_Q = 0, SEAM_NORMAL_Q = 1, SEAM_GENERIC_U8 = 2, SEAM_TEX_F32 = 3, SEAM_KINDS = 4 };

inline AttDef seam_att(SeamAttKind kind) {
  AttDef a;
  a.uid = 1;
  a.per_corner = true;
  switch (kind) {
    case SEAM_TEX_Q:
    case SEAM_TEX_F32:
      a.type = GeometryAttribute::TEX_COORD; a.dt = DT_FLOAT32; a.nc = 2;
      a.entries = {bytes_of(std::vector<float>{0.f, 0.f}), bytes_of(std::vector<float>{1.f, 0.5f})};
      break;
    case SEAM_NORMAL_Q:
      a.type = GeometryAttribute::NORMAL; a.dt = DT_FLOAT32; a.nc = 3;
      a.entries = {bytes_of(std::vector<float>{0.f, 0.f, 1.f}), bytes_of(std::vector<float>{0.6f, 0.f, -0.8f})};
      break;
    case SEAM_GENERIC_U8:
      a.type = GeometryAttribute::GENERIC; a.dt = DT_UINT8; a.nc = 1;
      a.entries = {bytes_of(std::vector<uint8_t>{7}), bytes_of(std::vector<uint8_t>{200})};
      break;
    default: break;
  }
  return a;
}

inline GeomDef s2_mesh(const Topo &t, uint32_t bits, bool dedup_points, PosKind pkind, SeamAttKind skind) {
  GeomDef g;
  g.is_mesh = true;
  std::vector<std::pair<int, int>> pts;  // (vertex id, value)
  std::vector<int> pos_map, att_map;
  for (size_t f = 0; f < t.size(); ++f) {
    std::array<int, 3> face;
    for (int k = 0; k < 3; ++k) {
      const int vid = t[f][k];
      const int val = (bits >> (3 * f + k)) & 1;
      int pid = -1;
      if (dedup_points)
        for (size_t i = 0; i < pts.size(); ++i)
          if (pts[i].first == vid && pts[i].second == val) pid = (int)i;
      if (pid < 0) {
        pid = (int)pts.size();
        pts.push_back({vid, val});
      }
      face[k] = pid;
    }
    g.faces.push_back(face);
  }
  g.num_points = (int)pts.size();
  const int k = num_ids(t);
  std::vector<int> ev(k);
  for (int i = 0; i < k; ++i) ev[i] = i;
  AttDef pos = position_att(k, pkind, ev);
  AttDef sa = seam_att(skind);
  for (auto &p : pts) {
    pos.map.push_back(p.first);
    sa.map.push_back(p.second);
  }
  g.atts.push_back(pos);
  g.atts.push_back(sa);
  return g;
}

// S2b: two non-position attributes, each taking one of two values per corner
// (bits1 / bits2), so that the seams of the two attributes differ.
inline GeomDef s2b_mesh(const Topo &t, uint32_t bits1, uint32_t bits2, PosKind pkind, SeamAttKind k1, SeamAttKind k2) {
  GeomDef g;
  g.is_mesh = true;
  struct P { int vid, a, b; };
  std::vector<P> pts;
  for (size_t f = 0; f < t.size(); ++f) {
    std::array<int, 3> face;
    for (int k = 0; k < 3; ++k) {
      const int vid = t[f][k];
      const int a = (bits1 >> (3 * f + k)) & 1, b = (bits2 >> (3 * f + k)) & 1;
      int pid = -1;
      for (size_t i = 0; i < pts.size(); ++i)
        if (pts[i].vid == vid && pts[i].a == a && pts[i].b == b) pid = (int)i;
      if (pid < 0) {
        pid = (int)pts.size();
        pts.push_back({vid, a, b});
      }
      face[k] = pid;
    }
    g.faces.push_back(face);
  }
  g.num_points = (int)pts.size();
  const int k = num_ids(t);
  std::vector<int> ev(k);
  for (int i = 0; i < k; ++i) ev[i] = i;
  AttDef pos = position_att(k, pkind, ev);
  AttDef a1 = seam_att(k1), a2 = seam_att(k2);
  a2.uid = 2;
  for (auto &p : pts) {
    pos.map.push_back(p.vid);
    a1.map.push_back(p.a);
    a2.map.push_back(p.b);
  }
  g.atts = {pos, a1, a2};
  return g;
}

// S2c: a per-corner integer attribute with an arbitrary value per corner
// (corner_values[3*f+k]); points = distinct (vertex id, value) pairs.
inline GeomDef s2c_mesh(const Topo &t, const std::vector<int> &corner_values, PosKind pkind) {
  GeomDef g;
  g.is_mesh = true;
  std::vector<std::pair<int, int>> pts;
  for (size_t f = 0; f < t.size(); ++f) {
    std::array<int, 3> face;
    for (int k = 0; k < 3; ++k) {
      const int vid = t[f][k], val = corner_values[3 * f + k];
      int pid = -1;
      for (size_t i = 0; i < pts.size(); ++i)
        if (pts[i].first == vid && pts[i].second == val) pid = (int)i;
      if (pid < 0) {
        pid = (int)pts.size();
        pts.push_back({vid, val});
      }
      face[k] = pid;
    }
    g.faces.push_back(face);
  }
  g.num_points = (int)pts.size();
  const int k = num_ids(t);
  std::vector<int> ev(k);
  for (int i = 0; i < k; ++i) ev[i] = i;
  AttDef pos = position_att(k, pkind, ev);
  AttDef a;
  a.type = GeometryAttribute::GENERIC;
  a.dt = DT_INT32;
  a.nc = 1;
  a.uid = 1;
  a.per_corner = true;
  std::vector<int> vals;
  for (auto &p : pts) {
    pos.map.push_back(p.first);
    int e = -1;
    for (size_t i = 0; i < vals.size(); ++i)
      if (vals[i] == p.second) e = (int)i;
    if (e < 0) {
      e = (int)vals.size();
      vals.push_back(p.second);
      a.entries.push_back(bytes_of(std::vector<int32_t>{p.second * 37 - 5}));
    }
    a.map.push_back(e);
  }
  g.atts = {pos, a};
  return g;
}

// ------------------------------------------------------------------ option sets
inline EncCfg mesh_cfg(int method_kind, int speed) {
  // method_kind: 0 sequential, 1 sequential+compressed connectivity,
  // 2 edgebreaker standard, 3 edgebreaker valence, 4 automatic
  EncCfg c;
  c.speed_enc = c.speed_dec = speed;
  switch (method_kind) {
    case 0: c.method = MESH_SEQUENTIAL_ENCODING; break;
    case 1: c.method = MESH_SEQUENTIAL_ENCODING; c.compress_connectivity = true; break;
    case 2: c.method = MESH_EDGEBREAKER_ENCODING; c.eb_method = MESH_EDGEBREAKER_STANDARD_ENCODING; break;
    case 3: c.method = MESH_EDGEBREAKER_ENCODING; c.eb_method = MESH_EDGEBREAKER_VALENCE_ENCODING; break;
    default: break;
  }
  return c;
}

// Sub-set |mask| of the 2*W*H triangles of a triangulated W x H cell grid (positions on the integer lattice).
// diag 0: every cell cut along (x,y)-(x+1,y+1); 1: alternating diagonals (checkerboard); triangle 2*cell+0/1.
// Holes, single triangles, several components and non-manifold contacts at vertices all occur.
inline GeomDef tri_subset_mesh(int W, int H, int diag, uint64_t mask, bool int_positions = false) {
  GeomDef g;
  g.is_mesh = true;
  g.num_points = (W + 1) * (H + 1);
  for (int y = 0; y < H; ++y)
    for (int x = 0; x < W; ++x) {
      const int cell = y * W + x;
      const int a = y * (W + 1) + x, b = a + 1, c = a + W + 1, e = c + 1;
      const bool alt = diag == 1 && ((x + y) & 1);
      if ((mask >> (2 * cell)) & 1) g.faces.push_back(alt ? std::array<int, 3>{a, b, c} : std::array<int, 3>{a, b, e});
      if ((mask >> (2 * cell + 1)) & 1) g.faces.push_back(alt ? std::array<int, 3>{b, e, c} : std::array<int, 3>{a, e, c});
    }
  AttDef pos;
  pos.type = GeometryAttribute::POSITION;
  pos.nc = 3;
  pos.uid = 0;
  pos.dt = int_positions ? DT_INT32 : DT_FLOAT32;
  for (int i = 0; i < g.num_points; ++i) {
    const int x = i % (W + 1), y = i / (W + 1);
    if (int_positions) pos.entries.push_back(bytes_of(std::vector<int32_t>{x, y, (x * x + 3 * y) % 4}));
    else pos.entries.push_back(bytes_of(std::vector<float>{(float)x, (float)y, ((x * x + 3 * y) % 4) * 0.5f}));
  }
  g.atts = {pos};
  return g;
}

// W x H cell grid from which the cells of the |rank|-th set of at most K cells (sets ordered by size, then lexicographically)
// are removed: several holes at every mutual position, holes touching the border, holes touching each other in a corner.
inline uint64_t binom(int n, int k) {
  if (k < 0 || k > n) return 0;
  uint64_t r = 1;
  for (int i = 1; i <= k; ++i) r = r * (n - k + i) / i;
  return r;
}
inline uint64_t removed_cell_sets(int cells, int K) {
  uint64_t t = 0;
  for (int k = 0; k <= K; ++k) t += binom(cells, k);
  return t;
}
inline std::vector<int> unrank_cell_set(int cells, int K, uint64_t rank) {
  int k = 0;
  while (k <= K && rank >= binom(cells, k)) rank -= binom(cells, k++);
  std::vector<int> out;
  int next = 0;
  for (int i = 0; i < k; ++i) {
    for (int c = next; c < cells; ++c) {
      const uint64_t with_c = binom(cells - c - 1, k - i - 1);
      if (rank < with_c) {
        out.push_back(c);
        next = c + 1;
        break;
      }
      rank -= with_c;
    }
  }
  return out;
}
inline uint64_t grid_minus_cells_mask(int W, int H, int K, uint64_t rank) {
  // triangle mask for tri_subset_mesh (needs 2*W*H <= 64)
  uint64_t mask = 2 * W * H >= 64 ? ~0ull : (1ull << (2 * W * H)) - 1;
  for (int c : unrank_cell_set(W * H, K, rank)) mask &= ~(3ull << (2 * c));
  return mask;
}

inline int stream_geometry_type(const Bytes &b) { return b.size() > 7 ? b[7] : -1; }
inline int stream_method(const Bytes &b) { return b.size() > 8 ? b[8] : -1; }

}  // namespace gs

#endif  // VERIF_CHECKS_GEOM_SPACES_H_
