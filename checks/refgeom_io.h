// Reference geometry (RefGeom) shared by the C14 and C15 harnesses.
//
// A geometry is: for each attribute of a caller-chosen ordered list its
// descriptor, and a multiset of elements. For a mesh an element is a triangle
// = the cyclic-rotation-canonical triple of per-corner tuples of attribute
// value *bytes*; for a point cloud an element is one point's tuple. Values
// are read through public accessors only (mapped_index + GetValue) and kept
// byte-exact (so -0.0 != 0.0 and NaN payloads are kept). "Same geometry" =
// equal multisets (sorted vectors of byte strings).
//
// All reads are bounds-validated here, so a mesh whose point->value map or
// face list points outside the stored data is reported as an error string
// instead of being read out of bounds.
#ifndef VERIF_CHECKS_REFGEOM_IO_H_
#define VERIF_CHECKS_REFGEOM_IO_H_

#include <algorithm>
#include <array>
#include <cstdint>
#include <cstring>
#include <string>
#include <vector>

#include "draco/mesh/mesh.h"
#include "draco/point_cloud/point_cloud.h"

namespace rg {

struct Desc {
  int type = -1, data_type = 0, comps = 0;
  bool normalized = false;
  bool same_layout(const Desc &o) const {
    return type == o.type && data_type == o.data_type && comps == o.comps;
  }
  std::string str() const {
    return "type" + std::to_string(type) + "/dt" + std::to_string(data_type) + "x" + std::to_string(comps) +
           (normalized ? "n" : "");
  }
};

inline Desc desc_of(const draco::PointAttribute *a) {
  Desc d;
  d.type = a->attribute_type();
  d.data_type = a->data_type();
  d.comps = a->num_components();
  d.normalized = a->normalized();
  return d;
}

inline int value_size(const draco::PointAttribute *a) {
  return draco::DataTypeLength(a->data_type()) * a->num_components();
}

// Validated read of the value bytes of entry |avi|.
inline bool read_entry(const draco::PointAttribute *a, uint32_t avi, std::string *out, std::string *err) {
  const int64_t n = value_size(a);
  if (avi >= a->size()) {
    if (err) *err = "value index " + std::to_string(avi) + " >= size " + std::to_string(a->size());
    return false;
  }
  if (!a->buffer() || a->byte_stride() < n ||
      a->GetBytePos(draco::AttributeValueIndex(avi)) + a->byte_stride() > (int64_t)a->buffer()->data_size()) {
    if (err) *err = "value entry outside the data buffer";
    return false;
  }
  out->append(reinterpret_cast<const char *>(a->GetAddress(draco::AttributeValueIndex(avi))), n);
  return true;
}

// Validated, non-allocating access to the bytes of entry |avi| (nullptr if the
// entry lies outside the attribute / its buffer).
inline const uint8_t *entry_ptr(const draco::PointAttribute *a, uint32_t avi) {
  const int64_t n = value_size(a);
  if (avi >= a->size() || !a->buffer() || a->byte_stride() < n ||
      a->GetBytePos(draco::AttributeValueIndex(avi)) + a->byte_stride() > (int64_t)a->buffer()->data_size())
    return nullptr;
  return a->GetAddress(draco::AttributeValueIndex(avi));
}

// Validated point -> value index.
inline bool mapped(const draco::PointAttribute *a, uint32_t point, uint32_t *avi, std::string *err) {
  if (!a->is_mapping_identity() && point >= a->indices_map_size()) {
    if (err) *err = "point " + std::to_string(point) + " outside the point->value map of size " +
                    std::to_string(a->indices_map_size());
    return false;
  }
  *avi = a->mapped_index(draco::PointIndex(point)).value();
  if (*avi >= a->size()) {
    if (err) *err = "point " + std::to_string(point) + " mapped to value " + std::to_string(*avi) + " >= size " +
                    std::to_string(a->size());
    return false;
  }
  return true;
}

// Tuple of value bytes of |point| over the attributes |atts| (in that order).
inline bool point_tuple(const draco::PointCloud &pc, const std::vector<int> &atts, uint32_t point, std::string *out,
                        std::string *err) {
  if (point >= pc.num_points()) {
    if (err) *err = "point id " + std::to_string(point) + " >= num_points " + std::to_string(pc.num_points());
    return false;
  }
  for (int a : atts) {
    const draco::PointAttribute *att = pc.attribute(a);
    uint32_t avi;
    if (!mapped(att, point, &avi, err)) return false;
    if (!read_entry(att, avi, out, err)) return false;
  }
  return true;
}

// Rotation-canonical concatenation of three equally long corner tuples.
inline std::string canon_tri(const std::string &a, const std::string &b, const std::string &c) {
  const std::string *t[3] = {&a, &b, &c};
  int best = 0;
  for (int r = 1; r < 3; ++r) {
    // compare rotation r with rotation best, lexicographically over corners
    for (int k = 0; k < 3; ++k) {
      const int cmp = t[(r + k) % 3]->compare(*t[(best + k) % 3]);
      if (cmp < 0) { best = r; break; }
      if (cmp > 0) break;
    }
  }
  std::string o;
  o.reserve(a.size() * 3);
  for (int k = 0; k < 3; ++k) o += *t[(best + k) % 3];
  return o;
}

struct Geom {
  std::vector<std::string> elems;  // sorted multiset
  void finish() { std::sort(elems.begin(), elems.end()); }
  bool operator==(const Geom &o) const { return elems == o.elems; }
  bool operator!=(const Geom &o) const { return !(elems == o.elems); }
  uint64_t hash() const {
    uint64_t h = 1469598103934665603ull;
    for (auto &e : elems) {
      for (unsigned char ch : e) h = (h ^ ch) * 1099511628211ull;
      h = (h ^ 0xff) * 1099511628211ull;
    }
    return h;
  }
  // Same elements with multiplicities dropped.
  Geom as_set() const {
    Geom g = *this;
    g.elems.erase(std::unique(g.elems.begin(), g.elems.end()), g.elems.end());
    return g;
  }
};

inline std::string hexs(const std::string &s) {
  static const char *d = "0123456789abcdef";
  std::string o;
  for (unsigned char c : s) {
    o += d[c >> 4];
    o += d[c & 15];
  }
  return o;
}

inline std::string show(const Geom &g, size_t max_elems = 6) {
  std::string s = "{";
  for (size_t i = 0; i < g.elems.size() && i < max_elems; ++i) s += (i ? " | " : "") + hexs(g.elems[i]);
  if (g.elems.size() > max_elems) s += " ...";
  return s + "} (" + std::to_string(g.elems.size()) + " elements)";
}

// Triangles of a mesh over the attribute ids |atts|.
inline bool from_mesh(const draco::Mesh &m, const std::vector<int> &atts, Geom *out, std::string *err) {
  out->elems.clear();
  for (uint32_t f = 0; f < m.num_faces(); ++f) {
    const draco::Mesh::Face &face = m.face(draco::FaceIndex(f));
    std::string c[3];
    for (int k = 0; k < 3; ++k)
      if (!point_tuple(m, atts, face[k].value(), &c[k], err)) {
        if (err) *err = "face " + std::to_string(f) + " corner " + std::to_string(k) + ": " + *err;
        return false;
      }
    out->elems.push_back(canon_tri(c[0], c[1], c[2]));
  }
  out->finish();
  return true;
}

// Points of a point cloud over the attribute ids |atts|.
inline bool from_cloud(const draco::PointCloud &pc, const std::vector<int> &atts, Geom *out, std::string *err) {
  out->elems.clear();
  for (uint32_t p = 0; p < pc.num_points(); ++p) {
    std::string t;
    if (!point_tuple(pc, atts, p, &t, err)) return false;
    out->elems.push_back(std::move(t));
  }
  out->finish();
  return true;
}

// All attribute ids 0..n-1.
inline std::vector<int> all_atts(const draco::PointCloud &pc) {
  std::vector<int> v;
  for (int i = 0; i < pc.num_attributes(); ++i) v.push_back(i);
  return v;
}

// Full structural snapshot (for "changes nothing" comparisons): point count,
// faces, and per attribute descriptor, entry bytes and point->entry map.
inline bool snapshot(const draco::PointCloud &pc, const draco::Mesh *mesh, std::string *out, std::string *err) {
  out->clear();
  auto put32 = [&](uint32_t v) { out->append(reinterpret_cast<const char *>(&v), 4); };
  put32(pc.num_points());
  put32(pc.num_attributes());
  for (int a = 0; a < pc.num_attributes(); ++a) {
    const draco::PointAttribute *att = pc.attribute(a);
    const Desc d = desc_of(att);
    put32(d.type); put32(d.data_type); put32(d.comps); put32(d.normalized);
    put32(att->size());
    for (uint32_t i = 0; i < att->size(); ++i)
      if (!read_entry(att, i, out, err)) return false;
    for (uint32_t p = 0; p < pc.num_points(); ++p) {
      uint32_t avi;
      if (!mapped(att, p, &avi, err)) return false;
      put32(avi);
    }
  }
  if (mesh) {
    put32(mesh->num_faces());
    for (uint32_t f = 0; f < mesh->num_faces(); ++f)
      for (int k = 0; k < 3; ++k) put32(mesh->face(draco::FaceIndex(f))[k].value());
  }
  return true;
}

// Deep copy through public API only (Mesh::Copy does not exist in this build).
inline std::unique_ptr<draco::Mesh> clone_mesh(const draco::Mesh &m) {
  std::unique_ptr<draco::Mesh> c(new draco::Mesh());
  c->set_num_points(m.num_points());
  for (int a = 0; a < m.num_attributes(); ++a) {
    std::unique_ptr<draco::PointAttribute> pa(new draco::PointAttribute());
    pa->CopyFrom(*m.attribute(a));
    const uint32_t uid = m.attribute(a)->unique_id();
    const int id = c->AddAttribute(std::move(pa));
    c->attribute(id)->set_unique_id(uid);
    c->SetAttributeElementType(id, m.GetAttributeElementType(a));
  }
  c->SetNumFaces(m.num_faces());
  for (uint32_t f = 0; f < m.num_faces(); ++f) c->SetFace(draco::FaceIndex(f), m.face(draco::FaceIndex(f)));
  return c;
}

}  // namespace rg

#endif  // VERIF_CHECKS_REFGEOM_IO_H_
