// C20: keyframe animations round-trip with frame order preserved.
//
// Every case of the bounded spaces below is built through the public
// KeyframeAnimation API, encoded with KeyframeAnimationEncoder, decoded with
// KeyframeAnimationDecoder and compared against a plain reference copy of the
// input (bytes per track) held by the harness.
#include <cmath>
#include <cstring>

#include "draco/animation/keyframe_animation.h"
#include "draco/animation/keyframe_animation_decoder.h"
#include "draco/animation/keyframe_animation_encoder.h"
#include "mc/runner.h"

using namespace draco;

namespace {

// ---------------------------------------------------------------- the input
enum Kind { F32A = 0, I32 = 1, I8 = 2, U16 = 3, F32B = 4 };
const char *kKindName[] = {"f32a", "i32", "i8", "u16", "f32b"};
const int kComps[5] = {1, 2, 3, 4, 16};
const int kQuant[3] = {0, 8, 16};
const int kSpeed[3] = {0, 5, 10};
const char *kTsName[3] = {"increasing", "all-equal", "decreasing"};

int elem_size(int kind) {
  switch (kind) {
    case I8: return 1;
    case U16: return 2;
    default: return 4;
  }
}
DataType data_type(int kind) {
  switch (kind) {
    case I32: return DT_INT32;
    case I8: return DT_INT8;
    case U16: return DT_UINT16;
    default: return DT_FLOAT32;
  }
}
bool is_float(int kind) { return kind == F32A || kind == F32B; }

// The 3-value alphabet of a track: depends on the data kind and on the track
// index k, so that two tracks of one animation never hold the same bytes.
void alphabet(int kind, int k, uint8_t out[3][4]) {
  memset(out, 0, 12);
  switch (kind) {
    case F32A: {
      const float v[3] = {-1.0f - k, 0.3f, 2.5f + 0.125f * k};
      memcpy(out[0], &v[0], 4); memcpy(out[1], &v[1], 4); memcpy(out[2], &v[2], 4);
      break;
    }
    case F32B: {  // large magnitude, small extent
      const float v[3] = {1000.0f + k, 1000.1f + k, 1001.0f + k};
      memcpy(out[0], &v[0], 4); memcpy(out[1], &v[1], 4); memcpy(out[2], &v[2], 4);
      break;
    }
    case I32: {
      const int32_t v[3] = {-100000 - k, 0, 7 + k};
      memcpy(out[0], &v[0], 4); memcpy(out[1], &v[1], 4); memcpy(out[2], &v[2], 4);
      break;
    }
    case I8: {
      const int8_t v[3] = {-128, int8_t(k), 127};
      memcpy(out[0], &v[0], 1); memcpy(out[1], &v[1], 1); memcpy(out[2], &v[2], 1);
      break;
    }
    case U16: {
      const uint16_t v[3] = {0, uint16_t(1 + k), 65535};
      memcpy(out[0], &v[0], 2); memcpy(out[1], &v[1], 2); memcpy(out[2], &v[2], 2);
      break;
    }
  }
}

struct Track {
  int kind = F32A;
  int comps = 1;
  int quant = 0;  // requested quantization bits for this track's id, 0 = none
  std::vector<uint8_t> digits;  // frames*comps alphabet digits (0..2)
};

struct Case {
  int frames = 1;
  int ts_mode = 0;
  int speed = 5;
  int order = 0;  // 0: SetTimestamps first, 1: all AddKeyframes first
  bool builtin = true;  // false: encoder option use_built_in_attribute_compression = false (raw value storage)
  std::vector<Track> tracks;
};

float timestamp(const Case &c, int i) {
  switch (c.ts_mode) {
    case 0: return 0.1f * float(i);
    case 1: return 1.5f;
    default: return 0.1f * float(c.frames - 1 - i);
  }
}

// digit of (frame i, component j) for the structured pattern (a,b,c0)
inline int pattern_digit(int a, int b, int c0, int i, int j) { return (a * i + b * j + c0) % 3; }

void fill_pattern(Track &t, int frames, int a, int b, int c0) {
  t.digits.resize(size_t(frames) * t.comps);
  for (int i = 0; i < frames; ++i)
    for (int j = 0; j < t.comps; ++j) t.digits[size_t(i) * t.comps + j] = pattern_digit(a, b, c0, i, j);
}

std::vector<uint8_t> track_bytes(const Track &t, int k) {
  uint8_t al[3][4];
  alphabet(t.kind, k, al);
  const int es = elem_size(t.kind);
  std::vector<uint8_t> out(t.digits.size() * es);
  for (size_t i = 0; i < t.digits.size(); ++i) memcpy(&out[i * es], al[t.digits[i]], es);
  return out;
}

std::string show_value(int kind, const uint8_t *p) {
  char b[48];
  switch (kind) {
    case I32: { int32_t v; memcpy(&v, p, 4); snprintf(b, sizeof b, "%d", v); break; }
    case I8: { int8_t v; memcpy(&v, p, 1); snprintf(b, sizeof b, "%d", int(v)); break; }
    case U16: { uint16_t v; memcpy(&v, p, 2); snprintf(b, sizeof b, "%u", unsigned(v)); break; }
    default: { float v; memcpy(&v, p, 4); snprintf(b, sizeof b, "%.9g", v); break; }
  }
  return b;
}

std::string show(const Case &c) {
  std::string s = "frames=" + std::to_string(c.frames) + " timestamps=" + kTsName[c.ts_mode] + " speed=" + std::to_string(c.speed) + (c.builtin ? "" : " built-in-compression=off") +
                  (c.order ? " order=AddKeyframes-then-SetTimestamps" : " order=SetTimestamps-then-AddKeyframes") +
                  " tracks=" + std::to_string(c.tracks.size());
  for (size_t k = 0; k < c.tracks.size(); ++k) {
    const Track &t = c.tracks[k];
    s += " | track" + std::to_string(k) + ": " + kKindName[t.kind] + " x" + std::to_string(t.comps) + " quant=" + std::to_string(t.quant) + " values(frame-major)=[";
    const std::vector<uint8_t> by = track_bytes(t, int(k));
    const int es = elem_size(t.kind);
    const size_t n = t.digits.size();
    for (size_t i = 0; i < n && i < 48; ++i) s += (i ? "," : "") + show_value(t.kind, &by[i * es]);
    if (n > 48) s += ",... (" + std::to_string(n) + " values, digit(i,j) continues the same pattern)";
    s += "]";
  }
  return s;
}

std::string config_tag(const Case &c) {
  std::string s = "f" + std::to_string(c.frames > 4 ? 10000 : c.frames) + ",s" + std::to_string(c.speed);
  for (auto &t : c.tracks) s += std::string(",") + kKindName[t.kind] + "x" + std::to_string(t.comps) + "q" + std::to_string(t.quant);
  return s;
}

// ---------------------------------------------------------------- the oracle
template <typename T>
int32_t add_track(KeyframeAnimation &anim, const Track &t, const std::vector<uint8_t> &bytes) {
  std::vector<T> data(bytes.size() / sizeof(T));
  memcpy(data.data(), bytes.data(), bytes.size());
  return anim.AddKeyframes(data_type(t.kind), uint32_t(t.comps), data);
}

int32_t add_track_any(KeyframeAnimation &anim, const Track &t, const std::vector<uint8_t> &bytes) {
  switch (t.kind) {
    case I32: return add_track<int32_t>(anim, t, bytes);
    case I8: return add_track<int8_t>(anim, t, bytes);
    case U16: return add_track<uint16_t>(anim, t, bytes);
    default: return add_track<float>(anim, t, bytes);
  }
}

float ulp32(float x) {
  x = std::fabs(x);
  return std::nextafterf(x, INFINITY) - x;
}

// Reads frame |i| of |att| through the point->value map into |out|.
bool read_frame(const PointAttribute *att, int i, size_t nbytes, uint8_t *out) {
  const AttributeValueIndex avi = att->mapped_index(PointIndex(i));
  if (avi.value() >= att->size()) return false;
  if (size_t(att->byte_stride()) != nbytes) return false;
  att->GetValue(avi, out);
  return true;
}

// Compares attribute |att| of animation |anim| with the reference track.
// |exact|: bit-exact; otherwise the C04 half-step bound for |quant| bits.
// Returns "" when ok, else the failing aspect (signature suffix) and detail.
std::string compare_track(const PointAttribute *att, const Track &t, const std::vector<uint8_t> &ref, int frames, bool exact,
                          std::string *detail, double *worst_ratio) {
  if (!att) { *detail = "accessor returned null"; return "missing"; }
  if (att->data_type() != data_type(t.kind)) { *detail = "data type " + std::to_string(att->data_type()); return "type"; }
  if (att->num_components() != t.comps) { *detail = "components " + std::to_string(att->num_components()); return "components"; }
  const int es = elem_size(t.kind);
  const size_t fb = size_t(t.comps) * es;
  std::vector<uint8_t> got(fb);
  double bound = 0;
  if (!exact) {
    // R = largest per-component extent, M = largest magnitude of the track.
    double R = 0, M = 0;
    for (int j = 0; j < t.comps; ++j) {
      double lo = INFINITY, hi = -INFINITY;
      for (int i = 0; i < frames; ++i) {
        float v; memcpy(&v, &ref[size_t(i) * fb + size_t(j) * 4], 4);
        lo = std::min(lo, double(v)); hi = std::max(hi, double(v));
        M = std::max(M, std::fabs(double(v)));
      }
      R = std::max(R, hi - lo);
    }
    bound = R / double((1u << t.quant) - 1) / 2.0 + 4.0 * double(ulp32(float(M)));
  }
  for (int i = 0; i < frames; ++i) {
    if (!read_frame(att, i, fb, got.data())) {
      *detail = "frame " + std::to_string(i) + " not readable (size " + std::to_string(att->size()) + ", stride " + std::to_string(att->byte_stride()) + ")";
      return "unreadable";
    }
    if (exact) {
      if (memcmp(got.data(), &ref[size_t(i) * fb], fb) != 0) {
        int j = 0;
        while (memcmp(&got[size_t(j) * es], &ref[size_t(i) * fb + size_t(j) * es], es) == 0) ++j;
        *detail = "frame " + std::to_string(i) + " component " + std::to_string(j) + ": expected " + show_value(t.kind, &ref[size_t(i) * fb + size_t(j) * es]) +
                  " got " + show_value(t.kind, &got[size_t(j) * es]);
        return "values";
      }
    } else {
      for (int j = 0; j < t.comps; ++j) {
        float a, b;
        memcpy(&a, &ref[size_t(i) * fb + size_t(j) * 4], 4);
        memcpy(&b, &got[size_t(j) * 4], 4);
        const double err = std::fabs(double(a) - double(b));
        if (!(err <= bound)) {
          char buf[200];
          snprintf(buf, sizeof buf, "frame %d component %d: expected %.9g got %.9g, error %.9g > bound %.9g", i, j, a, b, err, bound);
          *detail = buf;
          return "quantization-bound";
        }
        if (worst_ratio && bound > 0) *worst_ratio = std::max(*worst_ratio, err / bound);
      }
    }
  }
  return "";
}

void check(const Case &c, mc::Ctx &ctx) {
  const int T = int(c.tracks.size());
  // reference copy
  std::vector<std::vector<uint8_t>> ref(T);
  for (int k = 0; k < T; ++k) ref[k] = track_bytes(c.tracks[k], k);
  std::vector<float> ts(c.frames);
  for (int i = 0; i < c.frames; ++i) ts[i] = timestamp(c, i);
  Track ts_track;
  ts_track.kind = F32A;
  ts_track.comps = 1;
  std::vector<uint8_t> ts_ref(size_t(c.frames) * 4);
  memcpy(ts_ref.data(), ts.data(), ts_ref.size());

  // build through the public API
  KeyframeAnimation anim;
  std::vector<int32_t> ids(T, -1);
  auto add_all = [&]() -> bool {
    for (int k = 0; k < T; ++k) {
      ids[k] = add_track_any(anim, c.tracks[k], ref[k]);
      if (ids[k] < 0) {
        ctx.fail("build|AddKeyframes-rejected-consistent-track", show(c) + " :: track " + std::to_string(k));
        return false;
      }
    }
    return true;
  };
  if (c.order == 1 && !add_all()) return;
  if (!anim.SetTimestamps(ts)) {
    ctx.fail(std::string("build|SetTimestamps-rejected|") + (c.order ? "after-tracks" : "first"), show(c));
    return;
  }
  if (c.order == 0 && !add_all()) return;
  ctx.count(c.order ? "built:AddKeyframes-before-SetTimestamps" : "built:SetTimestamps-first");
  for (int k = 0; k < T; ++k) {
    if (ids[k] == 0) { ctx.fail("build|track-id-collides-with-timestamp-id-0", show(c)); return; }
    for (int m = 0; m < k; ++m)
      if (ids[m] == ids[k]) { ctx.fail("build|duplicate-track-id", show(c)); return; }
  }
  // the source object itself must answer keyframes(id)/timestamps() correctly
  {
    std::string d;
    if (anim.num_frames() != c.frames) { ctx.fail("source|num_frames", show(c) + " :: " + std::to_string(anim.num_frames())); return; }
    std::string w = compare_track(anim.timestamps(), ts_track, ts_ref, c.frames, true, &d, nullptr);
    if (!w.empty()) { ctx.fail("source|timestamps-" + w, show(c) + " :: " + d); return; }
    for (int k = 0; k < T; ++k) {
      w = compare_track(anim.keyframes(ids[k]), c.tracks[k], ref[k], c.frames, true, &d, nullptr);
      if (!w.empty()) { ctx.fail("source|keyframes(id)-" + w, show(c) + " :: track " + std::to_string(k) + " id " + std::to_string(ids[k]) + ": " + d); return; }
    }
  }

  // encode
  EncoderOptions options = EncoderOptions::CreateDefaultOptions();
  options.SetSpeed(c.speed, c.speed);
  if (!c.builtin) options.SetGlobalBool("use_built_in_attribute_compression", false);
  bool any_quant = false;
  for (int k = 0; k < T; ++k)
    if (c.tracks[k].quant > 0) {
      options.SetAttributeInt(ids[k], "quantization_bits", c.tracks[k].quant);
      if (is_float(c.tracks[k].kind)) any_quant = true;
    }
  EncoderBuffer buffer;
  KeyframeAnimationEncoder encoder;
  const Status es = encoder.EncodeKeyframeAnimation(anim, options, &buffer);
  ctx.count("encodes");
  ctx.count("encodes:speed" + std::to_string(c.speed));
  if (!c.builtin) ctx.count("encodes:built-in-compression-off");
  if (!es.ok()) {
    ctx.count("encode_reported_failure");
    ctx.count("encode_reported_failure:" + config_tag(c));
    return;  // a reported failure is acceptable
  }
  ctx.count("encode_ok");
  ctx.count(std::string("encode_ok:tracks") + std::to_string(T));
  ctx.count_max("max_stream_bytes", buffer.size());
  ctx.state(mc::hash_bytes(buffer.data(), buffer.size()));

  // classification of the input (counted for every case that reaches the decoder)
  if (any_quant) ctx.count("cases_with_quantized_track");
  if (T >= 2) {
    bool mixed = false;
    for (int k = 1; k < T; ++k)
      if (c.tracks[k].kind != c.tracks[0].kind || c.tracks[k].comps != c.tracks[0].comps) mixed = true;
    if (mixed) ctx.count("cases_with_mixed_track_types");
    bool qmix = false;
    for (int k = 1; k < T; ++k)
      if ((c.tracks[k].quant > 0) != (c.tracks[0].quant > 0)) qmix = true;
    if (qmix) ctx.count("cases_with_mixed_quantization");
  }
  // non-trivial: a permutation of the frames would be observable
  bool observable = false;
  if (c.frames >= 2) {
    if (c.ts_mode != 1) observable = true;
    for (int k = 0; k < T && !observable; ++k) {
      const size_t fb = ref[k].size() / c.frames;
      for (int i = 1; i < c.frames; ++i)
        if (memcmp(&ref[k][0], &ref[k][size_t(i) * fb], fb) != 0) { observable = true; break; }
    }
  }
  if (observable) {
    uint64_t h = mc::hash_combine(c.frames, mc::hash_combine(c.ts_mode, mc::hash_combine(c.speed, c.order * 2 + (c.builtin ? 0 : 1))));
    for (int k = 0; k < T; ++k) {
      h = mc::hash_combine(h, c.tracks[k].kind * 1000 + c.tracks[k].comps * 20 + c.tracks[k].quant);
      h = mc::hash_combine(h, mc::hash_bytes(ref[k].data(), ref[k].size()));
    }
    ctx.nontrivial(h);
    ctx.count("cases_frame_order_observable");
  }

  // decode
  DecoderBuffer db;
  db.Init(buffer.data(), buffer.size());
  KeyframeAnimation dec;
  KeyframeAnimationDecoder decoder;
  DecoderOptions dopt;
  const Status ds = decoder.Decode(dopt, &db, &dec);
  if (!ds.ok()) {
    ctx.fail("decode-failed", show(c) + " :: " + ds.error_msg_string());
    return;
  }
  ctx.count("decode_ok");
  if (dec.num_frames() != c.frames) {
    ctx.fail("num_frames-differs", show(c) + " :: decoded " + std::to_string(dec.num_frames()));
    return;
  }
  if (dec.num_animations() != T) {
    ctx.fail("num_animations-differs", show(c) + " :: decoded " + std::to_string(dec.num_animations()));
    return;
  }
  std::string d;
  {
    const PointAttribute *ta = dec.timestamps();
    if (ta && ta->unique_id() != 0) { ctx.fail("timestamps-not-id-0", show(c)); return; }
    std::string w = compare_track(ta, ts_track, ts_ref, c.frames, true, &d, nullptr);
    if (!w.empty()) { ctx.fail("timestamps-" + w, show(c) + " :: " + d); return; }
    // "timestamps are the attribute with id 0"
    if (dec.num_attributes() < 1 || dec.attribute(0) != ta) { ctx.fail("timestamps-not-attribute-0", show(c)); return; }
  }
  double worst = 0;
  for (int k = 0; k < T; ++k) {
    const Track &t = c.tracks[k];
    const bool quantized = t.quant > 0 && is_float(t.kind);
    ctx.count(quantized ? "quantized_tracks_compared" : (is_float(t.kind) ? "exact_float_tracks_compared" : "exact_int_tracks_compared"));
    if (t.quant > 0 && !is_float(t.kind)) ctx.count("int_tracks_with_quantization_requested_compared_exact");
    std::string w = compare_track(dec.keyframes(ids[k]), t, ref[k], c.frames, !quantized, &d, &worst);
    if (!w.empty()) {
      ctx.fail(std::string(quantized ? "quantized-track-" : "exact-track-") + w, show(c) + " :: track " + std::to_string(k) + " id " + std::to_string(ids[k]) + ": " + d);
      return;
    }
  }
  if (any_quant) ctx.count_max("max_quantization_error_permille_of_bound", uint64_t(worst * 1000.0));
  // the same stream decoded into a KeyframeAnimation object that already holds another animation (3 frames, one int32 track)
  // must give exactly what the fresh object got
  {
    static std::vector<char> decoy;
    if (decoy.empty()) {
      KeyframeAnimation a;
      a.SetTimestamps(std::vector<float>{0.f, 1.f, 2.f});
      a.AddKeyframes(DT_INT32, 1, std::vector<int32_t>{10, 11, 12});
      EncoderBuffer eb;
      KeyframeAnimationEncoder e;
      EncoderOptions eo = EncoderOptions::CreateDefaultOptions();
      if (e.EncodeKeyframeAnimation(a, eo, &eb).ok()) decoy.assign(eb.data(), eb.data() + eb.size());
    }
    KeyframeAnimation reused;
    KeyframeAnimationDecoder d2;
    DecoderBuffer b1, b2;
    b1.Init(decoy.data(), decoy.size());
    b2.Init(buffer.data(), buffer.size());
    const bool ok1 = !decoy.empty() && d2.Decode(dopt, &b1, &reused).ok();
    const bool ok2 = ok1 && d2.Decode(dopt, &b2, &reused).ok();
    ctx.count("decodes_into_reused_animation_object");
    bool same = ok2 && reused.num_frames() == dec.num_frames() && reused.num_attributes() == dec.num_attributes() &&
                reused.num_animations() == dec.num_animations();
    for (int a = 0; same && a < dec.num_attributes(); ++a) {
      const PointAttribute *x = reused.attribute(a), *y = dec.attribute(a);
      same = x->unique_id() == y->unique_id() && x->data_type() == y->data_type() && x->num_components() == y->num_components() &&
             x->size() == y->size() && x->buffer()->data_size() == y->buffer()->data_size() &&
             (y->buffer()->data_size() == 0 || memcmp(x->buffer()->data(), y->buffer()->data(), y->buffer()->data_size()) == 0);
    }
    if (same && reused.timestamps() != reused.attribute(0)) same = false;
    if (!same) {
      ctx.fail("reused-animation-object-differs-from-fresh-object", show(c));
      return;
    }
  }
  ctx.count("roundtrip_ok");
}

// ---------------------------------------------------------------- the spaces
uint64_t ipow(uint64_t b, int e) { uint64_t r = 1; while (e-- > 0) r *= b; return r; }

void add(mc::Runner &R, const std::string &name, uint64_t size, bool quick, bool thorough, std::function<Case(uint64_t)> gen, double timeout = 20) {
  mc::Space sp;
  sp.name = name;
  sp.size = size;
  sp.quick = quick;
  sp.thorough = thorough;
  sp.timeout_s = timeout;
  sp.run = [gen](uint64_t idx, mc::Ctx &ctx) {
    // every case with the entropy-coded and with the raw value storage of the integer attribute encoder
    Case c = gen(idx);
    check(c, ctx);
    c.builtin = false;
    check(c, ctx);
  };
  sp.describe = [gen](uint64_t idx) { return show(gen(idx)); };
  sp.klass = [gen](uint64_t idx) {
    const Case c = gen(idx);
    bool q = false;
    for (auto &t : c.tracks) q = q || (t.quant > 0 && is_float(t.kind));
    return "tracks" + std::to_string(c.tracks.size()) + (q ? ",quantized" : ",unquantized") + (c.frames > 4 ? ",10k-frames" : "");
  };
  R.add(sp);
}

// multi-track value pattern: track k, variant v
void fill_multi(Track &t, int frames, int k, int v) { fill_pattern(t, frames, (v + k + 1) % 3, (k + 1) % 3, k % 3); }

}  // namespace

int main(int argc, char **argv) {
  mc::Runner R(argc, argv, "C20");
  R.level = "model_checking";
  R.distinct_bits = 25;
  R.rule =
      "one evaluation = one keyframe animation built through SetTimestamps/AddKeyframes, encoded by KeyframeAnimationEncoder and decoded by "
      "KeyframeAnimationDecoder; states = distinct encoded byte streams; non-trivial = distinct inputs (hash of frames, timestamp mode, speed, "
      "call order and every track's type/components/quantization/bytes) with >= 2 frames in which at least the timestamps or one track differ "
      "between two frames, i.e. a permutation of the frames would be observable";
  R.explanation =
      "stateless exhaustive enumeration of explicit finite products of animation shapes and encoder options on the real code; the reference is "
      "the harness's own byte copy of every track; unquantized tracks and timestamps are compared bit-exactly per frame index through "
      "mapped_index, quantized float tracks against R/(2^q-1)/2 + 4 ulp32(max |v|) with R the largest per-component extent";
  R.assumptions = {
      "bounds: frames in {1,2,3,4} plus a 10^4-frame family; 0..3 tracks; components in {1,2,3,4,16}; data float32/int32/int8/uint16; quantization "
      "off/8/16 bits per track id; speeds 0/5/10; timestamps increasing/equal/decreasing; AddKeyframes before/after SetTimestamps",
      "track values come from a 3-value alphabet per (type, track index): f32a {-1-k,0.3,2.5+k/8}, f32b {1000+k,1000.1+k,1001+k}, i32 {-100000-k,0,7+k}, "
      "i8 {-128,k,127}, u16 {0,1+k,65535}; ALL assignments are enumerated for one track with frames*components <= 4 (quick) / frames,components <= 3 "
      "(thorough); larger shapes use the 27 structured assignments digit(i,j) = (a*i+b*j+c0) mod 3; multi-track spaces use per-track patterns "
      "(a,b,c0) = ((v+k+1)%3,(k+1)%3,k%3)",
      "t1_all_f3_c3 (19683 assignments) ties the timestamp mode (and call order = mode % 2) to the speed digit; t3_full (3 frames) ties the timestamp mode and the value variant v to the speed digit (speed 0: increasing/v0, 5: equal/v1, 10: decreasing/v2); the 10^4-frame "
      "family rotates type/components/quantization over the track index",
      "int32 values are kept moderate on purpose: |v| >= 2^30 runs into the symbol-coding defects decided by C08/C16",
      "quantization is requested only for track ids, never for the timestamp attribute (the property wants timestamps bit-exact); a quantization "
      "request on an integer track must leave it bit-exact",
      "ASan+UBSan build, any report is a violation"};
  R.transition_counters = {"encodes"};

  // -- timestamps only
  add(R, "ts_only", 5 * 3 * 3, true, true, [](uint64_t idx) {
    mc::Radix rx{5, 3, 3};
    auto d = rx.decode(idx);
    Case c;
    const int fr[5] = {1, 2, 3, 4, 10000};
    c.frames = fr[d[0]];
    c.ts_mode = int(d[1]);
    c.speed = kSpeed[d[2]];
    return c;
  });

  // -- one track, ALL value assignments
  for (int f = 1; f <= 4; ++f)
    for (int cc = 1; cc <= 4; ++cc) {
      const bool small = f * cc <= 4;
      const bool mid = f <= 3 && cc <= 3;
      if (!small && !mid) continue;
      const uint64_t nv = ipow(3, f * cc);
      // the 3x3 shape (19683 assignments) ties timestamp mode and call order to the speed digit to stay inside the budget
      const bool tied = f * cc == 9;
      add(R, "t1_all_f" + std::to_string(f) + "_c" + std::to_string(cc), nv * 5 * 3 * 3 * (tied ? 1 : 3 * 2), small, true, [=](uint64_t idx) {
        mc::Radix rx{nv, 5, 3, 3, 3, 2};
        if (tied) rx = mc::Radix{nv, 5, 3, 3};
        auto d = rx.decode(idx);
        if (tied) { d.push_back(d[3]); d.push_back(d[3] % 2); }
        Case c;
        c.frames = f;
        Track t;
        t.comps = cc;
        t.kind = int(d[1]);
        t.quant = kQuant[d[2]];
        uint64_t v = d[0];
        t.digits.resize(size_t(f) * cc);
        for (auto &x : t.digits) { x = v % 3; v /= 3; }
        c.ts_mode = int(d[3]);
        c.speed = kSpeed[d[4]];
        c.order = int(d[5]);
        c.tracks.push_back(t);
        return c;
      });
    }

  // -- one track, every shape, 27 structured assignments
  add(R, "t1_patterns", 4ull * 5 * 5 * 3 * 27 * 3 * 3 * 2, true, true, [](uint64_t idx) {
    mc::Radix rx{4, 5, 5, 3, 27, 3, 3, 2};
    auto d = rx.decode(idx);
    Case c;
    c.frames = int(d[0]) + 1;
    Track t;
    t.comps = kComps[d[1]];
    t.kind = int(d[2]);
    t.quant = kQuant[d[3]];
    fill_pattern(t, c.frames, int(d[4] % 3), int(d[4] / 3 % 3), int(d[4] / 9));
    c.ts_mode = int(d[5]);
    c.speed = kSpeed[d[6]];
    c.order = int(d[7]);
    c.tracks.push_back(t);
    return c;
  });

  // -- two tracks: every (type, components, quantization) pair
  auto two = [](uint64_t idx, const std::vector<int> &frames, int nvar) {
    mc::Radix rx{60, 60, frames.size(), 3, 3, 2, uint64_t(nvar)};
    auto d = rx.decode(idx);
    Case c;
    c.frames = frames[d[2]];
    for (int k = 0; k < 2; ++k) {
      Track t;
      const int x = int(d[k]);
      t.kind = x % 4;
      t.comps = kComps[x / 4 % 5];
      t.quant = kQuant[x / 20];
      fill_multi(t, c.frames, k, int(d[6]));
      c.tracks.push_back(t);
    }
    c.ts_mode = int(d[3]);
    c.speed = kSpeed[d[4]];
    c.order = int(d[5]);
    return c;
  };
  add(R, "t2_frames13", 3600ull * 2 * 3 * 3 * 2, true, false, [=](uint64_t idx) { return two(idx, {1, 3}, 1); });
  add(R, "t2_full", 3600ull * 4 * 3 * 3 * 2 * 3, false, true, [=](uint64_t idx) { return two(idx, {1, 2, 3, 4}, 3); });

  // -- three tracks
  // quick: every type triple x every quantization triple, components rotated
  add(R, "t3_rot", 64ull * 27 * 5 * 3 * 2, true, false, [](uint64_t idx) {
    mc::Radix rx{64, 27, 5, 3, 2};
    auto d = rx.decode(idx);
    Case c;
    c.frames = 3;
    for (int k = 0; k < 3; ++k) {
      Track t;
      t.kind = int(d[0] / ipow(4, k) % 4);
      t.quant = kQuant[d[1] / ipow(3, k) % 3];
      t.comps = kComps[(d[2] + 2 * k) % 5];
      fill_multi(t, c.frames, k, 0);
      c.tracks.push_back(t);
    }
    c.ts_mode = 0;
    c.speed = kSpeed[d[3]];
    c.order = int(d[4]);
    return c;
  });
  // thorough: every (type, components, quantization) triple
  add(R, "t3_full", 216000ull * 1 * 3 * 2, false, true, [](uint64_t idx) {
    mc::Radix rx{60, 60, 60, 1, 3, 2};
    auto d = rx.decode(idx);
    Case c;
    c.frames = int(d[3]) + 3;  // 3 frames (1, 2 and 4 frames: t1_*, t2_full)
    for (int k = 0; k < 3; ++k) {
      Track t;
      const int x = int(d[k]);
      t.kind = x % 4;
      t.comps = kComps[x / 4 % 5];
      t.quant = kQuant[x / 20];
      fill_multi(t, c.frames, k, int(d[4]));  // value variant tied to the speed digit
      c.tracks.push_back(t);
    }
    c.ts_mode = int(d[4]);  // timestamp mode tied to the speed digit
    c.speed = kSpeed[d[4]];
    c.order = int(d[5]);
    return c;
  });

  // -- 10^4 frames
  auto big = [](int tracks, int kind0, int comps0, int quant0, int speed, int ts, int order) {
    Case c;
    c.frames = 10000;
    for (int k = 0; k < tracks; ++k) {
      Track t;
      t.kind = (kind0 + k) % 4;
      t.comps = kComps[(comps0 + k) % 5];
      t.quant = kQuant[(quant0 + k) % 3];
      fill_pattern(t, c.frames, 1 + k % 2, 1, k % 3);
      c.tracks.push_back(t);
    }
    c.ts_mode = ts;
    c.speed = speed;
    c.order = order;
    return c;
  };
  // long animations whose LAST track costs almost nothing to code (constant, or the same value in every component): the compressed
  // payload left when that track starts is far smaller than the number of frames
  add(R, "frames10k_low_entropy_last_track", 3ull * 2 * 3 * 2, true, true, [=](uint64_t idx) {
    mc::Radix rx{3, 2, 3, 2};
    auto d = rx.decode(idx);
    Case c;
    c.frames = 10000;
    if (d[1]) {
      Track t;
      t.kind = F32A;
      t.comps = 3;
      t.quant = 0;
      fill_pattern(t, c.frames, 1, 1, 0);
      c.tracks.push_back(t);
    }
    Track last;
    last.kind = d[0] == 1 ? F32A : I32;
    last.comps = d[0] == 2 ? 1 : 3;
    last.quant = d[0] == 1 ? 8 : 0;
    fill_pattern(last, c.frames, 0, d[3] ? 1 : 0, 1);  // same digit in every frame (d[3]: components differ)
    c.tracks.push_back(last);
    c.ts_mode = 0;
    c.speed = kSpeed[d[2]];
    c.order = 0;
    return c;
  }, 60);
  add(R, "frames10k_small", 3ull * 4 * 3 * 3, true, false, [=](uint64_t idx) {
    mc::Radix rx{3, 4, 3, 3};
    auto d = rx.decode(idx);
    return big(int(d[0]) + 1, int(d[1]), int(d[1]), int(d[2]), kSpeed[d[3]], 0, int(d[0] % 2));
  }, 60);
  add(R, "frames10k_full", 3ull * 4 * 5 * 3 * 3 * 3 * 2, false, true, [=](uint64_t idx) {
    mc::Radix rx{3, 4, 5, 3, 3, 3, 2};
    auto d = rx.decode(idx);
    return big(int(d[0]) + 1, int(d[1]), int(d[2]), int(d[3]), kSpeed[d[4]], int(d[5]), int(d[6]));
  }, 60);

  R.require("encode_ok", 1000);
  // guards are on what was *submitted to the comparison*, so that a broken draco yields violations, not guard errors
  R.require("cases_with_quantized_track", 100);
  R.require("cases_with_mixed_quantization", 100);
  R.require("cases_with_mixed_track_types", 100);
  R.require("cases_frame_order_observable", 1000);
  R.require("built:AddKeyframes-before-SetTimestamps", 100);
  return R.main();
}
