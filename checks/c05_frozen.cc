// C05: existing bitstreams keep decoding to the same geometry, in the same order.
//   * every stream of the frozen corpus (/verif/corpus/frozen: the shipped
//     testdata/*.drc of bitstream versions 1.1..2.3 and the streams frozen from
//     this repository's encoder over ~1500 generators) must decode ok to the
//     frozen ORDERED digest (points, faces, values, attribute ids in order) and
//     be consumed exactly;
//   * encoder stability: re-encoding each generator must give the frozen bytes
//     (separates "decoder changed" from "format changed on both sides");
//   * every (major, minor) header rewrite above the supported version must be
//     rejected with UNKNOWN_VERSION.
// `--x-freeze` (never used by a check) writes the corpus.
#include "checks/stream_corpus.h"
#include "mc/alloc_env.h"

using namespace mcg;
using namespace sc;

namespace {

const char *kDir = "/verif/corpus/frozen";

struct Frozen {
  std::string name;
  Bytes bytes;
  uint64_t digest = 0;
  bool is_file = false;
};
std::vector<Frozen> g_frozen;

void put_u32(std::ofstream &f, uint32_t v) { f.write(reinterpret_cast<const char *>(&v), 4); }
void put_u64(std::ofstream &f, uint64_t v) { f.write(reinterpret_cast<const char *>(&v), 8); }
bool get_u32(std::ifstream &f, uint32_t *v) { return (bool)f.read(reinterpret_cast<char *>(v), 4); }
bool get_u64(std::ifstream &f, uint64_t *v) { return (bool)f.read(reinterpret_cast<char *>(v), 8); }

bool digest_of(const Bytes &b, uint64_t *out, size_t *remaining, std::string *err) {
  DecResult d = decode(b);
  if (!d.ok) {
    *err = d.error;
    return false;
  }
  *out = ordered_digest(*d.pc, d.mesh);
  *remaining = d.remaining;
  return true;
}

int freeze() {
  build_generators();
  build_large_generators();
  std::string dir = kDir;
  mkdir("/verif/corpus", 0755);
  mkdir(dir.c_str(), 0755);
  std::ofstream f(dir + "/streams.bin", std::ios::binary);
  std::ofstream js(dir + "/digests.json");
  js << "{\n \"note\": \"written once by `build/bin/asan/c05_frozen --x-freeze` from the repository state named in frozen_from; never "
        "rewritten by a check\",\n \"streams\": [\n";
  int n = 0;
  auto emit = [&](const std::string &name, const Bytes &b, bool is_file) {
    uint64_t dg = 0;
    size_t rem = 0;
    std::string err;
    if (!digest_of(b, &dg, &rem, &err)) {
      fprintf(stderr, "not freezing %s: does not decode (%s)\n", name.c_str(), err.c_str());
      return;
    }
    put_u32(f, (uint32_t)name.size());
    f.write(name.data(), name.size());
    put_u32(f, is_file);
    put_u32(f, (uint32_t)b.size());
    f.write(reinterpret_cast<const char *>(b.data()), b.size());
    put_u64(f, dg);
    char line[512];
    snprintf(line, sizeof line, "%s  {\"name\": %s, \"bytes\": %zu, \"version\": \"%d.%d\", \"type\": %d, \"method\": %d, \"digest\": \"%016llx\"}",
             n ? ",\n" : "", mc::jstr(name).c_str(), b.size(), b[5], b[6], b[7], b[8], (unsigned long long)dg);
    js << line;
    ++n;
  };
  for (auto &g : g_gens) {
    Recorder rec;
    EncResult r = encode_gen(g, &rec);
    if (!r.ok || !r.pred_status.empty()) continue;
    emit(g.name, r.bytes, false);
  }
  const char *repo = getenv("VERIF_REPO");
  std::string td = std::string(repo ? repo : "/repo") + "/testdata";
  std::vector<std::string> files;
  if (DIR *d = opendir(td.c_str())) {
    while (dirent *de = readdir(d)) {
      std::string nm = de->d_name;
      if (nm.size() > 4 && nm.substr(nm.size() - 4) == ".drc") files.push_back(nm);
    }
    closedir(d);
  }
  std::sort(files.begin(), files.end());
  for (auto &nm : files) {
    std::ifstream in(td + "/" + nm, std::ios::binary);
    Bytes b((std::istreambuf_iterator<char>(in)), std::istreambuf_iterator<char>());
    emit("file:" + nm, b, true);
  }
  js << "\n ]\n}\n";
  fprintf(stderr, "froze %d streams into %s\n", n, kDir);
  return 0;
}

bool load_frozen() {
  std::ifstream f(std::string(kDir) + "/streams.bin", std::ios::binary);
  if (!f) return false;
  uint32_t nl;
  while (get_u32(f, &nl)) {
    Frozen z;
    z.name.resize(nl);
    f.read(&z.name[0], nl);
    uint32_t isf, len;
    get_u32(f, &isf);
    get_u32(f, &len);
    z.is_file = isf;
    z.bytes.resize(len);
    f.read(reinterpret_cast<char *>(z.bytes.data()), len);
    get_u64(f, &z.digest);
    g_frozen.push_back(z);
  }
  return !g_frozen.empty();
}

}  // namespace

int main(int argc, char **argv) {
  for (int i = 1; i < argc; ++i)
    if (std::string(argv[i]) == "--x-freeze") return freeze();
  mc::Runner R(argc, argv, "C05");
  R.level = "model_checking";
  if (!load_frozen()) {
    fprintf(stderr, "INTERNAL: frozen corpus missing\n");
    return 2;
  }
  build_generators();
  build_large_generators();
  std::map<std::string, int> gen_by_name;
  for (size_t i = 0; i < g_gens.size(); ++i) gen_by_name[g_gens[i].name] = (int)i;
  R.rule =
      "every stream of the frozen corpus (streams written by this repository's encoder for ~1500 geometry x option-set generators: all "
      "methods, speeds, prediction schemes, attribute layouts, seams; plus every testdata/*.drc of bitstream versions 1.1, 1.2, 2.0, 2.1, "
      "2.2, 2.3) is decoded; every generator is re-encoded; for one stream of each (geometry type, method) all 65536 (major,minor) header "
      "rewrites are decoded; non-trivial = distinct frozen streams";
  R.explanation =
      "oracle: frozen ORDERED digest (point order, face order, every value, attribute ids/types) and exact consumption; re-encoded bytes "
      "equal the frozen bytes; versions above the supported maximum give Status::UNKNOWN_VERSION";
  R.assumptions = {"'any later change' is realised as the change present in the working tree when the check runs",
                   "legacy decode paths are covered only by the legacy files that exist (no sample of versions 1.3-1.5)"};
  R.transition_counters = {"decodes", "encodes"};
  {
    mc::Space s;
    s.name = "frozen_decode";
    s.size = g_frozen.size();
    s.run = [](uint64_t idx, mc::Ctx &ctx) {
      const Frozen &z = g_frozen[idx];
      uint64_t dg = 0;
      size_t rem = 0;
      std::string err;
      ctx.count("decodes");
      const std::string ver = "v" + std::to_string(z.bytes[5]) + "." + std::to_string(z.bytes[6]);
      ctx.count("streams_of_bitstream_" + ver);
      if (!digest_of(z.bytes, &dg, &rem, &err)) {
        ctx.fail(std::string("frozen-stream-no-longer-decodes") + (z.is_file ? ":legacy-file" : ""), z.name + ": " + err);
        return;
      }
      if (dg != z.digest) ctx.fail(std::string("frozen-stream-decodes-differently") + (z.is_file ? ":legacy-file" : ""), z.name);
      if (rem != 0) ctx.fail("frozen-stream-not-consumed-exactly", z.name + " " + std::to_string(rem) + " bytes left");
      if (ctx.nontrivial(mc::hash_bytes(z.bytes.data(), z.bytes.size()))) ctx.count("distinct_frozen_streams");
      ctx.state(dg);
    };
    s.describe = [](uint64_t idx) {
      const Frozen &z = g_frozen[idx];
      return z.name + " (" + std::to_string(z.bytes.size()) + " bytes, bitstream " + std::to_string(z.bytes[5]) + "." + std::to_string(z.bytes[6]) + ")";
    };
    R.add(s);
  }
  {
    mc::Space s;
    s.name = "encoder_stability";
    s.size = g_frozen.size();
    s.run = [gen_by_name](uint64_t idx, mc::Ctx &ctx) {
      const Frozen &z = g_frozen[idx];
      if (z.is_file) return;
      auto it = gen_by_name.find(z.name);
      if (it == gen_by_name.end()) {
        ctx.fail("frozen-generator-unknown", z.name);
        return;
      }
      Recorder rec;
      std::vector<std::array<int64_t, 3>> events;
      rec.events = &events;
      EncResult r = encode_gen(g_gens[it->second], &rec);
      ctx.count("encodes");
      for (auto &e : events)
        if (e[0] == draco::verif::EV_SYMBOL_SCHEME)
          ctx.count(std::string(e[1] == 1 ? "raw" : "tagged") + "_symbol_blocks_max_value_bits_" + (e[2] < 10 ? "0" : "") + std::to_string(e[2]));
      if (!r.ok) {
        ctx.fail("frozen-generator-no-longer-encodes", z.name + ": " + r.error);
        return;
      }
      if (r.bytes != z.bytes) {
        // tell a pure format change (still decodes to the same geometry) from a semantic one
        uint64_t dg = 0;
        size_t rem = 0;
        std::string err;
        const bool same_geom = digest_of(r.bytes, &dg, &rem, &err) && dg == z.digest;
        ctx.fail(same_geom ? "encoder-output-bytes-changed-same-geometry" : "encoder-output-changed", z.name);
      }
    };
    s.describe = [](uint64_t idx) { return "re-encode generator " + g_frozen[idx].name; };
    R.add(s);
  }
  {
    // version rewrites on the first frozen stream of each (type, method)
    auto four = std::make_shared<std::vector<int>>();
    std::set<int> seen;
    for (size_t i = 0; i < g_frozen.size(); ++i) {
      if (g_frozen[i].is_file) continue;
      const int key = g_frozen[i].bytes[7] * 16 + g_frozen[i].bytes[8];
      if (seen.insert(key).second) four->push_back((int)i);
    }
    mc::Space s;
    s.name = "version_rewrites";
    s.size = four->size() * 65536;
    s.run = [four](uint64_t idx, mc::Ctx &ctx) {
      const Frozen &z = g_frozen[(*four)[idx / 65536]];
      const int major = (idx % 65536) >> 8, minor = idx & 255;
      Bytes b = z.bytes;
      b[5] = major;
      b[6] = minor;
      const bool mesh = b[7] == TRIANGULAR_MESH;
      const int max_major = 2, max_minor = mesh ? 2 : 3;
      const bool newer = major > max_major || (major == max_major && minor > max_minor);
      DecResult d = decode(b);
      ctx.count("decodes");
      if (newer) {
        ctx.count("newer_version_rewrites");
        if (d.ok) ctx.fail("newer-version-accepted", z.name + " as " + std::to_string(major) + "." + std::to_string(minor));
        else if (d.code != Status::UNKNOWN_VERSION)
          ctx.fail("newer-version-rejected-without-version-error", z.name + " as " + std::to_string(major) + "." + std::to_string(minor) + ": " + d.error);
      } else if (d.ok) {
        ctx.count("older_version_rewrite_still_decodes");
      }
    };
    s.describe = [four](uint64_t idx) {
      return g_frozen[(*four)[idx / 65536]].name + " with header version " + std::to_string((idx % 65536) >> 8) + "." + std::to_string(idx & 255);
    };
    R.add(s);
  }
  R.require("distinct_frozen_streams", 300);
  R.require("newer_version_rewrites", 1000);
  R.require("streams_of_bitstream_v1.1", 1);
  R.require("streams_of_bitstream_v2.0", 1);
  for (int b = 9; b <= 15; ++b) R.require("raw_symbol_blocks_max_value_bits_" + std::string(b < 10 ? "0" : "") + std::to_string(b), 1);
  return R.main();
}
