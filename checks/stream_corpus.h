// Valid-stream corpus shared by the stream-level harnesses (C02 C03 C18 C05 C06):
// generators (geometry x option set), recording of entropy-coder seam values and
// code-path events through the DRACO_VERIF hooks, the testdata/*.drc files.
#ifndef VERIF_CHECKS_STREAM_CORPUS_H_
#define VERIF_CHECKS_STREAM_CORPUS_H_

#include <dirent.h>

#include "checks/geom_spaces.h"
#include "draco/core/verif_hooks.h"
#include "draco/metadata/geometry_metadata.h"

namespace sc {

using namespace mcg;
using gs::Topo;

// ---------------------------------------------------------------- corpus
struct Gen {
  std::string name;
  GeomDef g;
  EncCfg c;
  int metadata = 0;  // 0 none, 1 flat geometry metadata, 2 nested geometry metadata + attribute metadata
};
struct SeamItem {
  int kind;  // 0 rans bit, 1 rans bits32, 2 adaptive bit, 3 symbol
  uint32_t value;
  int aux;  // nbits / num_components
};
struct Entry {
  std::string name;
  Bytes bytes;
  int gen = -1;  // index into g_gens or -1 (file)
  uint64_t evsig = 0;
  std::vector<SeamItem> seam;  // recorded during the valid encode
};
inline std::vector<Gen> g_gens;
inline std::vector<Entry> g_corpus;       // all distinct valid streams
inline std::vector<int> g_sub;            // one entry per event signature (indices into g_corpus)
inline std::vector<int> g_tiny;           // entries <= 64 bytes
inline std::vector<int> g_files;          // testdata .drc entries
inline std::vector<int> g_seamable;       // generator entries with <= 400 seam values

struct Recorder {
  uint64_t evsig = 0;
  std::vector<SeamItem> *items = nullptr;
  std::vector<std::array<int64_t, 3>> *events = nullptr;  // (kind, a, b) in order, when requested
  // deviation
  int64_t target = -1;  // running index of the seam value to replace
  uint32_t replacement = 0;
  int64_t counter = 0;
  bool applied = false;
};

inline uint32_t seam_cb(void *ctx, int kind, uint32_t value, int aux) {
  Recorder *r = static_cast<Recorder *>(ctx);
  if (r->items) r->items->push_back({kind, value, aux});
  uint32_t out = value;
  if (r->counter == r->target) {
    out = r->replacement;
    r->applied = true;
  }
  r->counter++;
  return out;
}
inline void symbols_cb(void *ctx, uint32_t *symbols, int n, int nc) {
  Recorder *r = static_cast<Recorder *>(ctx);
  for (int i = 0; i < n; ++i) {
    if (r->items) r->items->push_back({3, symbols[i], nc});
    if (r->counter == r->target) {
      symbols[i] = r->replacement;
      r->applied = true;
    }
    r->counter++;
  }
}
inline void event_cb(void *ctx, int kind, int64_t a, int64_t b) {
  Recorder *r = static_cast<Recorder *>(ctx);
  if (r->events) r->events->push_back({kind, a, b});
  // order-insensitive set signature
  r->evsig += mc::mix64(mc::hash_combine(mc::hash_combine(kind + 1, (uint64_t)a), (uint64_t)b)) | 1;
}

inline EncResult encode_gen(const Gen &gen, Recorder *rec) {
  std::unique_ptr<Mesh> mesh;
  std::unique_ptr<PointCloud> cloud;
  if (gen.g.is_mesh) mesh = build_mesh(gen.g);
  else cloud = build_cloud(gen.g);
  PointCloud &src = gen.g.is_mesh ? static_cast<PointCloud &>(*mesh) : *cloud;
  if (gen.metadata) {
    std::unique_ptr<GeometryMetadata> md(new GeometryMetadata());
    md->AddEntryString("name", "corpus");
    md->AddEntryInt("i", 42);
    if (gen.metadata == 2) {
      md->AddEntryDouble("d", 2.5);
      md->AddEntryIntArray("arr", {1, 2, 3});
      md->AddEntryBinary("bin", std::vector<uint8_t>(40, 0xab));
      std::unique_ptr<Metadata> sub(new Metadata());
      sub->AddEntryString("", "");
      std::unique_ptr<Metadata> subsub(new Metadata());
      subsub->AddEntryInt("deep", -1);
      sub->AddSubMetadata("deeper", std::move(subsub));
      md->AddSubMetadata("sub", std::move(sub));
      std::unique_ptr<AttributeMetadata> am(new AttributeMetadata());
      am->AddEntryString("semantic", "position");
      src.AddMetadata(std::move(md));
      src.AddAttributeMetadata(0, std::move(am));
    } else {
      src.AddMetadata(std::move(md));
    }
  }
  draco::verif::Hooks &h = draco::verif::hooks();
  h.ctx = rec;
  h.seam = seam_cb;
  h.symbols = symbols_cb;
  h.event = event_cb;
  EncResult r;
  try {
    r = encode(gen.g, src, mesh.get(), gen.c);
  } catch (...) {
    r.ok = false;
  }
  h.seam = nullptr;
  h.symbols = nullptr;
  h.event = nullptr;
  h.ctx = nullptr;
  return r;
}

inline void add_gen(const std::string &name, const GeomDef &g, const EncCfg &c, int metadata = 0) { g_gens.push_back({name, g, c, metadata}); }

inline GeomDef cloud_geom(int n, int poskind, int second) {
  GeomDef g;
  g.is_mesh = false;
  g.num_points = n;
  AttDef pos;
  pos.type = GeometryAttribute::POSITION;
  pos.nc = 3;
  pos.uid = 0;
  pos.dt = poskind == 2 ? DT_INT32 : poskind == 3 ? DT_UINT8 : DT_FLOAT32;
  AttDef col;
  col.type = GeometryAttribute::COLOR;
  col.dt = DT_UINT8;
  col.nc = 4;
  col.uid = 1;
  col.normalized = true;
  for (int i = 0; i < n; ++i) {
    const int x = (i * 7) % 11, y = (i * 3) % 5, z = i % 3;
    if (pos.dt == DT_FLOAT32) pos.entries.push_back(bytes_of(std::vector<float>{x * 0.5f, y * 0.25f - 1, (float)z}));
    else if (pos.dt == DT_INT32) pos.entries.push_back(bytes_of(std::vector<int32_t>{x * 100, -y, z}));
    else pos.entries.push_back(bytes_of(std::vector<uint8_t>{(uint8_t)x, (uint8_t)y, (uint8_t)z}));
    col.entries.push_back(bytes_of(std::vector<uint8_t>{(uint8_t)(i * 40), 255, (uint8_t)(i % 2), 7}));
  }
  g.atts = {pos};
  if (second) g.atts.push_back(col);
  return g;
}

inline void build_generators() {
  auto named = gs::named_families();
  std::vector<std::pair<std::string, Topo>> topos = {{"tri", {{0, 1, 2}}}, {"strip2", {{0, 1, 2}, {2, 1, 3}}}};
  for (auto &n : named) topos.push_back(n);
  const int speeds[3] = {0, 5, 10};
  // A. position-only meshes
  for (auto &t : topos)
    for (int pk : {0, 1, 2})
      for (int mk = 0; mk < 4; ++mk)
        for (int sp : speeds) {
          GeomDef g = gs::s1_mesh(t.second, 0, (gs::PosKind)pk);
          EncCfg c = gs::mesh_cfg(mk, sp);
          c.qbits = {pk == 1 ? 11 : 0};
          add_gen("A:" + t.first + ":pos" + std::to_string(pk) + ":m" + std::to_string(mk) + ":s" + std::to_string(sp), g, c);
        }
  // B. seam meshes
  for (auto &t : topos) {
    if (t.first != "strip2" && t.first != "fan4" && t.first != "tetrahedron" && t.first != "fan3") continue;
    const uint32_t nbits = 3 * t.second.size();
    for (uint32_t bits : {0u, 0x5a5u & ((1u << nbits) - 1), 1u, (1u << nbits) - 2})
      for (int sk = 0; sk < 3; ++sk)
        for (int mk : {0, 2, 3})
          for (int split : {-1, 0})
            for (int sp : speeds) {
              GeomDef g = gs::s2_mesh(t.second, bits, true, gs::POS_F32_Q, (gs::SeamAttKind)sk);
              EncCfg c = gs::mesh_cfg(mk, sp);
              c.split_on_seams = split;
              c.qbits = {11, sk == 0 ? 10 : sk == 1 ? 8 : 0};
              add_gen("B:" + t.first + ":bits" + std::to_string(bits) + ":att" + std::to_string(sk) + ":m" + std::to_string(mk) + ":split" +
                          std::to_string(split) + ":s" + std::to_string(sp),
                      g, c);
            }
  }
  // C. integer attribute with forced prediction schemes / raw storage
  for (auto &t : topos) {
    if (t.first != "strip2" && t.first != "fan4") continue;
    for (int pred : {-100, (int)PREDICTION_NONE, (int)PREDICTION_DIFFERENCE, (int)MESH_PREDICTION_PARALLELOGRAM, (int)MESH_PREDICTION_MULTI_PARALLELOGRAM,
                     (int)MESH_PREDICTION_CONSTRAINED_MULTI_PARALLELOGRAM})
      for (int ent : {1, 0})
        for (int mk : {0, 2}) {
          GeomDef g = gs::s1_mesh(t.second, 0, gs::POS_I32);
          AttDef a;
          a.type = GeometryAttribute::GENERIC;
          a.dt = DT_INT16;
          a.nc = 2;
          a.uid = 4;
          for (int e = 0; e < g.num_points; ++e) a.entries.push_back(bytes_of(std::vector<int16_t>{(int16_t)(e * 300 - 500), (int16_t)(e % 2)}));
          g.atts.push_back(a);
          EncCfg c = gs::mesh_cfg(mk, 3);
          c.builtin_entropy = ent;
          c.qbits = {0, 0};
          c.pred = {pred, pred};
          add_gen("C:" + t.first + ":pred" + std::to_string(pred) + ":ent" + std::to_string(ent) + ":m" + std::to_string(mk), g, c);
        }
  }
  // D. point clouds
  for (int n : {1, 3, 8, 70})
    for (int pk : {0, 1, 2, 3})
      for (int second : {0, 1})
        for (int method : {0, 1})
          for (int sp : speeds) {
            GeomDef g = cloud_geom(n, pk, second);
            EncCfg c;
            c.method = method;
            c.speed_enc = c.speed_dec = sp;
            c.qbits = {pk == 1 ? 10 : 0, 0};
            add_gen("D:n" + std::to_string(n) + ":pos" + std::to_string(pk) + ":col" + std::to_string(second) + ":m" + std::to_string(method) + ":s" +
                        std::to_string(sp),
                    g, c);
          }
  // Z. textured grids with zero-length edges: the two end points of some cell diagonals / cell edges have the SAME position but
  // different texture coordinates (collapsed geometry, or coarse quantization): the position-based tex-coord predictors take
  // their degenerate branches
  for (int variant = 0; variant < 3; ++variant)
    for (int mk : {2, 3})
      for (int sp : {0, 3, 5}) {
        GeomDef g;
        g.is_mesh = true;
        g.num_points = 25;
        for (int y = 0; y < 4; ++y)
          for (int x = 0; x < 4; ++x) {
            const int a = y * 5 + x;
            g.faces.push_back({a, a + 1, a + 6});
            g.faces.push_back({a, a + 6, a + 5});
          }
        AttDef pos, tex;
        pos.type = GeometryAttribute::POSITION; pos.dt = DT_FLOAT32; pos.nc = 3; pos.uid = 0;
        tex.type = GeometryAttribute::TEX_COORD; tex.dt = DT_FLOAT32; tex.nc = 2; tex.uid = 1;
        for (int i = 0; i < 25; ++i) {
          int src = i;
          // variant 0: three diagonals collapsed (vertex a+6 takes the position of a); 1: two horizontal edges; 2: one diagonal, one vertical edge
          if (variant == 0 && (i == 6 || i == 13 || i == 23)) src = i - 6;
          if (variant == 1 && (i == 7 || i == 17)) src = i - 1;
          if (variant == 2 && i == 12) src = 6;
          if (variant == 2 && i == 18) src = 13;
          pos.entries.push_back(bytes_of(std::vector<float>{(float)(src % 5), (float)(src / 5), 0.25f * ((src * src) % 3)}));
          tex.entries.push_back(bytes_of(std::vector<float>{(i % 5) / 4.f, (i / 5) / 4.f}));
        }
        g.atts = {pos, tex};
        EncCfg c = gs::mesh_cfg(mk, sp);
        c.qbits = {11, 10};
        add_gen("Z:grid5x5:collapsed" + std::to_string(variant) + ":m" + std::to_string(mk) + ":s" + std::to_string(sp), g, c);
      }
  // F. two non-position attributes with different seam patterns (Edgebreaker per-attribute connectivity)
  for (auto &t : topos) {
    if (t.first != "closed_fan3" && t.first != "fan4" && t.first != "tetrahedron" && t.first != "two_pillows") continue;
    const uint32_t nbits = 3 * t.second.size(), mask = (1u << nbits) - 1;
    for (auto bb : std::vector<std::pair<uint32_t, uint32_t>>{{0x249u & mask, 0x1c7u & mask}, {0x5a5u & mask, 0x0f0u & mask}, {1u, mask - 1}})
      for (int mk : {2, 3})
        for (int split : {-1, 0})
          for (int sp : {0, 5}) {
            GeomDef g = gs::s2b_mesh(t.second, bb.first, bb.second, gs::POS_F32_Q, gs::SEAM_TEX_Q, gs::SEAM_GENERIC_U8);
            EncCfg c = gs::mesh_cfg(mk, sp);
            c.split_on_seams = split;
            c.qbits = {11, 10, 0};
            add_gen("F:" + t.first + ":bits" + std::to_string(bb.first) + "_" + std::to_string(bb.second) + ":m" + std::to_string(mk) + ":split" +
                        std::to_string(split) + ":s" + std::to_string(sp),
                    g, c);
          }
  }
  // G. raw (not entropy coded) integer storage: a small value block followed by plenty of further data
  for (int n : {1, 2, 5})
    for (int method : {0, 1})
      for (int mesh : {0, 1}) {
        if (mesh && (n < 3 || method == 1)) continue;
        GeomDef g;
        g.is_mesh = mesh != 0;
        g.num_points = n;
        if (mesh) g.faces = {{0, 1, 2}, {2, 1, 3}, {2, 3, 4}};
        AttDef pos, wide, col;
        pos.type = GeometryAttribute::POSITION; pos.dt = DT_INT32; pos.nc = 3; pos.uid = 0;
        wide.type = GeometryAttribute::GENERIC; wide.dt = DT_UINT8; wide.nc = 16; wide.uid = 1;
        col.type = GeometryAttribute::COLOR; col.dt = DT_UINT16; col.nc = 4; col.uid = 2;
        for (int i = 0; i < n; ++i) {
          pos.entries.push_back(bytes_of(std::vector<int32_t>{i * 1000, -i, 70000 * (i % 2)}));
          std::vector<uint8_t> w(16);
          for (int k = 0; k < 16; ++k) w[k] = (uint8_t)(i * 16 + k * 3);
          wide.entries.push_back(w);
          col.entries.push_back(bytes_of(std::vector<uint16_t>{(uint16_t)(i * 300), 65535, 0, (uint16_t)(i + 256)}));
        }
        g.atts = {pos, wide, col};
        EncCfg c;
        c.method = method;
        c.speed_enc = c.speed_dec = 5;
        c.builtin_entropy = false;
        c.qbits = {0, 0, 0};
        add_gen(std::string("G:raw_storage:") + (mesh ? "mesh" : "cloud") + ":n" + std::to_string(n) + ":m" + std::to_string(method), g, c);
      }
  // H. explicit quantization, also with fewer origin dimensions than the attribute has components
  for (int dims : {3, 4})
    for (int method : {0, 1})
      for (int mesh : {0, 1})
        for (int bits : {7, 14}) {
          if (mesh && method == 1) continue;
          GeomDef g;
          g.is_mesh = mesh != 0;
          g.num_points = 4;
          if (mesh) g.faces = {{0, 1, 2}, {2, 1, 3}};
          AttDef pos, gen4;
          pos.type = GeometryAttribute::POSITION; pos.dt = DT_FLOAT32; pos.nc = 3; pos.uid = 0;
          gen4.type = GeometryAttribute::GENERIC; gen4.dt = DT_FLOAT32; gen4.nc = 4; gen4.uid = 1;
          for (int i = 0; i < 4; ++i) {
            pos.entries.push_back(bytes_of(std::vector<float>{i * 0.25f, 1.f - i * 0.125f, 0.5f}));
            gen4.entries.push_back(bytes_of(std::vector<float>{0.1f * i, 0.9f - 0.2f * i, 0.5f, 0.25f * i}));
          }
          g.atts = {pos, gen4};
          EncCfg c;
          c.method = method;
          c.speed_enc = c.speed_dec = 3;
          c.qbits = {bits, bits};
          c.explicit_q[0] = {std::vector<float>{0.f, 0.f, 0.f}, 1.f};
          c.explicit_q[1] = {std::vector<float>(dims, 0.f), 1.f};
          add_gen(std::string("H:explicit_q:") + (mesh ? "mesh" : "cloud") + ":origin_dims" + std::to_string(dims) + ":m" + std::to_string(method) +
                      ":bits" + std::to_string(bits),
                  g, c);
        }
  // H2. explicit quantization with NON-ZERO origins (an origin that is lost on its way through the string-valued options
  // then changes the stream; with the all-zero origins of H it would not)
  for (int method : {0, 1})
    for (int mesh : {0, 1}) {
      if (mesh && method == 1) continue;
      GeomDef g;
      g.is_mesh = mesh != 0;
      g.num_points = 4;
      if (mesh) g.faces = {{0, 1, 2}, {2, 1, 3}};
      AttDef pos, gen4;
      pos.type = GeometryAttribute::POSITION; pos.dt = DT_FLOAT32; pos.nc = 3; pos.uid = 0;
      gen4.type = GeometryAttribute::GENERIC; gen4.dt = DT_FLOAT32; gen4.nc = 4; gen4.uid = 1;
      for (int i = 0; i < 4; ++i) {
        pos.entries.push_back(bytes_of(std::vector<float>{i * 0.25f, 1.f - i * 0.125f, 0.5f}));
        gen4.entries.push_back(bytes_of(std::vector<float>{0.1f * i, 0.9f - 0.2f * i, 0.5f, 0.25f * i}));
      }
      g.atts = {pos, gen4};
      EncCfg c;
      c.method = method;
      c.speed_enc = c.speed_dec = 3;
      c.qbits = {11, 9};
      c.explicit_q[0] = {std::vector<float>{-0.5f, -0.25f, 0.125f}, 2.f};
      c.explicit_q[1] = {std::vector<float>{-1.5f, -0.75f, 0.25f, -0.125f}, 4.f};
      add_gen(std::string("H2:explicit_q_nonzero_origin:") + (mesh ? "mesh" : "cloud") + ":m" + std::to_string(method), g, c);
    }
  // M. geometry + attribute metadata
  for (int md : {1, 2})
    for (int kind = 0; kind < 4; ++kind) {
      // kind: 0 mesh sequential, 1 mesh edgebreaker, 2 cloud sequential, 3 cloud kd-tree
      GeomDef g = kind < 2 ? gs::s1_mesh({{0, 1, 2}, {2, 1, 3}}, 0, gs::POS_F32_Q) : cloud_geom(3, 1, 0);
      EncCfg c = kind < 2 ? gs::mesh_cfg(kind == 0 ? 0 : 2, 5) : EncCfg();
      if (kind >= 2) {
        c.method = kind - 2;
        c.speed_enc = c.speed_dec = 5;
      }
      c.qbits = {10};
      add_gen("M:metadata" + std::to_string(md) + ":kind" + std::to_string(kind), g, c, md);
    }
  // R. highly redundant point clouds: long runs of identical points code to far less than a bit per point
  for (int n : {600, 5000})
    for (int pk : {1, 2})
      for (int method : {0, 1}) {
        GeomDef g;
        g.is_mesh = false;
        g.num_points = n;
        AttDef pos;
        pos.type = GeometryAttribute::POSITION;
        pos.nc = 3;
        pos.uid = 0;
        pos.dt = pk == 2 ? DT_INT32 : DT_FLOAT32;
        for (int i = 0; i < n; ++i) {
          const int run = i / (n / 4);  // four runs of identical points
          if (pk == 2) pos.entries.push_back(bytes_of(std::vector<int32_t>{run * 10, run, -run}));
          else pos.entries.push_back(bytes_of(std::vector<float>{run * 0.25f, 1.f - run * 0.125f, 0.5f * run}));
        }
        g.atts = {pos};
        EncCfg c;
        c.method = method;
        c.speed_enc = c.speed_dec = 5;
        c.qbits = {pk == 1 ? 11 : 0};
        add_gen("R:redundant_cloud:n" + std::to_string(n) + ":pos" + std::to_string(pk) + ":m" + std::to_string(method), g, c);
      }
  // E. a larger strip (16-bit indices, many symbols)
  for (int mk : {0, 1, 2, 3})
    for (int sp : {0, 10}) {
      Topo t;
      for (int i = 0; i + 2 < 300; ++i) t.push_back(i % 2 ? std::array<int, 3>{i + 1, i, i + 2} : std::array<int, 3>{i, i + 1, i + 2});
      GeomDef g;
      g.is_mesh = true;
      g.num_points = 300;
      g.faces = t;
      AttDef pos;
      pos.type = GeometryAttribute::POSITION;
      pos.nc = 3;
      pos.dt = DT_FLOAT32;
      for (int i = 0; i < 300; ++i) pos.entries.push_back(bytes_of(std::vector<float>{(i % 20) * 1.f, (i / 20) * 1.f, (float)((i * 7) % 3)}));
      g.atts = {pos};
      EncCfg c = gs::mesh_cfg(mk, sp);
      c.qbits = {12};
      add_gen("E:strip300:m" + std::to_string(mk) + ":s" + std::to_string(sp), g, c);
    }
}

// Larger generators, used by the frozen corpus (C05) only: sequentially coded
// integer point clouds with N distinct values per component, N = 2^k + 1, so
// that every raw-scheme symbol-count class (and with it every rANS precision
// 12..20) occurs in a frozen stream. Too large for byte-level fault enumeration.
inline GeomDef strip_mesh_for_corpus(int n, bool int_pos) {
  GeomDef g;
  g.is_mesh = true;
  g.num_points = n;
  AttDef pos;
  pos.type = GeometryAttribute::POSITION;
  pos.nc = 3;
  pos.uid = 0;
  pos.dt = int_pos ? DT_INT32 : DT_FLOAT32;
  for (int i = 0; i < n; ++i) {
    const int x = i % 64, y = i / 64, z = (i * 7) % 5;
    if (int_pos) pos.entries.push_back(bytes_of(std::vector<int32_t>{x, y, z}));
    else pos.entries.push_back(bytes_of(std::vector<float>{x * 0.5f, y * 0.25f, (float)z}));
  }
  g.atts = {pos};
  for (int i = 0; i + 2 < n; ++i) {
    if (i % 2 == 0) g.faces.push_back({i, i + 1, i + 2});
    else g.faces.push_back({i + 1, i, i + 2});
  }
  return g;
}

inline void build_large_generators() {
  // T. one stream per side of every size threshold of the format / the encoder's choices: 256 and 65536 points (index
  // width of the sequential coder), 1000 faces (Edgebreaker sub-method), 40 points (prediction scheme)
  for (int n : {39, 40, 41, 255, 256, 257, 1001, 1002, 1003, 65535, 65536, 65537})
    for (int mk : {0, 1, 4}) {
      if (n > 60000 && mk != 0) continue;  // the large ones only with raw sequential indices
      for (int sp : {0, 5}) {
        if (n > 60000 && sp != 5) continue;
        GeomDef g = strip_mesh_for_corpus(n, n > 60000);
        EncCfg c = gs::mesh_cfg(mk, sp);
        c.qbits = {n > 60000 ? 0 : 12};
        add_gen("T:strip" + std::to_string(n) + ":m" + std::to_string(mk) + ":s" + std::to_string(sp), g, c);
      }
    }
  for (int k = 2; k <= 14; ++k)
    for (int sp : {0, 5, 7}) {
      const int n = 3 * (1 << k) / 4 + 1;  // number of distinct symbols, inside the class [2^(k-1), 2^k)
      const int reps = 8;                  // every symbol occurs 8 times, which makes the raw scheme the cheaper one
      GeomDef g;
      g.is_mesh = false;
      g.num_points = n * reps;
      AttDef pos;
      pos.type = GeometryAttribute::POSITION;
      pos.nc = 3;
      pos.uid = 0;
      pos.dt = DT_INT32;
      // no prediction (forced below): the coded symbols are the zig-zagged values themselves
      for (int i = 0; i < n * reps; ++i) pos.entries.push_back(bytes_of(std::vector<int32_t>{(int32_t)(((int64_t)i * 7) % n), 0, 0}));
      g.atts = {pos};
      EncCfg c;
      c.method = POINT_CLOUD_SEQUENTIAL_ENCODING;
      c.speed_enc = c.speed_dec = sp;
      c.qbits = {0};
      c.pred = {(int)PREDICTION_NONE};
      add_gen("L:cloud_seq_i32:distinct" + std::to_string(n) + "x8:s" + std::to_string(sp), g, c);
    }
}

inline void build_corpus() {
  build_generators();
  std::map<uint64_t, int> by_bytes;
  for (size_t gi = 0; gi < g_gens.size(); ++gi) {
    Recorder rec;
    std::vector<SeamItem> items;
    rec.items = &items;
    EncResult r = encode_gen(g_gens[gi], &rec);
    if (!r.ok || !r.pred_status.empty()) continue;
    const uint64_t h = mc::hash_bytes(r.bytes.data(), r.bytes.size());
    if (by_bytes.count(h)) continue;
    by_bytes[h] = (int)g_corpus.size();
    Entry e;
    e.name = g_gens[gi].name;
    e.bytes = r.bytes;
    e.gen = (int)gi;
    e.evsig = mc::hash_combine(rec.evsig, (uint64_t)r.bytes[7] * 16 + r.bytes[8] + 4096 * (uint64_t)g_gens[gi].metadata);
    e.seam = items;
    g_corpus.push_back(e);
  }
  // legacy / shipped streams
  const char *repo = getenv("VERIF_REPO");
  std::string dir = std::string(repo ? repo : "/repo") + "/testdata";
  std::vector<std::string> files;
  if (DIR *d = opendir(dir.c_str())) {
    while (dirent *de = readdir(d)) {
      std::string n = de->d_name;
      if (n.size() > 4 && n.substr(n.size() - 4) == ".drc") files.push_back(n);
    }
    closedir(d);
  }
  std::sort(files.begin(), files.end());
  for (auto &n : files) {
    std::ifstream f(dir + "/" + n, std::ios::binary);
    Bytes b((std::istreambuf_iterator<char>(f)), std::istreambuf_iterator<char>());
    if (b.size() < 10) continue;
    Entry e;
    e.name = "file:" + n;
    e.bytes = b;
    e.evsig = mc::hash_str(n);
    g_files.push_back((int)g_corpus.size());
    g_corpus.push_back(e);
  }
  // hand-assembled streams (corpus/handmade/README.md): layouts this tree's encoder cannot write (legacy framing with
  // attributes in unusual order, predictor inputs at the edge of 64-bit arithmetic); valid or not, they are carriers like the files
  {
    const char *home = getenv("VERIF_HOME");
    const std::string hdir = std::string(home ? home : "/verif") + "/corpus/handmade";
    std::vector<std::string> hf;
    if (DIR *d = opendir(hdir.c_str())) {
      while (dirent *de = readdir(d)) {
        std::string n = de->d_name;
        if (n.size() > 4 && n.substr(n.size() - 4) == ".drc") hf.push_back(n);
      }
      closedir(d);
    }
    std::sort(hf.begin(), hf.end());
    for (auto &n : hf) {
      std::ifstream f(hdir + "/" + n, std::ios::binary);
      Bytes b((std::istreambuf_iterator<char>(f)), std::istreambuf_iterator<char>());
      if (b.size() < 10) continue;
      Entry e;
      e.name = "hand:" + n;
      e.bytes = b;
      e.evsig = mc::hash_str(n);
      g_files.push_back((int)g_corpus.size());
      g_corpus.push_back(e);
    }
  }
  // sub-corpus: smallest stream per event signature
  std::map<uint64_t, int> best;
  for (size_t i = 0; i < g_corpus.size(); ++i) {
    if (g_corpus[i].gen < 0) continue;
    auto it = best.find(g_corpus[i].evsig);
    if (it == best.end() || g_corpus[i].bytes.size() < g_corpus[it->second].bytes.size()) best[g_corpus[i].evsig] = (int)i;
  }
  for (auto &kv : best) g_sub.push_back(kv.second);
  std::sort(g_sub.begin(), g_sub.end());
  for (size_t i = 0; i < g_corpus.size(); ++i) {
    if (g_corpus[i].gen >= 0 && g_corpus[i].bytes.size() <= 64) g_tiny.push_back((int)i);
    if (g_corpus[i].gen >= 0 && !g_corpus[i].seam.empty() && g_corpus[i].seam.size() <= 400) g_seamable.push_back((int)i);
  }
}

}  // namespace sc

#endif  // VERIF_CHECKS_STREAM_CORPUS_H_
