// Allocation cap for harnesses (include in exactly one translation unit).
//
// Replaces the global operator new / operator delete family with malloc/free
// based versions that throw std::bad_alloc for any single request above
// kAllocCapBytes (256 MiB). "Allocate max_value entries" thereby becomes a
// visible, cheap outcome instead of gigabytes of cleared memory. Under ASan
// malloc/free are still intercepted, so heap redzones and use-after-free
// detection keep working; every variant is replaced so that new/delete pairs
// stay consistent (no alloc-dealloc-mismatch).
#ifndef VERIF_CHECKS_C17C08_ALLOC_CAP_H_
#define VERIF_CHECKS_C17C08_ALLOC_CAP_H_

#include <cstddef>
#include <cstdint>
#include <cstdlib>
#include <new>

namespace alloc_cap {
static const size_t kAllocCapBytes = size_t(256) << 20;
// Per process (workers are forked, single threaded).
static uint64_t g_refused = 0;        // number of refused requests
static uint64_t g_last_refused = 0;   // size of the last refused request
static uint64_t g_max_request = 0;    // largest single request seen (granted or not)
inline void reset() {
  g_refused = 0;
  g_last_refused = 0;
  g_max_request = 0;
}
inline void *get(size_t n) {
  if (n > g_max_request) g_max_request = n;
  if (n > kAllocCapBytes) {
    g_refused++;
    g_last_refused = n;
    throw std::bad_alloc();
  }
  void *p = malloc(n ? n : 1);
  if (!p) throw std::bad_alloc();
  return p;
}
inline void *get_aligned(size_t n, size_t al) {
  if (n > g_max_request) g_max_request = n;
  if (n > kAllocCapBytes) {
    g_refused++;
    g_last_refused = n;
    throw std::bad_alloc();
  }
  void *p = nullptr;
  if (al < sizeof(void *)) al = sizeof(void *);
  if (posix_memalign(&p, al, n ? n : 1) != 0 || !p) throw std::bad_alloc();
  return p;
}
}  // namespace alloc_cap

void *operator new(size_t n) { return alloc_cap::get(n); }
void *operator new[](size_t n) { return alloc_cap::get(n); }
void *operator new(size_t n, const std::nothrow_t &) noexcept {
  try {
    return alloc_cap::get(n);
  } catch (...) {
    return nullptr;
  }
}
void *operator new[](size_t n, const std::nothrow_t &) noexcept {
  try {
    return alloc_cap::get(n);
  } catch (...) {
    return nullptr;
  }
}
void *operator new(size_t n, std::align_val_t al) { return alloc_cap::get_aligned(n, size_t(al)); }
void *operator new[](size_t n, std::align_val_t al) { return alloc_cap::get_aligned(n, size_t(al)); }
void *operator new(size_t n, std::align_val_t al, const std::nothrow_t &) noexcept {
  try {
    return alloc_cap::get_aligned(n, size_t(al));
  } catch (...) {
    return nullptr;
  }
}
void *operator new[](size_t n, std::align_val_t al, const std::nothrow_t &) noexcept {
  try {
    return alloc_cap::get_aligned(n, size_t(al));
  } catch (...) {
    return nullptr;
  }
}
void operator delete(void *p) noexcept { free(p); }
void operator delete[](void *p) noexcept { free(p); }
void operator delete(void *p, size_t) noexcept { free(p); }
void operator delete[](void *p, size_t) noexcept { free(p); }
void operator delete(void *p, const std::nothrow_t &) noexcept { free(p); }
void operator delete[](void *p, const std::nothrow_t &) noexcept { free(p); }
void operator delete(void *p, std::align_val_t) noexcept { free(p); }
void operator delete[](void *p, std::align_val_t) noexcept { free(p); }
void operator delete(void *p, size_t, std::align_val_t) noexcept { free(p); }
void operator delete[](void *p, size_t, std::align_val_t) noexcept { free(p); }
void operator delete(void *p, std::align_val_t, const std::nothrow_t &) noexcept { free(p); }
void operator delete[](void *p, std::align_val_t, const std::nothrow_t &) noexcept { free(p); }

#endif  // VERIF_CHECKS_C17C08_ALLOC_CAP_H_
