// C10: skipping the attribute transform exposes data that reproduces the normal
// decode. For every stream of the bounded spaces and EVERY subset of attribute
// types to skip: the skipped attributes keep their unique id, carry integer
// data plus a transform description, applying the described transform gives
// bit-identical values to the ordinary decode, and everything else (other
// attributes, faces, point maps) is unaffected.
#include <dirent.h>

#include "checks/roundtrip_oracle.h"
#include "mc/alloc_env.h"

using namespace mcg;
using gs::Topo;

namespace {

const GeometryAttribute::Type kTypes[5] = {GeometryAttribute::POSITION, GeometryAttribute::NORMAL, GeometryAttribute::COLOR,
                                           GeometryAttribute::TEX_COORD, GeometryAttribute::GENERIC};

std::string att_values(const PointAttribute &a, uint32_t num_points) {
  // per point, the mapped value bytes
  const size_t n = (size_t)DataTypeLength(a.data_type()) * a.num_components();
  std::string s(n * num_points, '\0');
  for (PointIndex p(0); p < num_points; ++p) a.GetMappedValue(p, &s[p.value() * n]);
  return s;
}
std::string att_map(const PointAttribute &a, uint32_t num_points) {
  std::string s;
  for (PointIndex p(0); p < num_points; ++p) {
    const uint32_t v = a.mapped_index(p).value();
    s.append(reinterpret_cast<const char *>(&v), 4);
  }
  return s;
}

void check_stream(const Bytes &stream_bytes, mc::Ctx &ctx, const std::string &klass, const std::string &ctxt_in);

void check_case(const GeomDef &g, const EncCfg &cfg, mc::Ctx &ctx, const std::string &klass) {
  std::unique_ptr<Mesh> mesh;
  std::unique_ptr<PointCloud> cloud;
  if (g.is_mesh) mesh = build_mesh(g);
  else cloud = build_cloud(g);
  const PointCloud &src = g.is_mesh ? *mesh : *cloud;
  EncResult enc = encode(g, src, mesh.get(), cfg);
  ctx.count("encode_calls");
  if (!enc.ok || !enc.pred_status.empty()) {
    ctx.count("encode_reported_failure");
    return;
  }
  check_stream(enc.bytes, ctx, klass, text(g) + " " + text(cfg));
}

void check_stream(const Bytes &stream_bytes, mc::Ctx &ctx, const std::string &klass, const std::string &ctxt_in) {
  auto sig = [&](const std::string &s) { return klass.empty() ? s : s + "|" + klass; };
  struct { const Bytes &bytes; } enc{stream_bytes};
  DecResult normal = decode(enc.bytes);
  if (!normal.ok) {
    ctx.count("normal_decode_failed_(C01_matter)");
    return;
  }
  ctx.state(mc::hash_bytes(enc.bytes.data(), enc.bytes.size()));
  const uint32_t np = normal.pc->num_points();
  const std::string ctxt = ctxt_in;
  // which types are present
  int present = 0;
  for (int i = 0; i < normal.pc->num_attributes(); ++i)
    for (int t = 0; t < 5; ++t)
      if (normal.pc->attribute(i)->attribute_type() == kTypes[t]) present |= 1 << t;
  for (int mask = 1; mask < 32; ++mask) {
    if ((mask & present) != mask) continue;  // subsets of the types that occur
    std::vector<GeometryAttribute::Type> skip;
    for (int t = 0; t < 5; ++t)
      if (mask & (1 << t)) skip.push_back(kTypes[t]);
    DecResult sk = decode(enc.bytes, skip);
    ctx.count("skip_decodes");
    const std::string m = " skip-mask=" + std::to_string(mask) + " :: " + ctxt;
    if (!sk.ok) {
      ctx.fail(sig("skip-decode-failed"), sk.error + m);
      continue;
    }
    if (sk.pc->num_points() != np || sk.pc->num_attributes() != normal.pc->num_attributes() || (sk.mesh != nullptr) != (normal.mesh != nullptr)) {
      ctx.fail(sig("skip-decode-changes-geometry-shape"), m);
      continue;
    }
    if (sk.mesh) {
      bool same = sk.mesh->num_faces() == normal.mesh->num_faces();
      for (FaceIndex f(0); same && f < sk.mesh->num_faces(); ++f)
        for (int k = 0; k < 3; ++k) same = same && sk.mesh->face(f)[k] == normal.mesh->face(f)[k];
      if (!same) {
        ctx.fail(sig("skip-decode-changes-connectivity"), m);
        continue;
      }
    }
    for (int i = 0; i < normal.pc->num_attributes(); ++i) {
      const PointAttribute *na = normal.pc->attribute(i);
      const PointAttribute *sa = sk.pc->attribute(i);
      int tbit = -1;
      for (int t = 0; t < 5; ++t)
        if (na->attribute_type() == kTypes[t]) tbit = t;
      const bool skipped = tbit >= 0 && (mask & (1 << tbit));
      const AttributeTransformData *td = sa->GetAttributeTransformData();
      const bool has_transform = td && td->transform_type() != ATTRIBUTE_INVALID_TRANSFORM;
      const std::string an = " attribute#" + std::to_string(i) + "(uid " + std::to_string(na->unique_id()) + ")" + m;
      if (sa->attribute_type() != na->attribute_type()) {
        ctx.fail(sig("skip-decode-changes-attribute-type"), an);
        continue;
      }
      if (sa->unique_id() != na->unique_id()) {
        ctx.fail(sig(std::string("skipped-attribute-loses-unique-id") + (enc.bytes[7] == 0 && enc.bytes[8] == 1 ? ":kd-tree" : "")),
                 "got " + std::to_string(sa->unique_id()) + an);
        continue;
      }
      if (att_map(*sa, np) != att_map(*na, np) && sa->is_mapping_identity() != na->is_mapping_identity()) {
        // the point -> value relation must be the same (compared through values below); identity flag differences alone are harmless
      }
      if (!skipped || !has_transform) {
        if (skipped && IsDataTypeIntegral(na->data_type()) && IsDataTypeIntegral(sa->data_type()) && sa->data_type() != na->data_type()) {
          // An integer attribute of a skipped type has no transform to describe; the decoder hands out its portable
          // (32-bit) integer values. The property does not fix the storage width for this case: compare numerically.
          ctx.count("skipped_integer_attribute_returned_in_portable_width");
          bool same = sa->num_components() == na->num_components();
          for (PointIndex p(0); same && p < np; ++p) {
            int64_t a[16] = {0}, b[16] = {0};
            same = na->ConvertValue<int64_t>(na->mapped_index(p), na->num_components(), a) &&
                   sa->ConvertValue<int64_t>(sa->mapped_index(p), sa->num_components(), b);
            for (int c = 0; same && c < na->num_components(); ++c) same = a[c] == b[c];
          }
          if (!same) ctx.fail(sig("untransformed-skipped-integer-attribute-values-differ"), an);
          continue;
        }
        if (skipped) ctx.count("skipped_attribute_without_transform");
        // unaffected: bit-identical descriptor and values
        if (sa->data_type() != na->data_type() || sa->num_components() != na->num_components() || att_values(*sa, np) != att_values(*na, np))
          ctx.fail(sig(skipped ? "untransformed-skipped-attribute-differs" : "non-skipped-attribute-affected"), an);
        continue;
      }
      // skipped and carrying a transform description
      ctx.count("skipped_attributes_with_transform");
      if (!IsDataTypeIntegral(sa->data_type())) {
        ctx.fail(sig("skipped-attribute-not-integer"), an);
        continue;
      }
      const int nc = na->num_components();
      std::string want = att_values(*na, np), got(want.size(), '\0');
      if (td->transform_type() == ATTRIBUTE_QUANTIZATION_TRANSFORM) {
        AttributeQuantizationTransform t;
        if (!t.InitFromAttribute(*sa) || sa->num_components() != nc) {
          ctx.fail(sig("transform-description-unreadable"), an);
          continue;
        }
        const int32_t max_q = (1u << t.quantization_bits()) - 1;
        const float delta = t.range() / static_cast<float>(max_q);
        for (PointIndex p(0); p < np; ++p) {
          int32_t q[16] = {0};
          sa->GetMappedValue(p, q);
          for (int c = 0; c < nc; ++c) {
            float v = static_cast<float>(q[c]) * delta;
            v = v + t.min_value(c);
            memcpy(&got[(p.value() * nc + c) * 4], &v, 4);
          }
        }
        ctx.count("quantization_transforms_applied");
      } else if (td->transform_type() == ATTRIBUTE_OCTAHEDRON_TRANSFORM) {
        AttributeOctahedronTransform t;
        if (!t.InitFromAttribute(*sa) || sa->num_components() != 2 || nc != 3) {
          ctx.fail(sig("transform-description-unreadable"), an);
          continue;
        }
        OctahedronToolBox tb;
        tb.SetQuantizationBits(t.quantization_bits());
        for (PointIndex p(0); p < np; ++p) {
          int32_t st[2];
          sa->GetMappedValue(p, st);
          float v[3];
          tb.QuantizedOctahedralCoordsToUnitVector(st[0], st[1], v);
          memcpy(&got[p.value() * 12], v, 12);
        }
        ctx.count("octahedron_transforms_applied");
      } else {
        ctx.fail(sig("unknown-transform-type"), an);
        continue;
      }
      if (got != want) ctx.fail(sig("described-transform-does-not-reproduce-normal-decode"), an);
      else ctx.nontrivial_unique();
    }
  }
}

struct S2Topos {
  std::vector<Topo> topos;
  std::vector<uint64_t> offset;
  uint64_t total = 0;
  void add(const Topo &t) {
    topos.push_back(t);
    offset.push_back(total);
    total += 1ull << (3 * t.size());
  }
  void locate(uint64_t k, int *ti, uint32_t *bits) const {
    int lo = 0, hi = (int)topos.size() - 1;
    while (lo < hi) {
      int mid = (lo + hi + 1) / 2;
      if (offset[mid] <= k) lo = mid;
      else hi = mid - 1;
    }
    *ti = lo;
    *bits = (uint32_t)(k - offset[lo]);
  }
};
S2Topos g_f1, g_f2;

void add_mesh_space(mc::Runner &R, const std::string &name, const S2Topos *T, std::vector<int> speeds, bool quick, bool thorough) {
  // (topology, seam bits) x seam attribute kind {tex q10, normal q8, generic u8} x method {seq, eb std, eb valence} x split x speed
  mc::Radix rx{(uint64_t)speeds.size(), 3, 3, 3, T->total};
  auto make = [=](uint64_t idx, GeomDef *g, EncCfg *c) {
    auto d = rx.decode(idx);
    int ti;
    uint32_t bits;
    T->locate(d[4], &ti, &bits);
    const gs::SeamAttKind sk = (gs::SeamAttKind)d[3];
    *g = gs::s2_mesh(T->topos[ti], bits, true, gs::POS_F32_Q, sk);
    static const int mk[3] = {0, 2, 3};
    *c = gs::mesh_cfg(mk[d[2]], speeds[d[0]]);
    c->split_on_seams = (int)d[1] - 1;
    c->qbits = {11, sk == gs::SEAM_TEX_Q ? 10 : sk == gs::SEAM_NORMAL_Q ? 8 : 0};
  };
  mc::Space s;
  s.name = name;
  s.size = rx.size();
  s.quick = quick;
  s.thorough = thorough;
  s.run = [=](uint64_t idx, mc::Ctx &ctx) {
    GeomDef g;
    EncCfg c;
    make(idx, &g, &c);
    check_case(g, c, ctx, "");
  };
  s.describe = [=](uint64_t idx) {
    GeomDef g;
    EncCfg c;
    make(idx, &g, &c);
    return text(g) + " " + text(c) + " x every subset of the attribute types present";
  };
  R.add(s);
}

// point clouds: N points from a 3-value alphabet, quantized float / integer positions, second attribute
void add_cloud_space(mc::Runner &R, const std::string &name, int max_n, std::vector<int> speeds, bool quick, bool thorough) {
  std::vector<uint64_t> off;
  uint64_t total = 0;
  for (int n = 1; n <= max_n; ++n) {
    off.push_back(total);
    uint64_t p = 1;
    for (int i = 0; i < n; ++i) p *= 3;
    total += p;
  }
  // pos kind {f32 q11, f32 q3, i32, f32 unquantized} x second {none, generic f32x1 q8, normal f32x3 q6, color u8x4, tex f32x2 q12} x method {seq, kd, auto}
  mc::Radix rx{(uint64_t)speeds.size(), 3, 5, 4, total};
  auto make = [=](uint64_t idx, GeomDef *g, EncCfg *c) {
    auto d = rx.decode(idx);
    int n = max_n;
    while (off[n - 1] > d[4]) --n;
    uint64_t asg = d[4] - off[n - 1];
    g->is_mesh = false;
    g->num_points = n;
    AttDef pos;
    pos.type = GeometryAttribute::POSITION;
    pos.nc = 3;
    pos.uid = 11;
    pos.dt = d[3] == 2 ? DT_INT32 : DT_FLOAT32;
    AttDef b;
    b.uid = 5;
    const int second = (int)d[2];
    switch (second) {
      case 1: b.type = GeometryAttribute::GENERIC; b.dt = DT_FLOAT32; b.nc = 1; break;
      case 2: b.type = GeometryAttribute::NORMAL; b.dt = DT_FLOAT32; b.nc = 3; break;
      case 3: b.type = GeometryAttribute::COLOR; b.dt = DT_UINT8; b.nc = 4; break;
      case 4: b.type = GeometryAttribute::TEX_COORD; b.dt = DT_FLOAT32; b.nc = 2; break;
      default: break;
    }
    static const float V[3][3] = {{0, 0, 0}, {1, 2, 3}, {-4, 0.5f, 100}};
    for (int p = 0; p < n; ++p) {
      const int sel = asg % 3;
      asg /= 3;
      if (pos.dt == DT_FLOAT32) pos.entries.push_back(bytes_of(std::vector<float>{V[sel][0], V[sel][1], V[sel][2]}));
      else pos.entries.push_back(bytes_of(std::vector<int32_t>{(int32_t)(V[sel][0] * 10), (int32_t)(V[sel][1] * 10), (int32_t)V[sel][2]}));
      const int w = (sel + p) % 3;
      switch (second) {
        case 1: b.entries.push_back(bytes_of(std::vector<float>{w * 0.37f - 0.2f})); break;
        case 2: {
          const float N[3][3] = {{0, 0, 1}, {0.6f, 0.8f, 0}, {-0.57735f, 0.57735f, -0.57735f}};
          b.entries.push_back(bytes_of(std::vector<float>{N[w][0], N[w][1], N[w][2]}));
          break;
        }
        case 3: b.entries.push_back(bytes_of(std::vector<uint8_t>{(uint8_t)(w * 100), 255, 0, (uint8_t)(p * 60)})); break;
        case 4: b.entries.push_back(bytes_of(std::vector<float>{w * 0.5f, 1.f - w * 0.25f})); break;
        default: break;
      }
    }
    g->atts = {pos};
    if (second) g->atts.push_back(b);
    c->method = d[1] == 2 ? -1 : (int)d[1];
    c->speed_enc = c->speed_dec = speeds[d[0]];
    c->qbits = {d[3] == 0 ? 11 : d[3] == 1 ? 3 : 0};
    if (second) c->qbits.push_back(second == 1 ? 8 : second == 2 ? 6 : second == 4 ? 12 : 0);
  };
  mc::Space s;
  s.name = name;
  s.size = rx.size();
  s.quick = quick;
  s.thorough = thorough;
  s.run = [=](uint64_t idx, mc::Ctx &ctx) {
    GeomDef g;
    EncCfg c;
    make(idx, &g, &c);
    check_case(g, c, ctx, "");
  };
  s.describe = [=](uint64_t idx) {
    GeomDef g;
    EncCfg c;
    make(idx, &g, &c);
    return text(g) + " " + text(c) + " x every subset of the attribute types present";
  };
  R.add(s);
}

// every testdata/*.drc (bitstream versions 1.1 .. 2.3): the legacy decode paths carry their own skip-transform code
struct FileEntry {
  std::string name;
  Bytes bytes;
};
std::vector<FileEntry> g_files;
void load_files() {
  const char *repo = getenv("VERIF_REPO");
  const std::string dir = std::string(repo ? repo : "/repo") + "/testdata";
  std::vector<std::string> names;
  if (DIR *d = opendir(dir.c_str())) {
    while (dirent *de = readdir(d)) {
      std::string n = de->d_name;
      if (n.size() > 4 && n.substr(n.size() - 4) == ".drc") names.push_back(n);
    }
    closedir(d);
  }
  std::sort(names.begin(), names.end());
  for (auto &n : names) {
    std::ifstream f(dir + "/" + n, std::ios::binary);
    Bytes b((std::istreambuf_iterator<char>(f)), std::istreambuf_iterator<char>());
    if (b.size() >= 10) g_files.push_back({n, b});
  }
  // hand-assembled streams (corpus/handmade/README.md)
  const char *home = getenv("VERIF_HOME");
  const std::string hdir = std::string(home ? home : "/verif") + "/corpus/handmade";
  std::vector<std::string> hn;
  if (DIR *d = opendir(hdir.c_str())) {
    while (dirent *de = readdir(d)) {
      std::string n = de->d_name;
      if (n.size() > 4 && n.substr(n.size() - 4) == ".drc") hn.push_back(n);
    }
    closedir(d);
  }
  std::sort(hn.begin(), hn.end());
  for (auto &n : hn) {
    std::ifstream f(hdir + "/" + n, std::ios::binary);
    Bytes b((std::istreambuf_iterator<char>(f)), std::istreambuf_iterator<char>());
    if (b.size() >= 10) g_files.push_back({"hand:" + n, b});
  }
}
void add_file_space(mc::Runner &R, const std::string &name) {
  mc::Space s;
  s.name = name;
  s.size = g_files.size();
  s.timeout_s = 120;
  s.run = [](uint64_t idx, mc::Ctx &ctx) {
    const FileEntry &f = g_files[idx];
    ctx.count("legacy_or_shipped_files");
    ctx.count("files_of_bitstream_v" + std::to_string(f.bytes[5]) + "." + std::to_string(f.bytes[6]));
    check_stream(f.bytes, ctx, f.bytes[5] < 2 ? (f.name.compare(0, 5, "hand:") == 0 ? "bitstream<2.0,hand-assembled" : "bitstream<2.0") : "", "file " + f.name);
  };
  s.describe = [](uint64_t idx) { return (g_files[idx].name.compare(0, 5, "hand:") == 0 ? "" : "testdata/") + g_files[idx].name + " x every subset of the attribute types present"; };
  R.add(s);
}

}  // namespace

int main(int argc, char **argv) {
  mc::Runner R(argc, argv, "C10");
  load_files();
  R.level = "model_checking";
  const bool asan = R.flag("asan");
  for (auto &t : gs::canonical_topologies(1, 5)) g_f1.add(t);
  for (auto &t : gs::canonical_topologies(2, 5)) g_f2.add(t);
  R.rule =
      "streams = every seam pattern (two-value per-corner attribute) on all triangle lists with F<=2 (up to relabelling) with quantized "
      "positions and a quantized tex-coord / quantized normal / integer second attribute x {sequential, Edgebreaker standard, valence} x "
      "split-on-seams x speed, and all point clouds with N<=4 points from a 3-value alphabet x 4 position kinds x 5 second attributes x "
      "{sequential, kd-tree, automatic} x speeds, plus every testdata/*.drc (bitstream 1.1..2.3); for each stream EVERY non-empty subset of the attribute types present is skipped; "
      "non-trivial = (stream, subset, attribute) triples where a described transform was applied and compared";
  R.explanation =
      "oracle: own implementation of the described transform (dequantization / octahedral decode) applied to the integer values of the "
      "skip-decode must equal the ordinary decode bit for bit, per point; unique ids kept; all other attributes, faces and point maps "
      "identical to the ordinary decode";
  R.assumptions = {"octahedral unit-vector reconstruction uses draco's OctahedronToolBox (its numeric quality is C07's subject)"};
  R.transition_counters = {"encode_calls", "skip_decodes"};
  if (!asan) {
    add_mesh_space(R, "mesh_F1", &g_f1, {0, 3, 6, 10}, true, true);
    add_mesh_space(R, "mesh_F2_speeds_0_6", &g_f2, {0, 6}, true, false);
    add_mesh_space(R, "mesh_F2", &g_f2, {0, 3, 6, 10}, false, true);
    add_cloud_space(R, "cloud_N3", 3, {0, 4, 10}, true, false);
    add_cloud_space(R, "cloud_N4", 4, {0, 1, 2, 3, 4, 5, 6, 7, 8, 9, 10}, false, true);
  } else {
    add_file_space(R, "asan_testdata_files");
    add_mesh_space(R, "asan_mesh_F1", &g_f1, {0, 6}, true, true);
    add_mesh_space(R, "asan_mesh_F2", &g_f2, {0, 6}, false, true);
    add_cloud_space(R, "asan_cloud_N2", 2, {0, 4, 10}, true, false);
    add_cloud_space(R, "asan_cloud_N3", 3, {0, 2, 4, 6, 8, 10}, false, true);
  }
  R.require("quantization_transforms_applied", 100);
  R.require("octahedron_transforms_applied", 100);
  return R.main();
}
