// C13: the corner table built from any triangle list is a consistent manifold
// structure. Exhaustive over all lists of F <= 4 triangles over ids {0..4}.
#include <array>
#include <set>

#include "draco/mesh/corner_table.h"
#include "mc/runner.h"

using namespace draco;

namespace {

const int kIds = 5;

struct Faces {
  int n;
  int v[6][3];
};

// idx -> F faces, each face one of ids^3 triples (digit = a*ids*ids+b*ids+c).
Faces decode(uint64_t idx, int F, int ids) {
  Faces f;
  f.n = F;
  const int per = ids * ids * ids;
  for (int i = 0; i < F; ++i) {
    int d = idx % per;
    idx /= per;
    f.v[i][0] = d / (ids * ids);
    f.v[i][1] = (d / ids) % ids;
    f.v[i][2] = d % ids;
  }
  return f;
}

std::string show(const Faces &f) {
  std::string s = "faces:";
  for (int i = 0; i < f.n; ++i) {
    char b[32];
    snprintf(b, sizeof b, " (%d,%d,%d)", f.v[i][0], f.v[i][1], f.v[i][2]);
    s += b;
  }
  return s;
}

void check(const Faces &f, mc::Ctx &ctx) {
  IndexTypeVector<FaceIndex, CornerTable::FaceType> faces;
  int max_id = -1;
  for (int i = 0; i < f.n; ++i) {
    CornerTable::FaceType ft;
    for (int k = 0; k < 3; ++k) {
      ft[k] = VertexIndex(f.v[i][k]);
      max_id = std::max(max_id, f.v[i][k]);
    }
    faces.push_back(ft);
  }
  std::unique_ptr<CornerTable> ct = CornerTable::Create(faces);
  ctx.count("creates");
  if (!ct) {
    ctx.fail("create-returned-null", show(f));
    return;
  }
  const int nc = ct->num_corners();
  if (nc != 3 * f.n || ct->num_faces() != f.n) {
    ctx.fail("wrong-face-count", show(f));
    return;
  }
  auto in_id = [&](int c) { return f.v[c / 3][c % 3]; };
  auto degenerate = [&](int face) {
    return f.v[face][0] == f.v[face][1] || f.v[face][1] == f.v[face][2] ||
           f.v[face][0] == f.v[face][2];
  };
  int ndeg = 0;
  for (int i = 0; i < f.n; ++i) ndeg += degenerate(i);
  const int nv = ct->num_vertices();
  if (nv < max_id + 1) {
    ctx.fail("num-vertices-too-small", show(f));
    return;
  }
  int pairs = 0;
  // (1) opposite: symmetric pairing across a shared, oppositely oriented edge.
  for (int ci = 0; ci < nc; ++ci) {
    const CornerIndex c(ci);
    const CornerIndex o = ct->Opposite(c);
    if (o == kInvalidCornerIndex) continue;
    if (o.value() >= (uint32_t)nc) {
      ctx.fail("opposite-out-of-range", show(f));
      return;
    }
    pairs++;
    if (ct->Opposite(o) != c) {
      ctx.fail("opposite-not-symmetric", show(f) + " corner " + std::to_string(ci));
      return;
    }
    if (o == c || ct->Face(o) == ct->Face(c)) {
      ctx.fail("opposite-same-face", show(f) + " corner " + std::to_string(ci));
      return;
    }
    // shared edge, oppositely oriented: in table ids and in input ids
    if (ct->Vertex(ct->Next(c)) != ct->Vertex(ct->Previous(o)) ||
        ct->Vertex(ct->Previous(c)) != ct->Vertex(ct->Next(o))) {
      ctx.fail("opposite-edge-mismatch-table-ids", show(f) + " corner " + std::to_string(ci));
      return;
    }
    if (in_id(ct->Next(c).value()) != in_id(ct->Previous(o).value()) ||
        in_id(ct->Previous(c).value()) != in_id(ct->Next(o).value())) {
      ctx.fail("opposite-edge-mismatch-input-ids", show(f) + " corner " + std::to_string(ci));
      return;
    }
    // (4) degenerate faces are unlinked
    if (degenerate(ci / 3) || degenerate(o.value() / 3)) {
      ctx.fail("degenerate-face-linked", show(f) + " corner " + std::to_string(ci));
      return;
    }
  }
  // (4) counters
  for (int i = 0; i < f.n; ++i) {
    if (ct->IsDegenerated(FaceIndex(i)) != degenerate(i)) {
      ctx.fail("isdegenerated-wrong", show(f));
      return;
    }
  }
  if (ct->NumDegeneratedFaces() != ndeg) {
    ctx.fail("num-degenerated-faces-wrong", show(f) + " reported " + std::to_string(ct->NumDegeneratedFaces()));
    return;
  }
  // (3) vertex-parent closure gives the input id.
  for (int ci = 0; ci < nc; ++ci) {
    if (degenerate(ci / 3)) continue;
    VertexIndex v = ct->Vertex(CornerIndex(ci));
    if (v.value() >= (uint32_t)nv) {
      ctx.fail("vertex-out-of-range", show(f));
      return;
    }
    int guard = 0;
    while ((int)v.value() >= ct->NumOriginalVertices() && guard++ < 64) v = ct->VertexParent(v);
    if (ct->VertexParent(v) != v || (int)v.value() != in_id(ci)) {
      ctx.fail("vertex-parent-closure-wrong", show(f) + " corner " + std::to_string(ci));
      return;
    }
  }
  // (2) one fan per vertex reachable from its representative corner.
  std::vector<int> used(nv, 0);
  for (int v = 0; v < nv; ++v) {
    std::set<int> expect;
    for (int ci = 0; ci < nc; ++ci)
      if (!degenerate(ci / 3) && (int)ct->Vertex(CornerIndex(ci)).value() == v) expect.insert(ci);
    const CornerIndex lm = ct->LeftMostCorner(VertexIndex(v));
    if (lm == kInvalidCornerIndex) {
      if (!expect.empty()) {
        ctx.fail("vertex-without-representative", show(f) + " vertex " + std::to_string(v));
        return;
      }
      continue;
    }
    used[v] = 1;
    if (lm.value() >= (uint32_t)nc) {
      ctx.fail("leftmost-out-of-range", show(f));
      return;
    }
    std::set<int> got;
    CornerIndex c = lm;
    bool closed = false;
    int steps = 0;
    while (c != kInvalidCornerIndex && steps++ <= nc) {
      if (!got.insert(c.value()).second) break;
      c = ct->SwingRight(c);
      if (c == lm) {
        closed = true;
        break;
      }
    }
    if (got != expect) {
      ctx.fail("fan-not-equal-to-vertex-corners", show(f) + " vertex " + std::to_string(v));
      return;
    }
    const bool has_left = ct->SwingLeft(lm) != kInvalidCornerIndex;
    if (has_left != closed) {
      ctx.fail("leftmost-corner-not-leftmost", show(f) + " vertex " + std::to_string(v));
      return;
    }
    if (ct->IsOnBoundary(VertexIndex(v)) == closed) {
      ctx.fail("is-on-boundary-wrong", show(f) + " vertex " + std::to_string(v));
      return;
    }
    if (ct->Valence(VertexIndex(v)) != (int)expect.size() + (closed ? 0 : 1)) {
      ctx.fail("valence-wrong", show(f) + " vertex " + std::to_string(v));
      return;
    }
  }
  // isolated vertices: original ids not used by any non-degenerate face
  {
    int isolated = 0;
    for (int v = 0; v <= max_id; ++v) {
      bool u = false;
      for (int ci = 0; ci < nc; ++ci)
        if (!degenerate(ci / 3) && in_id(ci) == v) u = true;
      if (!u) isolated++;
    }
    if (ct->NumIsolatedVertices() != isolated) {
      ctx.fail("num-isolated-vertices-wrong", show(f) + " reported " + std::to_string(ct->NumIsolatedVertices()));
      return;
    }
    if (ct->NumOriginalVertices() != max_id + 1) {
      ctx.fail("num-original-vertices-wrong", show(f));
      return;
    }
  }
  // state hash of the produced structure
  // state = the connectivity structure: opposite table + which corners were
  // moved to a split-off vertex + which faces are degenerate
  uint64_t h = f.n;
  for (int ci = 0; ci < nc; ++ci) {
    h = mc::hash_combine(h, ct->Opposite(CornerIndex(ci)).value());
    const uint32_t v = ct->Vertex(CornerIndex(ci)).value();
    h = mc::hash_combine(h, (int)v >= ct->NumOriginalVertices() ? v - ct->NumOriginalVertices() + 1 : 0);
    h = mc::hash_combine(h, degenerate(ci / 3));
  }
  ctx.state(h);
  // inputs are distinct by construction (one list per index)
  if (pairs > 0 || ct->NumNewVertices() > 0) ctx.nontrivial_unique();
  if (pairs) ctx.count("cases_with_opposite_pairs");
  if (ct->NumNewVertices() > 0) ctx.count("cases_with_split_nonmanifold_vertex");
  if (ndeg) ctx.count("cases_with_degenerate_face");
}

void add_space(mc::Runner &R, const std::string &name, int F, int ids, bool quick, bool thorough, int chunk_faces,
               uint64_t stride = 1) {
  // chunk_faces: number of leading faces enumerated inside one case (keeps
  // the per-case bookkeeping negligible for the 2.4e8 space).
  const uint64_t per = (uint64_t)ids * ids * ids;
  uint64_t inner = 1;
  for (int i = 0; i < chunk_faces; ++i) inner *= per;
  uint64_t total = 1;
  for (int i = 0; i < F; ++i) total *= per;
  mc::Space sp;
  sp.name = name;
  sp.size = total / inner / stride;
  sp.quick = quick;
  sp.thorough = thorough;
  sp.cases_per_index = inner;
  sp.run = [=](uint64_t idx, mc::Ctx &ctx) {
    for (uint64_t k = 0; k < inner; ++k) check(decode(idx * stride * inner + k, F, ids), ctx);
  };
  sp.describe = [=](uint64_t idx) {
    std::string s = "all " + std::to_string(inner) + " lists starting at " + show(decode(idx * stride * inner, F, ids));
    return inner == 1 ? show(decode(idx * stride, F, ids)) : s;
  };
  R.add(sp);
}

}  // namespace

int main(int argc, char **argv) {
  mc::Runner R(argc, argv, "C13");
  R.level = "model_checking";
  const bool slice = R.flag("asan-slice");
  R.distinct_bits = 24;
  R.rule =
      "every list of F<=4 triangles over vertex ids {0..4} (all 125^F lists, face order and corner rotation kept), and beyond the "
      "property's bound every list of 5 triangles over 3 ids (quick) / 5 over 4 ids and 6 over 3 ids (thorough), is "
      "passed to CornerTable::Create; states = distinct resulting connectivity structures (opposite table, split-vertex "
      "pattern, degenerate-face pattern); non-trivial = input lists (distinct by construction) that produce at least "
      "one opposite pairing or a split non-manifold vertex";
  R.explanation =
      "stateless exhaustive enumeration of the input space on the real CornerTable implementation; oracle = four "
      "structural invariants + counters recomputed directly from the input";
  R.assumptions = {"F <= 4 faces over 5 ids is the bound named by the property itself",
                   "DRACO_DCHECK is compiled out (as in every shipped configuration)"};
  R.transition_counters = {"creates"};
  if (!slice) {
    add_space(R, "F1", 1, kIds, true, true, 0);
    add_space(R, "F2", 2, kIds, true, true, 0);
    add_space(R, "F3", 3, kIds, true, true, 1);
    // the whole bound named by the property (2.44e8 lists) is cheap enough for the quick tier as well
    add_space(R, "F4", 4, kIds, true, true, 1);
    // beyond the property's own bound: more faces over fewer ids (edges with many incident faces, repeated faces)
    add_space(R, "F5_ids3", 5, 3, true, true, 2);
    add_space(R, "F6_ids3", 6, 3, false, true, 3);
    add_space(R, "F5_ids4", 5, 4, false, true, 2);
  } else {
    // Same enumeration under ASan+UBSan: full F<=2, F3 (quick: every 16th
    // chunk; thorough: all), thorough also F4 over 4 ids.
    add_space(R, "asan_F1", 1, kIds, true, true, 0);
    add_space(R, "asan_F2", 2, kIds, true, true, 0);
    add_space(R, "asan_F3_every16th_chunk", 3, kIds, true, false, 1, 16);
    add_space(R, "asan_F3", 3, kIds, false, true, 1);
    add_space(R, "asan_F4_ids4", 4, 4, false, true, 1);
  }
  R.require("cases_with_opposite_pairs", 1);
  R.require("cases_with_split_nonmanifold_vertex", 1);
  return R.main();
}
