// C16: prediction-correction transforms are exactly invertible for any
// prediction (unit level: the transform classes themselves).
//
//  * PredictionSchemeWrap{Encoding,Decoding}Transform<int32_t>
//  * PredictionSchemeNormalOctahedronCanonicalized{Encoding,Decoding}Transform
//  * PredictionSchemeNormalOctahedron{Encoding,Decoding}Transform (legacy)
//
// The decoder-side transform always receives its parameters through
// EncodeTransformData -> EncoderBuffer -> DecoderBuffer -> DecodeTransformData,
// exactly like in a real stream.
//
// An end-to-end part (through the attribute encoders) is a separate part of
// the registry entry and is not in this file.
#include <array>
#include <climits>
#include <memory>

#include "draco/compression/attributes/prediction_schemes/prediction_scheme_normal_octahedron_canonicalized_decoding_transform.h"
#include "draco/compression/attributes/prediction_schemes/prediction_scheme_normal_octahedron_canonicalized_encoding_transform.h"
#include "draco/compression/attributes/prediction_schemes/prediction_scheme_normal_octahedron_decoding_transform.h"
#include "draco/compression/attributes/prediction_schemes/prediction_scheme_normal_octahedron_encoding_transform.h"
#include "draco/compression/attributes/prediction_schemes/prediction_scheme_wrap_decoding_transform.h"
#include "draco/compression/attributes/prediction_schemes/prediction_scheme_wrap_encoding_transform.h"
#include "draco/core/decoder_buffer.h"
#include "draco/core/encoder_buffer.h"
#include "mc/runner.h"

using namespace draco;

namespace {

// ===================================================================== wrap

typedef PredictionSchemeWrapEncodingTransform<int32_t, int32_t> WrapEnc;
typedef PredictionSchemeWrapDecodingTransform<int32_t, int32_t> WrapDec;

struct WrapCase {
  int32_t min, max;
  int nc;
  int32_t orig[3], pred[3];
};

// Input class of a range: can clamp(pred) + correction leave int32?
std::string wrap_class(int32_t mn, int32_t mx) {
  const int64_t n = int64_t(mx) - int64_t(mn) + 1;
  const int64_t half = n / 2;
  if (int64_t(mn) - half < INT32_MIN || int64_t(mx) + half > INT32_MAX) return "range-near-int32-limit";
  if (n <= 13) return "small-range";
  return "wide-range";
}

std::string show(const WrapCase &c) {
  char b[256];
  std::string s;
  snprintf(b, sizeof b, "wrap range [%d, %d] components=%d", c.min, c.max, c.nc);
  s = b;
  for (int k = 0; k < c.nc; ++k) {
    snprintf(b, sizeof b, " (orig=%d pred=%d)", c.orig[k], c.pred[k]);
    s += b;
  }
  return s;
}

void push_unique(std::vector<int32_t> &v, int64_t x) {
  if (x < INT32_MIN || x > INT32_MAX) return;
  for (int32_t y : v)
    if (y == x) return;
  v.push_back(int32_t(x));
}

const int64_t kSpecialPred[7] = {INT32_MIN, int64_t(INT32_MIN) + 1, -1, 0, 1, int64_t(INT32_MAX) - 1, INT32_MAX};

// All (orig,pred) tuples of one range, then one case per tuple and component
// count: the tuple sits in component 0, components 1 and 2 carry other tuples
// of the same list, so every tuple is also seen in every component position.
void add_range_cases(std::vector<WrapCase> &out, int32_t mn, int32_t mx, const std::vector<int32_t> &origs,
                     const std::vector<int32_t> &preds) {
  std::vector<std::pair<int32_t, int32_t>> tuples;
  for (int32_t o : origs)
    for (int32_t p : preds) tuples.emplace_back(o, p);
  const size_t n = tuples.size();
  for (int nc = 1; nc <= 3; ++nc)
    for (size_t i = 0; i < n; ++i) {
      WrapCase c;
      c.min = mn;
      c.max = mx;
      c.nc = nc;
      for (int k = 0; k < 3; ++k) {
        const auto &t = tuples[(i + size_t(k) * 37) % n];
        c.orig[k] = t.first;
        c.pred[k] = t.second;
      }
      out.push_back(c);
    }
}

std::vector<WrapCase> small_cases() {
  std::vector<WrapCase> out;
  for (int mn = -6; mn <= 6; ++mn)
    for (int mx = mn; mx <= 6; ++mx) {
      std::vector<int32_t> origs, preds;
      for (int o = mn; o <= mx; ++o) origs.push_back(o);
      for (int p = mn - 3; p <= mx + 3; ++p) preds.push_back(p);
      for (int64_t s : kSpecialPred) push_unique(preds, s);
      add_range_cases(out, mn, mx, origs, preds);
    }
  return out;
}

std::vector<WrapCase> boundary_cases() {
  std::vector<WrapCase> out;
  const int64_t mins[6] = {INT32_MIN, int64_t(INT32_MIN) + 1, -(int64_t(1) << 30), -1, 0, 1};
  const int64_t difs[7] = {0, 1, 2, (int64_t(1) << 30) - 1, (int64_t(1) << 30) + 1, (int64_t(1) << 31) - 3,
                           (int64_t(1) << 31) - 2};
  for (int64_t mn : mins)
    for (int64_t dif : difs) {
      const int64_t mx = mn + dif;
      if (mx > INT32_MAX) continue;
      const int64_t mid = mn + dif / 2;
      std::vector<int32_t> origs, preds;
      const int64_t cand[9] = {mn, mn + 1, mn + 2, mid - 1, mid, mid + 1, mx - 2, mx - 1, mx};
      for (int64_t c : cand)
        if (c >= mn && c <= mx) push_unique(origs, c);
      preds = origs;
      for (int d = 1; d <= 3; ++d) {
        push_unique(preds, mn - d);
        push_unique(preds, mx + d);
      }
      for (int64_t s : kSpecialPred) push_unique(preds, s);
      add_range_cases(out, int32_t(mn), int32_t(mx), origs, preds);
    }
  return out;
}

void run_wrap(const WrapCase &c, mc::Ctx &ctx) {
  const std::string klass = wrap_class(c.min, c.max);
  // The encoder derives [min,max] from the data it is going to encode.
  std::vector<int32_t> data = {c.min, c.max};
  for (int k = 0; k < c.nc; ++k) data.push_back(c.orig[k]);
  while (data.size() % c.nc) data.push_back(c.min);
  WrapEnc enc;
  enc.Init(data.data(), int(data.size()), c.nc);
  ctx.count("wrap:encoder_init");
  // Reference model of the encoder-side bounds.
  const int64_t n = int64_t(c.max) - int64_t(c.min) + 1;
  if (n - 1 >= INT32_MAX) return;  // outside the property (max-min < 2^31-1); never generated
  if (enc.min_value() != c.min || enc.max_value() != c.max) {
    ctx.fail("wrap-encoder-range-not-data-range|" + klass, show(c));
    return;
  }
  const int64_t ref_min_corr = -(n / 2);
  const int64_t ref_max_corr = n / 2 - ((n & 1) ? 0 : 1);

  EncoderBuffer eb;
  if (!enc.EncodeTransformData(&eb)) {
    ctx.fail("wrap-encode-transform-data-failed|" + klass, show(c));
    return;
  }
  DecoderBuffer db;
  db.Init(eb.data(), eb.size());
  db.set_bitstream_version(kDracoMeshBitstreamVersion);
  WrapDec dec;
  dec.Init(c.nc);
  if (!dec.DecodeTransformData(&db)) {
    ctx.fail("wrap-decoder-rejects-encoder-range|" + klass, show(c));
    return;
  }
  int32_t corr[3] = {0, 0, 0}, out[3] = {0, 0, 0};
  enc.ComputeCorrection(c.orig, c.pred, corr);
  dec.ComputeOriginalValue(c.pred, corr, out);
  ctx.count("roundtrips");
  uint64_t h = mc::hash_str(klass);
  bool nontrivial = false;
  for (int k = 0; k < c.nc; ++k) {
    // path classification from the reference model
    int clamp = 0, wrap = 0;
    int64_t p = c.pred[k];
    if (p > c.max) { p = c.max; clamp = 1; }
    if (p < c.min) { p = c.min; clamp = 2; }
    const int64_t raw = int64_t(c.orig[k]) - p;
    if (raw < ref_min_corr) wrap = 1;
    if (raw > ref_max_corr) wrap = 2;
    if (clamp == 1) ctx.count("wrap:pred_clamped_to_max");
    if (clamp == 2) ctx.count("wrap:pred_clamped_to_min");
    if (wrap == 1) ctx.count("wrap:correction_wrapped_up");
    if (wrap == 2) ctx.count("wrap:correction_wrapped_down");
    if (clamp || wrap) nontrivial = true;
    h = mc::hash_combine(h, clamp * 3 + wrap);
    const std::string comp = " component " + std::to_string(k);
    if (corr[k] < enc.min_correction() || corr[k] > enc.max_correction()) {
      ctx.fail("wrap-correction-outside-announced-interval|" + klass,
               show(c) + comp + " correction " + std::to_string(corr[k]) + " announced [" +
                   std::to_string(enc.min_correction()) + "," + std::to_string(enc.max_correction()) + "]");
    }
    if (corr[k] < ref_min_corr || corr[k] > ref_max_corr) {
      ctx.fail("wrap-correction-outside-modulo-interval|" + klass,
               show(c) + comp + " correction " + std::to_string(corr[k]) + " but a residue modulo max-min+1=" +
                   std::to_string(n) + " fits [" + std::to_string(ref_min_corr) + "," + std::to_string(ref_max_corr) +
                   "]");
    }
    if (out[k] != c.orig[k]) {
      ctx.fail("wrap-roundtrip|" + klass, show(c) + comp + " correction " + std::to_string(corr[k]) + " decoded " +
                                              std::to_string(out[k]) + " expected " + std::to_string(c.orig[k]));
    }
  }
  h = mc::hash_combine(h, c.nc);
  ctx.state(h);
  if (nontrivial) ctx.nontrivial_unique();
  ctx.count("wrap:cases:" + klass);
}

void add_wrap_space(mc::Runner &R, const std::string &name, std::shared_ptr<std::vector<WrapCase>> cases) {
  mc::Space sp;
  sp.name = name;
  sp.size = cases->size();
  sp.run = [cases](uint64_t idx, mc::Ctx &ctx) { run_wrap((*cases)[idx], ctx); };
  sp.describe = [cases](uint64_t idx) { return show((*cases)[idx]); };
  sp.klass = [cases](uint64_t idx) { return "wrap|" + wrap_class((*cases)[idx].min, (*cases)[idx].max); };
  R.add(sp);
}

// =============================================================== octahedral

struct Pt {
  int32_t s, t;
};
typedef std::shared_ptr<std::vector<Pt>> PtList;

// Reference definition of "canonical": the unique representative of a
// direction. Points of the square's border are identified in pairs (mirror
// image about the middle of each side), the four corners are one direction;
// representatives are the halves closer to (max,max) and that corner.
bool canonical(int q, int32_t s, int32_t t) {
  const int32_t mx = (1 << q) - 2, c = mx / 2;
  if ((s == 0 && t == 0) || (s == 0 && t == mx) || (s == mx && t == 0)) return false;
  if (s == 0 && t > c) return false;
  if (s == mx && t < c) return false;
  if (t == mx && s < c) return false;
  if (t == 0 && s > c) return false;
  return true;
}

std::string pt_class(int q, Pt p) {
  const int32_t mx = (1 << q) - 2, c = mx / 2;
  const int32_t x = p.s - c, y = p.t - c;
  const int32_t a = std::abs(x) + std::abs(y);
  if (x == 0 && y == 0) return "centre";
  if (p.s == 0 || p.t == 0 || p.s == mx || p.t == mx) return a == c ? "diamond-tip" : "square-border";
  if (a == c) return "diamond-edge";
  if (x == 0 || y == 0) return "axis";
  return a < c ? "inside-diamond" : "outside-diamond";
}

PtList all_canonical(int q) {
  auto v = std::make_shared<std::vector<Pt>>();
  const int32_t mx = (1 << q) - 2;
  for (int32_t s = 0; s <= mx; ++s)
    for (int32_t t = 0; t <= mx; ++t)
      if (canonical(q, s, t)) v->push_back({s, t});
  return v;
}

bool in_band(int q, int32_t s, int32_t t, int w) {
  const int32_t mx = (1 << q) - 2, c = mx / 2;
  if (s <= w || t <= w || s >= mx - w || t >= mx - w) return true;
  if (std::abs(s - c) <= w || std::abs(t - c) <= w) return true;
  if (std::abs(std::abs(s - c) + std::abs(t - c) - c) <= w) return true;
  return false;
}

// Every canonical point within |w| cells of the square's border, of the two
// axes through the centre, or of the diamond |s-c|+|t-c| = c.
PtList band_literal(int q, int w) {
  auto v = std::make_shared<std::vector<Pt>>();
  const int32_t mx = (1 << q) - 2;
  for (int32_t s = 0; s <= mx; ++s)
    for (int32_t t = 0; t <= mx; ++t)
      if (in_band(q, s, t, w) && canonical(q, s, t)) v->push_back({s, t});
  return v;
}

// The same bands sampled where they meet each other: coordinate values within
// 2 of {0, c/2, c, c+c/2, max} and of the 16 lattice lines k*max/16; all
// points with both coordinates from that set, plus for every such s the
// points within 2 cells of the diamond edge above and below it.
PtList band_sampled(int q) {
  const int32_t mx = (1 << q) - 2, c = mx / 2;
  std::vector<int32_t> V;
  auto addv = [&](int64_t x) {
    if (x < 0 || x > mx) return;
    for (int32_t y : V)
      if (y == x) return;
    V.push_back(int32_t(x));
  };
  for (int d = -2; d <= 2; ++d) {
    addv(0 + d);
    addv(c / 2 + d);
    addv(c + d);
    addv(c + c / 2 + d);
    addv(int64_t(mx) + d);
  }
  for (int k = 0; k <= 16; ++k) addv(int64_t(mx) * k / 16);
  std::sort(V.begin(), V.end());
  std::set<std::pair<int32_t, int32_t>> pts;
  for (int32_t s : V)
    for (int32_t t : V) pts.insert({s, t});
  for (int32_t s : V)
    for (int d = -2; d <= 2; ++d) {
      const int64_t e = c - std::abs(s - c);
      for (int64_t t : {int64_t(c) + e + d, int64_t(c) - e + d})
        if (t >= 0 && t <= mx) {
          pts.insert({s, int32_t(t)});
          pts.insert({int32_t(t), s});
        }
    }
  auto v = std::make_shared<std::vector<Pt>>();
  for (auto &p : pts)
    if (canonical(q, p.first, p.second)) v->push_back({p.first, p.second});
  return v;
}

template <class Enc, class Dec>
struct OctPair {
  Enc enc;
  Dec dec;
  bool ok = false;
  explicit OctPair(int q) : enc((1 << q) - 1) {
    EncoderBuffer eb;
    if (!enc.EncodeTransformData(&eb)) return;
    DecoderBuffer db;
    db.Init(eb.data(), eb.size());
    db.set_bitstream_version(kDracoMeshBitstreamVersion);
    dec.Init(2);
    ok = dec.DecodeTransformData(&db);
  }
};

std::string show_pt(int q, Pt p) {
  const int32_t c = ((1 << q) - 2) / 2;
  char b[96];
  snprintf(b, sizeof b, "(%d,%d)[centred %d,%d]", p.s, p.t, p.s - c, p.t - c);
  return b;
}

// One index = one original point against every prediction of the list.
template <class Enc, class Dec>
void run_oct(const char *kind, int q, const std::vector<Pt> &pts, uint64_t idx, mc::Ctx &ctx) {
  OctPair<Enc, Dec> T(q);
  if (!T.ok) {
    ctx.fail(std::string(kind) + "-decoder-rejects-encoder-transform-data", "q=" + std::to_string(q));
    return;
  }
  if (T.dec.quantization_bits() != q || T.enc.quantization_bits() != q) {
    ctx.fail(std::string(kind) + "-quantization-bits-not-transported", "q=" + std::to_string(q));
    return;
  }
  const int32_t maxq = (1 << q) - 1;  // corrections are residues modulo 2^q-1: [0, 2^q-1)
  const int32_t mx = maxq - 1, c = mx / 2;
  const Pt o = pts[idx];
  const int32_t ov[2] = {o.s, o.t};
  uint64_t n_out = 0, n_quadrant[4] = {0, 0, 0, 0}, n_nonzero_corr = 0, n_fail = 0;
  for (const Pt &p : pts) {
    const int32_t pv[2] = {p.s, p.t};
    int32_t corr[2] = {-1, -1}, out[2] = {-1, -1};
    T.enc.ComputeCorrection(ov, pv, corr);
    T.dec.ComputeOriginalValue(pv, corr, out);
    const int32_t x = p.s - c, y = p.t - c;
    if (std::abs(x) + std::abs(y) > c) n_out++;
    n_quadrant[(x > 0 ? 1 : 0) + (y > 0 ? 2 : 0)]++;
    if (corr[0] | corr[1]) n_nonzero_corr++;
    const bool bad_corr = corr[0] < 0 || corr[0] >= maxq || corr[1] < 0 || corr[1] >= maxq;
    const bool bad_rt = out[0] != o.s || out[1] != o.t;
    if ((bad_corr || bad_rt) && n_fail < 64) {
      n_fail++;
      char b[256];
      snprintf(b, sizeof b, " correction (%d,%d) decoded (%d,%d)", corr[0], corr[1], out[0], out[1]);
      const std::string detail = std::string(kind) + " q=" + std::to_string(q) + " orig " + show_pt(q, o) + " pred " +
                                 show_pt(q, p) + b;
      const std::string cls = "|pred-" + pt_class(q, p) + "|orig-" + pt_class(q, o);
      if (bad_corr) ctx.fail(std::string(kind) + "-correction-outside-[0,2^q-1)" + cls, detail);
      if (bad_rt) ctx.fail(std::string(kind) + "-roundtrip" + cls, detail);
    }
  }
  const std::string k = std::string(kind) + ":";
  ctx.count("roundtrips", pts.size());
  ctx.count(k + "pairs", pts.size());
  ctx.count(k + "pred_outside_diamond", n_out);
  ctx.count(k + "pred_quadrant_--", n_quadrant[0]);
  ctx.count(k + "pred_quadrant_+-", n_quadrant[1]);
  ctx.count(k + "pred_quadrant_-+", n_quadrant[2]);
  ctx.count(k + "pred_quadrant_++", n_quadrant[3]);
  ctx.count(k + "nonzero_correction", n_nonzero_corr);
  // every (q, orig, pred) is a different input; non-trivial = pred != orig
  // (so the correction is not (0,0)) -- counted in bulk
  ctx.sh->distinct_n[1].fetch_add(n_nonzero_corr, std::memory_order_relaxed);
  ctx.state(mc::hash_combine(mc::hash_str(kind), mc::hash_combine(q, mc::hash_str(pt_class(q, o)))));
}

template <class Enc, class Dec>
void add_oct_space(mc::Runner &R, const std::string &name, const char *kind, int q, PtList pts, bool quick,
                   bool thorough) {
  mc::Space sp;
  sp.name = name;
  sp.size = pts->size();
  sp.cases_per_index = pts->size();
  sp.quick = quick;
  sp.thorough = thorough;
  sp.timeout_s = 60;
  sp.run = [=](uint64_t idx, mc::Ctx &ctx) { run_oct<Enc, Dec>(kind, q, *pts, idx, ctx); };
  sp.describe = [=](uint64_t idx) {
    return std::string(kind) + " q=" + std::to_string(q) + " orig " + show_pt(q, (*pts)[idx]) + " against each of the " +
           std::to_string(pts->size()) + " predictions of space " + name;
  };
  sp.klass = [=](uint64_t idx) { return std::string(kind) + "|orig-" + pt_class(q, (*pts)[idx]); };
  R.add(sp);
}

// The domain of the octahedral part is "the unique representative of a
// direction that the encoder emits": every integer vector with abs sum c, sent
// through IntegerVectorToQuantizedOctahedralCoords (the last step of both the
// normal attribute transform and the geometric-normal predictor), must land on
// a canonical point that un-maps (harness's own integer un-mapping) to the same
// vector. One x per index.
void add_emit_space(mc::Runner &R, const std::string &name, int q) {
  const int32_t mx = (1 << q) - 2, c = mx / 2;
  mc::Space sp;
  sp.name = name;
  sp.size = 2 * c + 1;
  sp.cases_per_index = 2 * uint64_t(c) + 1;  // average over x (4c^2+2 vectors in total)
  sp.run = [=](uint64_t idx, mc::Ctx &ctx) {
    OctahedronToolBox tb;
    if (!tb.SetQuantizationBits(q)) {
      ctx.fail("toolbox-rejects-quantization-bits", "q=" + std::to_string(q));
      return;
    }
    const int32_t x = int32_t(idx) - c, r = c - std::abs(x);
    uint64_t n = 0, border = 0;
    int fails = 0;
    for (int32_t y = -r; y <= r; ++y) {
      const int32_t zr = r - std::abs(y);
      for (int sg = 0; sg < (zr ? 2 : 1); ++sg) {
        const int32_t iv[3] = {x, y, sg ? -zr : zr};
        int32_t s = INT32_MIN, t = INT32_MIN;
        tb.IntegerVectorToQuantizedOctahedralCoords(iv, &s, &t);
        n++;
        char b[160];
        snprintf(b, sizeof b, "q=%d integer vector (%d,%d,%d) -> coords (%d,%d)", q, iv[0], iv[1], iv[2], s, t);
        if (s < 0 || t < 0 || s > mx || t > mx) {
          if (fails++ < 16) ctx.fail("emitted-coordinates-outside-[0,2^q-2]", b);
          continue;
        }
        if (s == 0 || t == 0 || s == mx || t == mx) border++;
        if (!canonical(q, s, t)) {
          if (fails++ < 16) ctx.fail("emitted-coordinates-not-canonical|" + pt_class(q, {s, t}), b);
          continue;
        }
        const int32_t u = s - c, v = t - c;
        int32_t bx = c - std::abs(u) - std::abs(v), by = u, bz = v;
        if (bx < 0) {
          by = (u >= 0 ? 1 : -1) * (c - std::abs(v));
          bz = (v >= 0 ? 1 : -1) * (c - std::abs(u));
        }
        if (bx != iv[0] || by != iv[1] || bz != iv[2]) {
          if (fails++ < 16) ctx.fail("emitted-coordinates-denote-another-direction|" + pt_class(q, {s, t}), b);
        }
      }
    }
    ctx.count("emit:integer_vectors", n);
    ctx.count("emit:on_square_border", border);
    ctx.count("roundtrips", n);
  };
  sp.describe = [=](uint64_t idx) {
    return "q=" + std::to_string(q) + ": every integer vector (" + std::to_string(int32_t(idx) - c) +
           ", y, z) with |x|+|y|+|z| = " + std::to_string(c) + " through IntegerVectorToQuantizedOctahedralCoords";
  };
  sp.klass = [=](uint64_t) { return "emit|q=" + std::to_string(q); };
  R.add(sp);
}

typedef PredictionSchemeNormalOctahedronCanonicalizedEncodingTransform<int32_t> CanonEnc;
typedef PredictionSchemeNormalOctahedronCanonicalizedDecodingTransform<int32_t> CanonDec;
typedef PredictionSchemeNormalOctahedronEncodingTransform<int32_t> PlainEnc;
typedef PredictionSchemeNormalOctahedronDecodingTransform<int32_t> PlainDec;

std::string q2(int q) {
  char b[8];
  snprintf(b, sizeof b, "%02d", q);
  return b;
}

}  // namespace

int main(int argc, char **argv) {
  mc::Runner R(argc, argv, "C16");
  R.level = "model_checking";
  const bool asan = R.flag("asan");
  R.rule =
      "unit level, every tuple of the listed finite spaces executed on the real transform classes (decoder parameters "
      "shipped through EncodeTransformData/DecodeTransformData). Wrap: every min<=max in [-6,6], every orig in the "
      "range, pred in [min-3,max+3] + {INT32_MIN,INT32_MIN+1,-1,0,1,INT32_MAX-1,INT32_MAX}; boundary ranges min in "
      "{INT32_MIN,INT32_MIN+1,-2^30,-1,0,1} x (max-min) in {0,1,2,2^30-1,2^30+1,2^31-3,2^31-2}, orig from {min..min+2, "
      "mid-1..mid+1, max-2..max}, pred from those + {min-3..min-1,max+1..max+3} + the 7 extreme values; 1..3 components. "
      "Octahedral: every ordered pair of canonical coordinates, canonicalized transform q<=7 (quick) / q<=9 (thorough), "
      "legacy transform q<=6; q=9,10 (thorough also 11): every pair of canonical points within 2 cells of the "
      "square border, the axes or the diamond; q=9..30: every pair of points where those bands meet (coordinates within 2 of "
      "0,c/2,c,3c/2,max and a 16-line lattice, and the diamond-edge points above/below them). "
      "Domain check: every integer vector with |x|+|y|+|z| = centre, q<=9, through "
      "IntegerVectorToQuantizedOctahedralCoords must give a canonical point denoting that vector. states = distinct "
      "(input class, code path) outcomes; non-trivial = wrap case in which the prediction was clamped or the correction "
      "wrapped / octahedral pair with pred != orig; all inputs are distinct by construction";
  R.explanation =
      "stateless exhaustive enumeration of bounded input spaces on the real encoder- and decoder-side transform "
      "objects; oracle = decoder(pred, encoder(orig,pred)) == orig and correction inside the interval of residues "
      "modulo (max-min+1) resp. [0,2^q-1)";
  R.assumptions = {
      "unit level: transforms are driven directly, the predictors and entropy coders are not in the loop (separate part)",
      "canonical octahedral coordinates are defined by the harness's own predicate (border points identified in mirror "
      "pairs, corners identified), not by draco's CanonicalizeOctahedralCoords",
      "for q>=11 only the listed band points are enumerated, not the whole grid",
      "DRACO_DCHECK is compiled out (as in every shipped configuration)"};
  R.transition_counters = {"roundtrips"};

  if (asan) {
    add_wrap_space(R, "asan_wrap_small", std::make_shared<std::vector<WrapCase>>(small_cases()));
    add_wrap_space(R, "asan_wrap_boundary", std::make_shared<std::vector<WrapCase>>(boundary_cases()));
    for (int q = 2; q <= 6; ++q) {
      PtList pts = all_canonical(q);
      add_oct_space<CanonEnc, CanonDec>(R, "asan_canon_q" + q2(q), "oct-canon", q, pts, q <= 5, true);
      add_oct_space<PlainEnc, PlainDec>(R, "asan_plain_q" + q2(q), "oct-plain", q, pts, q <= 5, true);
    }
    for (int q = 9; q <= 30; ++q)
      add_oct_space<CanonEnc, CanonDec>(R, "asan_canon_bandpts_q" + q2(q), "oct-canon", q, band_sampled(q),
                                         q == 9 || q == 16 || q == 30, true);
    for (int q = 2; q <= 9; ++q) add_emit_space(R, "asan_emit_canonical_q" + q2(q), q);
    R.require("emit:on_square_border", 1);
    R.require("wrap:pred_clamped_to_max", 1);
    R.require("wrap:pred_clamped_to_min", 1);
    R.require("wrap:correction_wrapped_up", 1);
    R.require("wrap:correction_wrapped_down", 1);
    R.require("wrap:cases:small-range", 1);
    R.require("wrap:cases:wide-range", 1);
    R.require("wrap:cases:range-near-int32-limit", 1);
  } else {
    for (int q = 2; q <= 9; ++q) {
      PtList pts = all_canonical(q);
      add_oct_space<CanonEnc, CanonDec>(R, "canon_q" + q2(q), "oct-canon", q, pts, q <= 7, true);
      if (q <= 6) add_oct_space<PlainEnc, PlainDec>(R, "plain_q" + q2(q), "oct-plain", q, pts, true, true);
    }
    for (int q = 9; q <= 11; ++q)
      add_oct_space<CanonEnc, CanonDec>(R, "canon_band_q" + q2(q), "oct-canon", q, band_literal(q, 2), q <= 10, true);
    for (int q = 9; q <= 30; ++q) {
      add_oct_space<CanonEnc, CanonDec>(R, "canon_bandpts_q" + q2(q), "oct-canon", q, band_sampled(q), true, true);
    }
  }
  R.require("oct-canon:pred_outside_diamond", 1);
  R.require("oct-canon:pred_quadrant_--", 1);
  R.require("oct-canon:pred_quadrant_+-", 1);
  R.require("oct-canon:pred_quadrant_-+", 1);
  R.require("oct-canon:pred_quadrant_++", 1);
  R.require("oct-canon:nonzero_correction", 1);
  return R.main();
}
