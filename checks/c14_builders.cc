// C14: mesh/point-cloud builders, value + point-id deduplication, MeshCleanup
// and MeshStripifier never change the described geometry except for exactly
// the documented removals; deduplication is idempotent and leaves no two
// identical values / points.
//
// Bounded exhaustive enumeration on the real code:
//   * triangle soups with F <= 2 (quick) / F <= 3 (thorough) faces, every
//     assignment of the 3F corners from the position alphabet
//       P0=(0,0,0) P1=(0,0,-0.0) P2=(1,0,0) P3=(0,NaN_a,0) P4=(0,NaN_b,0)
//     (bit patterns; NaN_a=0x7fc00000, NaN_b=0xffc00001), x a second
//     attribute from a 2-value alphabet set per corner or per face
//     (SetPerFaceAttributeValueForFace), of type float32x3 / uint8x4 /
//     int32x1 / int16x5; plus two 5-attribute spaces;
//   * point sets with N <= 4 points through PointCloudBuilder (three setter
//     paths) with and without Finalize(deduplicate_points).
// On every result: RefGeom against the reference computed from the case
// description, no-duplicate checks, dedup applied twice more (idempotence),
// MeshCleanup with all 16 option subsets judged by the sandwich (i)-(iv) of
// DESIGN C14, MeshStripifier in both output modes decoded by a small
// reference decoder.
//
// RefGeom here is the model of checks/refgeom_io.h specialised to the finite
// value alphabets: a value read from the mesh (validated accessors of
// refgeom_io.h, byte-exact memcmp) is replaced by its index in the alphabet,
// a corner tuple by the mixed-radix number of its value indices, a triangle
// by the smallest rotation of its three tuple numbers; bytes that are not in
// the alphabet are reported as such. This keeps the hot path free of heap
// allocations (ASan build).
#include <algorithm>
#include <array>
#include <iterator>

#include "checks/refgeom_io.h"
#include "draco/mesh/mesh_cleanup.h"
#include "draco/mesh/mesh_stripifier.h"
#include "draco/mesh/triangle_soup_mesh_builder.h"
#include "draco/point_cloud/point_cloud_builder.h"
#include "mc/runner.h"

using namespace draco;

namespace {

// ------------------------------------------------------------- alphabets
const uint32_t kPosBits[5][3] = {
    {0x00000000u, 0x00000000u, 0x00000000u},  // P0 = (0,0,0)
    {0x00000000u, 0x00000000u, 0x80000000u},  // P1 = (0,0,-0.0)
    {0x3f800000u, 0x00000000u, 0x00000000u},  // P2 = (1,0,0)
    {0x00000000u, 0x7fc00000u, 0x00000000u},  // P3 = (0,NaN_a,0)
    {0x00000000u, 0xffc00001u, 0x00000000u},  // P4 = (0,NaN_b,0)
};
const char *kPosName[5] = {"(0,0,0)", "(0,0,-0)", "(1,0,0)", "(0,NaNa,0)", "(0,NaNb,0)"};

struct TypeInfo {
  const char *name;
  GeometryAttribute::Type at;
  DataType dt;
  int comps;
  int nbytes;
  uint8_t val[2][20];
};

TypeInfo make_type(const char *name, GeometryAttribute::Type at, DataType dt, int comps, const void *v0, const void *v1) {
  TypeInfo t;
  t.name = name;
  t.at = at;
  t.dt = dt;
  t.comps = comps;
  t.nbytes = DataTypeLength(dt) * comps;
  memset(t.val, 0, sizeof t.val);
  memcpy(t.val[0], v0, t.nbytes);
  memcpy(t.val[1], v1, t.nbytes);
  return t;
}

const TypeInfo &type_info(int t) {
  // (0,0,1) vs (-0.0,0,1): equal under ==, different bytes
  static const uint32_t f0[3] = {0x00000000u, 0x00000000u, 0x3f800000u}, f1[3] = {0x80000000u, 0x00000000u, 0x3f800000u};
  static const uint8_t u0[4] = {1, 2, 3, 4}, u1[4] = {1, 2, 3, 5};
  static const int32_t i0[1] = {7}, i1[1] = {INT32_MIN};
  static const int16_t s0[5] = {1, 2, 3, 4, 5}, s1[5] = {1, 2, 3, 4, -5};
  // 64-bit types: 0.0 vs -0.0 as doubles; two integers that differ in the upper half only
  static const uint64_t d0[2] = {0x0000000000000000ull, 0x3ff0000000000000ull}, d1[2] = {0x8000000000000000ull, 0x3ff0000000000000ull};
  static const uint64_t q0[1] = {0x0000000100000007ull}, q1[1] = {0x0000000200000007ull};
  static const TypeInfo k[6] = {
      make_type("f32x3", GeometryAttribute::NORMAL, DT_FLOAT32, 3, f0, f1),
      make_type("u8x4", GeometryAttribute::COLOR, DT_UINT8, 4, u0, u1),
      make_type("i32x1", GeometryAttribute::GENERIC, DT_INT32, 1, i0, i1),
      make_type("i16x5", GeometryAttribute::GENERIC, DT_INT16, 5, s0, s1),
      make_type("f64x2", GeometryAttribute::GENERIC, DT_FLOAT64, 2, d0, d1),
      make_type("u64x1", GeometryAttribute::GENERIC, DT_UINT64, 1, q0, q1),
  };
  return k[t];
}

// counter names as objects: Ctx::count takes a std::string and is called ~50 times per case
const std::string k_cleanup_faces_removed_degenerate = "cleanup_faces_removed_degenerate";
const std::string k_cleanup_faces_removed_duplicate = "cleanup_faces_removed_duplicate";
const std::string k_cleanup_points_removed_unused = "cleanup_points_removed_unused";
const std::string k_cleanup_runs = "cleanup_runs";
const std::string k_cleanup_runs_keeping_all_faces = "cleanup_runs_keeping_all_faces";
const std::string k_cleanup_runs_keeping_faces_equal_in_position_only = "cleanup_runs_keeping_faces_equal_in_position_only";
const std::string k_cleanup_values_removed_unused = "cleanup_values_removed_unused";
const std::string k_clouds_built = "clouds_built";
const std::string k_clouds_where_points_were_merged = "clouds_where_points_were_merged";
const std::string k_dedup_applications = "dedup_applications";
const std::string k_soups_built = "soups_built";
const std::string k_soups_where_points_were_merged = "soups_where_points_were_merged";
const std::string k_soups_where_position_values_were_merged = "soups_where_position_values_were_merged";
const std::string k_soups_with_duplicates_left = "soups_with_duplicates_left";
const std::string k_strip_cases_with_multi_face_strip_degenerate = "strip_cases_with_multi_face_strip_degenerate";
const std::string k_strip_cases_with_multi_face_strip_restart = "strip_cases_with_multi_face_strip_restart";
const std::string k_strip_cases_with_separator_degenerate = "strip_cases_with_separator_degenerate";
const std::string k_strip_cases_with_separator_restart = "strip_cases_with_separator_restart";
const std::string k_strip_degenerate_triangles_skipped_by_reference_decoder = "strip_degenerate_triangles_skipped_by_reference_decoder";
const std::string k_strip_generate_false_on_empty_mesh = "strip_generate_false_on_empty_mesh";
const std::string k_strip_runs_degenerate = "strip_runs_degenerate";
const std::string k_strip_runs_restart = "strip_runs_restart";
const std::string k_strips_emitted_degenerate = "strips_emitted_degenerate";
const std::string k_strips_emitted_restart = "strips_emitted_restart";
const std::string k_soups_with_plus_and_minus_zero = "soups_with_plus_and_minus_zero";
const std::string k_soups_with_two_nan_payloads = "soups_with_two_nan_payloads";
const std::string k_soups_with_repeated_nan_corner = "soups_with_repeated_nan_corner";
const std::string k_soups_with_position_degenerate_face = "soups_with_position_degenerate_face";
const std::string k_soups_with_duplicate_face_up_to_rotation = "soups_with_duplicate_face_up_to_rotation";
const std::string k_soups_with_oppositely_shared_edge = "soups_with_oppositely_shared_edge";
const std::string k_clouds_with_repeated_point = "clouds_with_repeated_point";

const int kMaxAtts = 5, kMaxPts = 9, kMaxFaces = 3;

struct ExtraSpec {
  int type;       // index into type_info
  bool per_face;  // SetPerFaceAttributeValueForFace vs per-corner values
};
struct Extra {
  ExtraSpec spec;
  uint32_t bits;  // bit per corner (3F bits) or per face (F bits)
  int value_at(int corner) const { return (bits >> (spec.per_face ? corner / 3 : corner)) & 1; }
};

struct Soup {
  int F = 0;
  int pos[9] = {0};
  int nextra = 0;
  Extra extra[4];
};

std::string show(const Soup &s) {
  std::string o = "soup F=" + std::to_string(s.F) + " positions:";
  for (int f = 0; f < s.F; ++f) {
    o += " [";
    for (int k = 0; k < 3; ++k) o += std::string(k ? " " : "") + kPosName[s.pos[3 * f + k]];
    o += "]";
  }
  for (int i = 0; i < s.nextra; ++i) {
    const Extra &e = s.extra[i];
    o += std::string(" +") + type_info(e.spec.type).name + (e.spec.per_face ? " per-face values:" : " per-corner values:");
    const int n = e.spec.per_face ? s.F : 3 * s.F;
    for (int j = 0; j < n; ++j) o += char('0' + ((e.bits >> j) & 1));
  }
  return o;
}

// Input class carried by signatures: which special position patterns occur
// and which second-attribute types are present (not F / per-face vs
// per-corner: one defect should not fan out into dozens of signatures).
std::string input_class(const Soup &s) {
  bool z0 = false, z1 = false, nan = false;
  for (int c = 0; c < 3 * s.F; ++c) {
    z0 |= s.pos[c] == 0;
    z1 |= s.pos[c] == 1;
    nan |= s.pos[c] >= 3;
  }
  std::string k = "pos";
  if (z0 && z1) k += "+0and-0";
  if (nan) k += "+nan";
  for (int i = 0; i < s.nextra; ++i) k += std::string(",") + type_info(s.extra[i].spec.type).name;
  return k;
}

// The input-class string is only needed when something is reported.
struct LazyClass {
  const Soup *s;
  operator std::string() const { return input_class(*s); }
};
inline std::string operator+(const std::string &a, const LazyClass &c) { return a + std::string(c); }
inline std::string operator+(const char *a, const LazyClass &c) { return a + std::string(c); }
inline std::string operator+(const LazyClass &c, const std::string &b) { return std::string(c) + b; }
inline std::string operator+(const LazyClass &c, const char *b) { return std::string(c) + b; }

// --------------------------------------------------------------- snapshot
// Everything observable of a small mesh / point cloud, read through the
// validated public accessors; fixed size, no heap.
struct Snap {
  uint32_t np = 0, nf = 0;
  int na = 0;
  uint32_t face[kMaxFaces][3];
  uint32_t size[kMaxAtts];
  uint8_t vsize[kMaxAtts];
  uint32_t map[kMaxAtts][kMaxPts];
  uint8_t raw[kMaxAtts][kMaxPts][20];
  uint8_t code[kMaxAtts][kMaxPts];  // alphabet index of the entry, 255 = not in the alphabet
  int desc[kMaxAtts][3];

  bool same_as(const Snap &o) const {
    if (np != o.np || nf != o.nf || na != o.na) return false;
    for (uint32_t f = 0; f < nf; ++f)
      for (int k = 0; k < 3; ++k)
        if (face[f][k] != o.face[f][k]) return false;
    for (int a = 0; a < na; ++a) {
      if (size[a] != o.size[a] || vsize[a] != o.vsize[a]) return false;
      for (int d = 0; d < 3; ++d)
        if (desc[a][d] != o.desc[a][d]) return false;
      for (uint32_t p = 0; p < np; ++p)
        if (map[a][p] != o.map[a][p]) return false;
      for (uint32_t i = 0; i < size[a]; ++i)
        if (memcmp(raw[a][i], o.raw[a][i], vsize[a])) return false;
    }
    return true;
  }
  // structure only (no value bytes): entries per attribute, maps, faces
  uint64_t structure_hash() const {
    uint64_t h = mc::hash_combine(np, nf * 16 + na);
    for (uint32_t f = 0; f < nf; ++f)
      for (int k = 0; k < 3; ++k) h = mc::hash_combine(h, face[f][k]);
    for (int a = 0; a < na; ++a) {
      h = mc::hash_combine(h, size[a] * 32 + vsize[a]);
      for (uint32_t p = 0; p < np; ++p) h = mc::hash_combine(h, map[a][p]);
    }
    return h;
  }
};

// |types|: for attribute a > 0 the type_info index (alphabet to match).
bool take(const PointCloud &pc, const Mesh *mesh, const int *types, Snap *s, std::string *err) {
  s->np = pc.num_points();
  s->na = pc.num_attributes();
  s->nf = mesh ? mesh->num_faces() : 0;
  if (s->np > (uint32_t)kMaxPts || s->na > kMaxAtts || s->nf > (uint32_t)kMaxFaces) {
    *err = "more points/faces/attributes than the input had corners: points " + std::to_string(s->np) + " faces " +
           std::to_string(s->nf) + " attributes " + std::to_string(s->na);
    return false;
  }
  for (int a = 0; a < s->na; ++a) {
    const PointAttribute *att = pc.attribute(a);
    s->desc[a][0] = att->attribute_type();
    s->desc[a][1] = att->data_type();
    s->desc[a][2] = att->num_components();
    const int n = rg::value_size(att);
    if (n > 20 || att->size() > (size_t)kMaxPts) {
      *err = "attribute " + std::to_string(a) + " has " + std::to_string(att->size()) + " entries of " + std::to_string(n) +
             " bytes";
      return false;
    }
    s->vsize[a] = n;
    s->size[a] = att->size();
    for (uint32_t i = 0; i < s->size[a]; ++i) {
      const uint8_t *p = rg::entry_ptr(att, i);
      if (!p) {
        *err = "attribute " + std::to_string(a) + " entry " + std::to_string(i) + " outside the data buffer";
        return false;
      }
      memcpy(s->raw[a][i], p, n);
      uint8_t code = 255;
      if (a == 0) {
        if (n == 12)
          for (int k = 0; k < 5; ++k)
            if (!memcmp(p, kPosBits[k], 12)) code = k;
      } else {
        const TypeInfo &ti = type_info(types[a - 1]);
        if (n == ti.nbytes)
          for (int k = 0; k < 2; ++k)
            if (!memcmp(p, ti.val[k], n)) code = k;
      }
      s->code[a][i] = code;
    }
    for (uint32_t p = 0; p < s->np; ++p)
      if (!rg::mapped(att, p, &s->map[a][p], err)) {
        *err = "attribute " + std::to_string(a) + ": " + *err;
        return false;
      }
  }
  for (uint32_t f = 0; f < s->nf; ++f)
    for (int k = 0; k < 3; ++k) {
      s->face[f][k] = mesh->face(FaceIndex(f))[k].value();
      if (s->face[f][k] >= s->np) {
        *err = "face " + std::to_string(f) + " uses point " + std::to_string(s->face[f][k]) + " >= num_points " +
               std::to_string(s->np);
        return false;
      }
    }
  return true;
}

// Tuple number of point p (mixed radix: position index + 5 * second-attribute
// bits); -1 when some value is not from the input alphabet.
int tuple_of(const Snap &s, uint32_t p) {
  int t = 0, radix = 1;
  for (int a = 0; a < s.na; ++a) {
    const uint8_t c = s.code[a][s.map[a][p]];
    if (c == 255) return -1;
    t += c * radix;
    radix *= a == 0 ? 5 : 2;
  }
  return t;
}

inline uint32_t canon3(uint32_t a, uint32_t b, uint32_t c) {
  const uint32_t r0 = a << 20 | b << 10 | c, r1 = b << 20 | c << 10 | a, r2 = c << 20 | a << 10 | b;
  return std::min(r0, std::min(r1, r2));
}

struct Tris {
  int n = 0;
  uint32_t k[kMaxFaces];
  void add(uint32_t x) { k[n++] = x; }
  void sort() { std::sort(k, k + n); }
  bool operator==(const Tris &o) const { return n == o.n && std::equal(k, k + n, o.k); }
  bool operator!=(const Tris &o) const { return !(*this == o); }
};

std::string show(const Tris &t) {
  std::string s = "{";
  for (int i = 0; i < t.n; ++i) {
    char b[48];
    snprintf(b, sizeof b, "%s(%u,%u,%u)", i ? " " : "", t.k[i] >> 20, (t.k[i] >> 10) & 1023, t.k[i] & 1023);
    s += b;
  }
  return s + "} as corner tuple numbers (position index + 5*second-attribute bits)";
}

// RefGeom of a mesh snapshot: sorted rotation-canonical triples of tuple numbers.
bool geom_of(const Snap &s, Tris *out, std::string *err) {
  out->n = 0;
  for (uint32_t f = 0; f < s.nf; ++f) {
    int t[3];
    for (int k = 0; k < 3; ++k) {
      t[k] = tuple_of(s, s.face[f][k]);
      if (t[k] < 0) {
        *err = "face " + std::to_string(f) + " corner " + std::to_string(k) + " carries a value that is not an input value";
        return false;
      }
    }
    out->add(canon3(t[0], t[1], t[2]));
  }
  out->sort();
  return true;
}

std::string att_class(const Snap &s, int a) {
  std::string c = "dt" + std::to_string(s.desc[a][1]) + "x" + std::to_string(s.desc[a][2]);
  if (s.desc[a][2] > 4) c += "(more-than-4-components)";
  return c;
}

// "no two values with equal bytes, no two points with equal index tuples"
bool check_no_duplicates(const Snap &s, const char *where, mc::Ctx &ctx) {
  bool ok = true;
  for (int a = 0; a < s.na; ++a)
    for (uint32_t i = 0; i < s.size[a] && ok; ++i)
      for (uint32_t j = i + 1; j < s.size[a]; ++j)
        if (!memcmp(s.raw[a][i], s.raw[a][j], s.vsize[a])) {
          ctx.fail("dedup:identical-values-remain|" + att_class(s, a),
                   std::string(where) + ": attribute " + std::to_string(a) + " entries " + std::to_string(i) + " and " +
                       std::to_string(j) + " hold the same bytes after deduplication");
          ok = false;
          break;
        }
  for (uint32_t p = 0; p < s.np; ++p)
    for (uint32_t q = p + 1; q < s.np; ++q) {
      bool same = true;
      for (int a = 0; a < s.na; ++a) same = same && s.map[a][p] == s.map[a][q];
      if (same && s.na > 0) {
        ctx.fail("dedup:identical-points-remain", std::string(where) + ": points " + std::to_string(p) + " and " + std::to_string(q) +
                                                      " map to the same entries of every attribute");
        return false;
      }
    }
  return ok;
}

template <class G, class W>
bool apply_dedup(G *g, const W &where, mc::Ctx &ctx) {
  if (!g->DeduplicateAttributeValues()) {
    ctx.fail("dedup:values-returned-false", std::string(where));
    return false;
  }
  g->DeduplicatePointIds();
  ctx.count(k_dedup_applications);
  return true;
}

// ----------------------------------------------------------------- strips
inline bool degenerate3(const uint32_t *t) { return t[0] == t[1] || t[1] == t[2] || t[0] == t[2]; }

// Reference strip decoder: restart index (if any) starts a new strip,
// alternating winding inside a strip, degenerate triangles are skipped.
void decode_strips(const std::vector<uint32_t> &idx, bool use_restart, uint32_t restart, std::vector<uint32_t> *tris,
                   int *num_skipped) {
  tris->clear();
  *num_skipped = 0;
  size_t start = 0;
  while (start <= idx.size()) {
    size_t end = start;
    while (end < idx.size() && !(use_restart && idx[end] == restart)) ++end;
    for (size_t i = start; i + 2 < end; ++i) {
      uint32_t t[3] = {idx[i], idx[i + 1], idx[i + 2]};
      if ((i - start) & 1) std::swap(t[0], t[1]);
      if (degenerate3(t)) {
        ++*num_skipped;
        continue;
      }
      tris->push_back(canon3(t[0], t[1], t[2]));
    }
    start = end + 1;
  }
  std::sort(tris->begin(), tris->end());
}

std::string show_idx(const std::vector<uint32_t> &v) {
  std::string s;
  for (uint32_t x : v) s += (x == 0xffffffffu ? std::string("R") : std::to_string(x)) + " ";
  return s;
}

uint32_t unoriented(uint32_t k) {
  uint32_t t[3] = {k >> 20, (k >> 10) & 1023, k & 1023};
  std::sort(t, t + 3);
  return t[0] << 20 | t[1] << 10 | t[2];
}

bool check_strips(const Mesh &mesh, const Snap &s, const LazyClass &cls, mc::Ctx &ctx, bool *multi_face_strip) {
  // workers are single-threaded forks: reuse the buffers' capacity
  static std::vector<uint32_t> expect, got, out;
  expect.clear();
  for (uint32_t f = 0; f < s.nf; ++f)
    if (!degenerate3(s.face[f])) expect.push_back(canon3(s.face[f][0], s.face[f][1], s.face[f][2]));
  std::sort(expect.begin(), expect.end());
  for (int mode = 0; mode < 2; ++mode) {
    out.clear();
    MeshStripifier st;
    const bool ok = mode == 0 ? st.GenerateTriangleStripsWithPrimitiveRestart(mesh, uint32_t(0xffffffffu),
                                                                             std::back_inserter(out))
                              : st.GenerateTriangleStripsWithDegenerateTriangles(mesh, std::back_inserter(out));
    const char *mname = mode == 0 ? "restart" : "degenerate";
    ctx.count(mode == 0 ? k_strip_runs_restart : k_strip_runs_degenerate);
    if (!ok) {
      if (s.nf == 0) {
        ctx.count(k_strip_generate_false_on_empty_mesh);
        continue;
      }
      ctx.fail(std::string("strip:generate-returned-false|") + mname, std::string(cls));
      return false;
    }
    for (uint32_t x : out)
      if (!(mode == 0 && x == 0xffffffffu) && x >= s.np) {
        ctx.fail(std::string("strip:index-out-of-range|") + mname, cls + " strip: " + show_idx(out));
        return false;
      }
    // the same call writing through a plain pointer into a preallocated buffer (the use the header describes: "stores the
    // values in a buffer that can be used directly on the GPU") must produce the same indices
    {
      static std::vector<uint32_t> buf;
      buf.assign(out.size() + 8, 0xDEADBEEFu);
      MeshStripifier st2;
      uint32_t *dst = buf.data();
      const bool ok2 = mode == 0 ? st2.GenerateTriangleStripsWithPrimitiveRestart(mesh, uint32_t(0xffffffffu), dst)
                                 : st2.GenerateTriangleStripsWithDegenerateTriangles(mesh, dst);
      if (!ok2 || !std::equal(out.begin(), out.end(), buf.begin()) || buf[out.size()] != 0xDEADBEEFu) {
        buf.resize(out.size());
        ctx.fail(std::string("strip:pointer-output-differs-from-back-inserter|") + mname + (st.num_strips() > 1 ? ",multiple-strips" : ",single-strip"),
                 cls + " back_inserter: " + show_idx(out) + " pointer: " + show_idx(buf));
        return false;
      }
    }
    int nskipped = 0;
    decode_strips(out, mode == 0, 0xffffffffu, &got, &nskipped);
    if (got != expect) {
      std::vector<uint32_t> a = got, b = expect;
      for (auto &x : a) x = unoriented(x);
      for (auto &x : b) x = unoriented(x);
      std::sort(a.begin(), a.end());
      std::sort(b.begin(), b.end());
      ctx.fail(std::string("strip:") + (a == b ? "wrong-winding|" : "triangles-differ|") + mname +
                   (st.num_strips() > 1 ? ",multiple-strips" : ",single-strip"),
               cls + " strip: " + show_idx(out) + " decoded " + std::to_string(got.size()) + " triangles, mesh has " +
                   std::to_string(expect.size()) + " non-degenerate");
      return false;
    }
    const int ns = st.num_strips();
    ctx.count(mode == 0 ? k_strips_emitted_restart : k_strips_emitted_degenerate, ns);
    if (ns > 1) ctx.count(mode == 0 ? k_strip_cases_with_separator_restart : k_strip_cases_with_separator_degenerate);
    if (mode == 1 && ns > 1) ctx.count(k_strip_degenerate_triangles_skipped_by_reference_decoder, nskipped);
    if ((int)s.nf > ns && ns > 0) {
      ctx.count(mode == 0 ? k_strip_cases_with_multi_face_strip_restart : k_strip_cases_with_multi_face_strip_degenerate);
      *multi_face_strip = true;
    }
  }
  return true;
}

// ---------------------------------------------------------------- cleanup
struct FaceInfo {
  uint32_t K, PK;  // full / position-only rotation-canonical keys
  bool posdeg;     // two corners share a position entry
  bool ids_distinct;
  uint32_t pcls;  // rotation-canonical point triple
};

bool face_info(const Snap &s, uint32_t f, FaceInfo *fi, std::string *err) {
  int t[3], p[3];
  for (int k = 0; k < 3; ++k) {
    t[k] = tuple_of(s, s.face[f][k]);
    if (t[k] < 0) {
      *err = "face " + std::to_string(f) + " corner " + std::to_string(k) + " carries a value that is not an input value";
      return false;
    }
    p[k] = t[k] % 5;
  }
  const uint32_t e0 = s.map[0][s.face[f][0]], e1 = s.map[0][s.face[f][1]], e2 = s.map[0][s.face[f][2]];
  fi->K = canon3(t[0], t[1], t[2]);
  fi->PK = canon3(p[0], p[1], p[2]);
  fi->posdeg = e0 == e1 || e1 == e2 || e0 == e2;
  fi->ids_distinct = !degenerate3(s.face[f]);
  fi->pcls = canon3(s.face[f][0], s.face[f][1], s.face[f][2]);
  return true;
}

const char *kOptName[16] = {"opts=----", "opts=D---", "opts=-U--", "opts=DU--", "opts=--A-", "opts=D-A-", "opts=-UA-", "opts=DUA-",
                            "opts=---M", "opts=D--M", "opts=-U-M", "opts=DU-M", "opts=--AM", "opts=D-AM", "opts=-UAM", "opts=DUAM"};

// One clean-up run judged by the sandwich. Returns false after reporting.
// Brings |dst| (a clone of |src| that a clean-up run has modified in place)
// back to the state of |src| through public setters only; unlike a fresh
// clone this re-uses the allocations (clone + destroy of a Mesh dominated the
// run time under ASan). The caller verifies the restored state.
void restore_mesh(const Mesh &src, Mesh *dst) {
  dst->set_num_points(src.num_points());
  for (int a = 0; a < src.num_attributes(); ++a) dst->attribute(a)->CopyFrom(*src.attribute(a));
  dst->SetNumFaces(src.num_faces());
  for (uint32_t f = 0; f < src.num_faces(); ++f) dst->SetFace(FaceIndex(f), src.face(FaceIndex(f)));
}

bool check_cleanup(const Mesh &mesh, Mesh *out, const Snap &in, const FaceInfo *fin, const int *types, int opt_mask,
                   const LazyClass &cls, mc::Ctx &ctx, bool *removed_any) {
  MeshCleanupOptions opt;
  opt.remove_degenerated_faces = opt_mask & 1;
  opt.remove_duplicate_faces = opt_mask & 2;
  opt.remove_unused_attributes = opt_mask & 4;
  opt.make_geometry_manifold = opt_mask & 8;
  const std::string oname = kOptName[opt_mask];
  std::string err;
  const uint32_t nf = in.nf;

  // distinct triangle keys of the input with their bookkeeping
  struct KeyInfo {
    uint32_t K, PK;
    int n_in = 0, n_out = 0, n_required = 0, n_deg_witness = 0;
  } keys[kMaxFaces];
  int nkeys = 0;
  int key_of[kMaxFaces];
  for (uint32_t f = 0; f < nf; ++f) {
    int k = 0;
    while (k < nkeys && keys[k].K != fin[f].K) ++k;
    if (k == nkeys) {
      keys[k].K = fin[f].K;
      keys[k].PK = fin[f].PK;
      ++nkeys;
    }
    key_of[f] = k;
    keys[k].n_in++;
  }
  // Required removals (iii), on the input faces in order.
  bool removed_ref[kMaxFaces] = {false, false, false};
  if (opt.remove_degenerated_faces)
    for (uint32_t f = 0; f < nf; ++f)
      if (fin[f].posdeg) {
        removed_ref[f] = true;
        keys[key_of[f]].n_required++;
        keys[key_of[f]].n_deg_witness++;
      }
  if (opt.remove_duplicate_faces)
    for (uint32_t f = 0; f < nf; ++f) {
      if (removed_ref[f]) continue;  // equal up to rotation, also when an id occurs twice in the triple ((0,1,0) ~ (0,0,1))
      for (uint32_t g = 0; g < f; ++g)
        if (!removed_ref[g] && fin[g].pcls == fin[f].pcls) {
          removed_ref[f] = true;
          keys[key_of[f]].n_required++;
          break;
        }
    }

  Snap o;
  restore_mesh(mesh, out);
  if (!take(*out, out, types, &o, &err) || !o.same_as(in)) {
    ctx.fail("harness:restored-mesh-differs-from-original", err);
    return false;
  }
  const Status st = MeshCleanup::Cleanup(out, opt);
  ctx.count(k_cleanup_runs);
  if (!st.ok()) {
    ctx.fail("cleanup:returned-error|" + oname, cls + " " + st.error_msg_string());
    return false;
  }
  if (!take(*out, out, types, &o, &err)) {
    ctx.fail("cleanup:output-structurally-invalid|" + oname, cls + " " + err);
    return false;
  }
  if (o.na != in.na) {
    ctx.fail("cleanup:attribute-count-changed|" + oname, std::string(cls));
    return false;
  }
  for (int a = 0; a < in.na; ++a)
    for (int d = 0; d < 3; ++d)
      if (o.desc[a][d] != in.desc[a][d]) {
        ctx.fail("cleanup:attribute-descriptor-changed|" + oname, std::string(cls));
        return false;
      }
  if (o.nf > nf) {
    ctx.fail("cleanup:output-triangle-not-in-input|" + oname, cls + " more faces than before");
    return false;
  }
  // Output side.
  FaceInfo fout[kMaxFaces];
  for (uint32_t g = 0; g < o.nf; ++g) {
    if (!face_info(o, g, &fout[g], &err)) {
      ctx.fail("cleanup:output-triangle-not-in-input|" + oname, cls + " " + err);
      return false;
    }
    int k = 0;
    while (k < nkeys && keys[k].K != fout[g].K) ++k;
    if (k == nkeys || ++keys[k].n_out > keys[k].n_in) {  // (i)
      ctx.fail("cleanup:output-triangle-not-in-input|" + oname, cls + " output face " + std::to_string(g));
      return false;
    }
    if (opt.remove_degenerated_faces && fout[g].posdeg) {  // (iii)
      ctx.fail("cleanup:position-degenerate-face-kept|" + oname, cls + " output face " + std::to_string(g));
      return false;
    }
    if (opt.remove_duplicate_faces)
      for (uint32_t h = 0; h < g; ++h)
        if (fout[h].pcls == fout[g].pcls) {  // (iii)
          ctx.fail("cleanup:duplicate-point-triple-kept|" + oname, cls + " output faces " + std::to_string(h) + "," + std::to_string(g));
          return false;
        }
  }
  uint32_t rem_deg = 0, rem_dup = 0;
  for (int k = 0; k < nkeys; ++k) {
    const KeyInfo &ki = keys[k];
    if (ki.n_out > ki.n_in - ki.n_required) {  // (iii) on the multiset
      ctx.fail(std::string("cleanup:required-removal-missing|") + oname +
                   (ki.n_deg_witness ? ",degenerate" : ",duplicate-up-to-rotation"),
               cls + " in " + std::to_string(ki.n_in) + " out " + std::to_string(ki.n_out) + " required removals " +
                   std::to_string(ki.n_required));
      return false;
    }
    const int removed = ki.n_in - ki.n_out;
    if (removed > ki.n_deg_witness) {  // (ii) a removal that is not a degenerate one needs a kept twin
      bool twin = false;
      for (uint32_t g = 0; g < o.nf; ++g) twin |= fout[g].PK == ki.PK;
      if (!opt.remove_duplicate_faces || !twin) {
        ctx.fail("cleanup:face-removed-without-witness|" + oname,
                 cls + " in " + std::to_string(ki.n_in) + " out " + std::to_string(ki.n_out));
        return false;
      }
    }
    rem_deg += std::min(removed, ki.n_deg_witness);
    rem_dup += removed - std::min(removed, ki.n_deg_witness);
  }
  // (iv)
  if (opt.remove_unused_attributes) {
    bool used[kMaxPts] = {false};
    for (uint32_t g = 0; g < o.nf; ++g)
      for (int k = 0; k < 3; ++k) used[o.face[g][k]] = true;
    for (uint32_t p = 0; p < o.np; ++p)
      if (!used[p]) {
        ctx.fail("cleanup:unused-point-remains|" + oname, cls + " point " + std::to_string(p));
        return false;
      }
    for (int a = 0; a < o.na; ++a) {
      bool vused[kMaxPts] = {false};
      for (uint32_t p = 0; p < o.np; ++p) vused[o.map[a][p]] = true;
      for (uint32_t i = 0; i < o.size[a]; ++i)
        if (!vused[i]) {
          ctx.fail("cleanup:unused-value-remains|" + oname, cls + " attribute " + std::to_string(a) + " entry " + std::to_string(i));
          return false;
        }
      if (o.size[a] < in.size[a]) ctx.count(k_cleanup_values_removed_unused, in.size[a] - o.size[a]);
    }
    if (o.np < in.np) ctx.count(k_cleanup_points_removed_unused, in.np - o.np);
  }
  if (rem_deg) ctx.count(k_cleanup_faces_removed_degenerate, rem_deg);
  if (rem_dup) ctx.count(k_cleanup_faces_removed_duplicate, rem_dup);
  if (rem_deg || rem_dup) *removed_any = true;
  if (o.nf == nf) ctx.count(k_cleanup_runs_keeping_all_faces);
  // faces the header's wording ("same position indices") would call
  // duplicates but the code keeps: count how often the two notions differ
  if (opt.remove_duplicate_faces) {
    bool differ = false;
    for (uint32_t g = 0; g < o.nf; ++g)
      for (uint32_t h = 0; h < g; ++h) differ |= fout[h].PK == fout[g].PK;
    if (differ) ctx.count(k_cleanup_runs_keeping_faces_equal_in_position_only);
  }
  return true;
}

// ------------------------------------------------------------------- soups
void check_soup(const Soup &s, mc::Ctx &ctx) {
  const int nc = 3 * s.F;
  const LazyClass cls{&s};
  int types[4] = {0, 0, 0, 0};
  for (int i = 0; i < s.nextra; ++i) types[i] = s.extra[i].spec.type;
  // Expected geometry from the case description.
  int tup[9];
  uint8_t bytes[9][80];
  for (int c = 0; c < nc; ++c) {
    tup[c] = s.pos[c];
    int radix = 5, off = 12;
    memcpy(bytes[c], kPosBits[s.pos[c]], 12);
    for (int i = 0; i < s.nextra; ++i) {
      const TypeInfo &ti = type_info(types[i]);
      const int v = s.extra[i].value_at(c);
      tup[c] += v * radix;
      radix *= 2;
      memcpy(bytes[c] + off, ti.val[v], ti.nbytes);
      off += ti.nbytes;
    }
  }
  Tris expect;
  for (int f = 0; f < s.F; ++f) expect.add(canon3(tup[3 * f], tup[3 * f + 1], tup[3 * f + 2]));
  expect.sort();
  // input classes (vacuity guards; counted before any oracle can bail out)
  {
    int cnt[5] = {0, 0, 0, 0, 0};
    for (int c = 0; c < nc; ++c) cnt[s.pos[c]]++;
    if (cnt[0] && cnt[1]) ctx.count(k_soups_with_plus_and_minus_zero);
    if (cnt[3] && cnt[4]) ctx.count(k_soups_with_two_nan_payloads);
    if (cnt[3] > 1 || cnt[4] > 1) ctx.count(k_soups_with_repeated_nan_corner);
    bool posdeg = false, dup = false, shared_edge = false;
    for (int f = 0; f < s.F; ++f) {
      const int *p = s.pos + 3 * f;
      posdeg |= p[0] == p[1] || p[1] == p[2] || p[0] == p[2];
      const int *t = tup + 3 * f;
      const bool fd = t[0] != t[1] && t[1] != t[2] && t[0] != t[2];
      for (int g = 0; g < f; ++g) {
        const int *u = tup + 3 * g;
        dup |= fd && canon3(t[0], t[1], t[2]) == canon3(u[0], u[1], u[2]);
        for (int i = 0; i < 3 && fd; ++i)
          for (int j = 0; j < 3; ++j)
            shared_edge |= t[i] == u[(j + 1) % 3] && t[(i + 1) % 3] == u[j] && u[0] != u[1] && u[1] != u[2] && u[0] != u[2];
      }
    }
    if (posdeg) ctx.count(k_soups_with_position_degenerate_face);
    if (dup) ctx.count(k_soups_with_duplicate_face_up_to_rotation);
    if (shared_edge) ctx.count(k_soups_with_oppositely_shared_edge);
  }

  // --- builder
  TriangleSoupMeshBuilder b;
  b.Start(s.F);
  const int pa = b.AddAttribute(GeometryAttribute::POSITION, 3, DT_FLOAT32);
  int ids[4];
  for (int i = 0; i < s.nextra; ++i) {
    const TypeInfo &ti = type_info(types[i]);
    ids[i] = b.AddAttribute(ti.at, ti.comps, ti.dt);
  }
  for (int f = 0; f < s.F; ++f) {
    b.SetAttributeValuesForFace(pa, FaceIndex(f), kPosBits[s.pos[3 * f]], kPosBits[s.pos[3 * f + 1]],
                                kPosBits[s.pos[3 * f + 2]]);
    for (int i = 0; i < s.nextra; ++i) {
      const Extra &e = s.extra[i];
      const TypeInfo &ti = type_info(types[i]);
      if (e.spec.per_face)
        b.SetPerFaceAttributeValueForFace(ids[i], FaceIndex(f), ti.val[e.value_at(3 * f)]);
      else
        b.SetAttributeValuesForFace(ids[i], FaceIndex(f), ti.val[e.value_at(3 * f)], ti.val[e.value_at(3 * f + 1)],
                                    ti.val[e.value_at(3 * f + 2)]);
    }
  }
  std::unique_ptr<Mesh> mesh = b.Finalize();
  ctx.count(k_soups_built);
  if (!mesh) {
    ctx.fail("builder:finalize-returned-null|" + cls, "");
    return;
  }
  std::string err;
  Snap m;
  if (!take(*mesh, mesh.get(), types, &m, &err)) {
    ctx.fail("builder:mesh-structurally-invalid|" + cls, err);
    return;
  }
  if (m.na != 1 + s.nextra || (int)m.nf != s.F) {
    ctx.fail("builder:wrong-attribute-or-face-count|" + cls, "");
    return;
  }
  {
    bool ok = m.desc[0][0] == GeometryAttribute::POSITION && m.desc[0][1] == DT_FLOAT32 && m.desc[0][2] == 3;
    for (int i = 0; i < s.nextra; ++i) {
      const TypeInfo &ti = type_info(types[i]);
      ok = ok && m.desc[1 + i][0] == ti.at && m.desc[1 + i][1] == ti.dt && m.desc[1 + i][2] == ti.comps;
    }
    if (!ok) {
      ctx.fail("builder:attribute-descriptor-wrong|" + cls, "");
      return;
    }
  }
  Tris got;
  if (!geom_of(m, &got, &err)) {
    ctx.fail("builder:geometry-changed|" + cls, err);
    return;
  }
  if (got != expect) {
    ctx.fail("builder:geometry-changed|" + cls, "expected " + show(expect) + " got " + show(got));
    return;
  }
  // the builder deduplicates: no two identical values / points may remain
  if (!check_no_duplicates(m, "TriangleSoupMeshBuilder::Finalize", ctx)) ctx.count(k_soups_with_duplicates_left);

  ctx.state(m.structure_hash());
  if ((int)m.np < nc) ctx.count(k_soups_where_points_were_merged);
  if ((int)m.size[0] < nc) ctx.count(k_soups_where_position_values_were_merged);

  // --- dedup idempotence on the builder's result
  {
    std::unique_ptr<Mesh> c = rg::clone_mesh(*mesh);
    Snap sc;
    if (!take(*c, c.get(), types, &sc, &err) || !sc.same_as(m)) {
      ctx.fail("harness:clone-differs-from-original", err);
      return;
    }
    for (int round = 0; round < 2; ++round) {
      if (!apply_dedup(c.get(), cls, ctx)) return;
      if (!take(*c, c.get(), types, &sc, &err)) {
        ctx.fail("dedup:result-structurally-invalid|" + cls, err);
        return;
      }
      if (!sc.same_as(m)) {
        ctx.fail("dedup:not-idempotent|mesh," + cls, "application " + std::to_string(round + 2) + " changed the mesh");
        return;
      }
    }
  }
  // --- the same soup assembled without the builder, dedup applied by hand
  // (observes the intermediate state: values deduplicated, points not yet)
  {
    std::unique_ptr<Mesh> raw(new Mesh());
    raw->SetNumFaces(s.F);
    raw->set_num_points(nc);
    for (int a = 0; a < 1 + s.nextra; ++a) {
      GeometryAttribute va;
      if (a == 0)
        va.Init(GeometryAttribute::POSITION, nullptr, 3, DT_FLOAT32, false, 12, 0);
      else {
        const TypeInfo &ti = type_info(types[a - 1]);
        va.Init(ti.at, nullptr, ti.comps, ti.dt, false, ti.nbytes, 0);
      }
      raw->AddAttribute(va, true, nc);
    }
    for (int c = 0; c < nc; ++c) {
      int off = 0;
      for (int a = 0; a < raw->num_attributes(); ++a) {
        raw->attribute(a)->SetAttributeValue(AttributeValueIndex(c), bytes[c] + off);
        off += a == 0 ? 12 : type_info(types[a - 1]).nbytes;
      }
    }
    for (int f = 0; f < s.F; ++f)
      raw->SetFace(FaceIndex(f), {{PointIndex(3 * f), PointIndex(3 * f + 1), PointIndex(3 * f + 2)}});
    Snap r;
    Tris g;
    if (!take(*raw, raw.get(), types, &r, &err) || !geom_of(r, &g, &err) || g != expect) {
      ctx.fail("harness:raw-mesh-differs-from-case", err);
      return;
    }
    if (!raw->DeduplicateAttributeValues()) {
      ctx.fail("dedup:values-returned-false", std::string(cls));
      return;
    }
    if (!take(*raw, raw.get(), types, &r, &err) || !geom_of(r, &g, &err)) {
      ctx.fail("dedup:values-changed-geometry|" + cls, err);
      return;
    }
    if (g != expect) {
      ctx.fail("dedup:values-changed-geometry|" + cls, "expected " + show(expect) + " got " + show(g));
      return;
    }
    raw->DeduplicatePointIds();
    ctx.count(k_dedup_applications);
    if (!take(*raw, raw.get(), types, &r, &err) || !geom_of(r, &g, &err)) {
      ctx.fail("dedup:point-ids-changed-geometry|" + cls, err);
      return;
    }
    if (g != expect) {
      ctx.fail("dedup:point-ids-changed-geometry|" + cls, "expected " + show(expect) + " got " + show(g));
      return;
    }
    check_no_duplicates(r, "Mesh::DeduplicateAttributeValues+DeduplicatePointIds", ctx);
  }

  // --- clean-up, every option subset
  FaceInfo fin[kMaxFaces];
  for (uint32_t f = 0; f < m.nf; ++f)
    if (!face_info(m, f, &fin[f], &err)) {
      ctx.fail("builder:geometry-changed|" + cls, err);
      return;
    }
  bool removed_any = false;
  {
    std::unique_ptr<Mesh> scratch = rg::clone_mesh(*mesh);
    for (int mask = 0; mask < 16; ++mask)
      if (!check_cleanup(*mesh, scratch.get(), m, fin, types, mask, cls, ctx, &removed_any)) return;
  }

  // --- strips
  bool multi = false;
  if (!check_strips(*mesh, m, cls, ctx, &multi)) return;

  if ((int)m.np < nc || removed_any || multi) ctx.nontrivial_unique();
}

struct SoupSpace {
  int F;
  std::vector<int> alpha;  // position alphabet (indices into kPosBits)
  std::vector<ExtraSpec> extras;
  // If set (needs a 3-letter alphabet): face 0 is one of the 6 orderings of
  // the three letters (the only non-degenerate triangle over 3 letters), the
  // other faces are arbitrary.
  bool face0_nondegenerate = false;
  uint64_t size() const {
    uint64_t n = 1;
    for (int i = face0_nondegenerate ? 3 : 0; i < 3 * F; ++i) n *= alpha.size();
    if (face0_nondegenerate) n *= 6;
    for (auto &e : extras) n <<= (e.per_face ? F : 3 * F);
    return n;
  }
  Soup decode(uint64_t idx) const {
    Soup s;
    s.F = F;
    for (auto &e : extras) {
      const int nb = e.per_face ? F : 3 * F;
      Extra x;
      x.spec = e;
      x.bits = idx & ((1u << nb) - 1);
      idx >>= nb;
      s.extra[s.nextra++] = x;
    }
    int c = 0;
    if (face0_nondegenerate) {
      static const int perm[6][3] = {{0, 1, 2}, {0, 2, 1}, {1, 0, 2}, {1, 2, 0}, {2, 0, 1}, {2, 1, 0}};
      const int p = idx % 6;
      idx /= 6;
      for (; c < 3; ++c) s.pos[c] = alpha[perm[p][c]];
    }
    for (; c < 3 * F; ++c) {
      s.pos[c] = alpha[idx % alpha.size()];
      idx /= alpha.size();
    }
    return s;
  }
};

void add_soup_space(mc::Runner &R, const std::string &name, SoupSpace ss, bool quick, bool thorough) {
  mc::Space sp;
  sp.name = name;
  sp.size = ss.size();
  sp.quick = quick;
  sp.thorough = thorough;
  sp.run = [ss](uint64_t idx, mc::Ctx &ctx) { check_soup(ss.decode(idx), ctx); };
  sp.describe = [ss](uint64_t idx) { return show(ss.decode(idx)); };
  sp.klass = [ss](uint64_t idx) { return input_class(ss.decode(idx)); };
  R.add(sp);
}

// ------------------------------------------------------------ point clouds
struct Cloud {
  int N = 0;
  int pos[4] = {0};
  int type = -1;  // second attribute type or -1
  uint32_t bits = 0;
  bool dedup = false;
  int setter = 0;  // 0 per point, 1 all points stride 0, 2 all points padded stride
};

std::string show(const Cloud &c) {
  std::string o = "cloud N=" + std::to_string(c.N) + " positions:";
  for (int i = 0; i < c.N; ++i) o += std::string(" ") + kPosName[c.pos[i]];
  if (c.type >= 0) {
    o += std::string(" +") + type_info(c.type).name + " values:";
    for (int i = 0; i < c.N; ++i) o += char('0' + ((c.bits >> i) & 1));
  }
  o += c.dedup ? " Finalize(true)" : " Finalize(false)";
  o += c.setter == 0 ? " SetAttributeValueForPoint" : c.setter == 1 ? " SetAttributeValuesForAllPoints(stride 0)"
                                                                   : " SetAttributeValuesForAllPoints(padded stride)";
  return o;
}

std::string input_class(const Cloud &c) {
  std::string k = "cloud";
  if (c.type >= 0) k += std::string(",") + type_info(c.type).name;
  k += c.dedup ? ",Finalize(true)" : ",Finalize(false)";
  return k;
}

struct Pts {
  int n = 0;
  int k[kMaxPts];
  void sort() { std::sort(k, k + n); }
  void unique() { n = std::unique(k, k + n) - k; }
  bool operator==(const Pts &o) const { return n == o.n && std::equal(k, k + n, o.k); }
  bool operator!=(const Pts &o) const { return !(*this == o); }
};
std::string show(const Pts &p) {
  std::string s = "{";
  for (int i = 0; i < p.n; ++i) s += (i ? " " : "") + std::to_string(p.k[i]);
  return s + "} as point tuple numbers (position index + 5*second-attribute bit)";
}
bool points_of(const Snap &s, Pts *out, std::string *err) {
  out->n = 0;
  for (uint32_t p = 0; p < s.np; ++p) {
    const int t = tuple_of(s, p);
    if (t < 0) {
      *err = "point " + std::to_string(p) + " carries a value that is not an input value";
      return false;
    }
    out->k[out->n++] = t;
  }
  out->sort();
  return true;
}

void check_cloud(const Cloud &c, mc::Ctx &ctx) {
  const std::string cls = input_class(c);
  const int types[4] = {c.type < 0 ? 0 : c.type, 0, 0, 0};
  const int na = c.type >= 0 ? 2 : 1;
  Pts expect;
  for (int i = 0; i < c.N; ++i) expect.k[expect.n++] = c.pos[i] + (c.type >= 0 ? 5 * ((c.bits >> i) & 1) : 0);
  expect.sort();
  Pts expect_set = expect;
  expect_set.unique();
  if (expect_set.n < expect.n) ctx.count(k_clouds_with_repeated_point);

  PointCloudBuilder b;
  b.Start(c.N);
  int ids[2];
  ids[0] = b.AddAttribute(GeometryAttribute::POSITION, 3, DT_FLOAT32);
  if (c.type >= 0) {
    const TypeInfo &ti = type_info(c.type);
    ids[1] = b.AddAttribute(ti.at, ti.comps, ti.dt);
  }
  for (int a = 0; a < na; ++a) {
    const int n = a == 0 ? 12 : type_info(c.type).nbytes;
    auto value = [&](int i) -> const void * {
      return a == 0 ? (const void *)kPosBits[c.pos[i]] : (const void *)type_info(c.type).val[(c.bits >> i) & 1];
    };
    if (c.setter == 0) {
      for (int i = 0; i < c.N; ++i) b.SetAttributeValueForPoint(ids[a], PointIndex(i), value(i));
    } else {
      const int stride = c.setter == 1 ? n : n + 3;
      uint8_t buf[4 * 23 + 1];
      memset(buf, 0x5a, sizeof buf);
      for (int i = 0; i < c.N; ++i) memcpy(buf + i * stride, value(i), n);
      b.SetAttributeValuesForAllPoints(ids[a], buf, c.setter == 1 ? 0 : stride);
    }
  }
  std::unique_ptr<PointCloud> pc = b.Finalize(c.dedup);
  ctx.count(k_clouds_built);
  if (!pc) {
    ctx.fail("pcbuilder:finalize-returned-null|" + cls, "");
    return;
  }
  std::string err;
  Snap s;
  if (!take(*pc, nullptr, types, &s, &err)) {
    ctx.fail("pcbuilder:cloud-structurally-invalid|" + cls, err);
    return;
  }
  if (s.na != na) {
    ctx.fail("pcbuilder:wrong-attribute-count|" + cls, "");
    return;
  }
  Pts got;
  if (!points_of(s, &got, &err)) {
    ctx.fail("pcbuilder:geometry-changed|" + cls, err);
    return;
  }
  if (!c.dedup) {
    // no deduplication requested: the multiset of points is the input
    if (got != expect) {
      ctx.fail("pcbuilder:geometry-changed|" + cls, "expected " + show(expect) + " got " + show(got));
      return;
    }
    if (!apply_dedup(pc.get(), cls, ctx)) return;
    if (!take(*pc, nullptr, types, &s, &err) || !points_of(s, &got, &err)) {
      ctx.fail("dedup:cloud-geometry-changed|" + cls, err);
      return;
    }
  }
  // deduplicated (by Finalize(true) or by hand): the documented removal is
  // "duplicate points", so the set of distinct points is unchanged ...
  Pts got_set = got;
  got_set.unique();
  if (got_set != expect_set) {
    ctx.fail("dedup:cloud-geometry-changed|" + cls, "expected the set " + show(expect_set) + " got " + show(got));
    return;
  }
  // ... and no two identical values / points remain
  const bool nodup = check_no_duplicates(s, c.dedup ? "PointCloudBuilder::Finalize(true)" : "PointCloud dedup", ctx);
  if (nodup && got != expect_set) {
    ctx.fail("dedup:identical-points-remain|by-value," + cls, "got " + show(got));
    return;
  }
  if (got.n < expect.n) ctx.count(k_clouds_where_points_were_merged);
  ctx.state(mc::hash_combine(s.structure_hash(), 77));
  Snap s2;
  for (int round = 0; round < 2; ++round) {
    if (!apply_dedup(pc.get(), cls, ctx)) return;
    if (!take(*pc, nullptr, types, &s2, &err)) {
      ctx.fail("dedup:result-structurally-invalid|cloud," + cls, err);
      return;
    }
    if (!s2.same_as(s)) {
      ctx.fail("dedup:not-idempotent|cloud," + cls, "a further application changed the point cloud");
      return;
    }
  }
  if (got.n < expect.n) ctx.nontrivial_unique();
}

void add_cloud_space(mc::Runner &R, int N) {
  // digits: dedup(2) setter(3) second-attribute config (1 + 4*2^N) positions 5^N
  const uint64_t cfg = 1 + 4 * (1ull << N);
  uint64_t npos = 1;
  for (int i = 0; i < N; ++i) npos *= 5;
  auto decode = [=](uint64_t idx) {
    Cloud c;
    c.N = N;
    c.dedup = idx % 2;
    idx /= 2;
    c.setter = idx % 3;
    idx /= 3;
    const uint64_t k = idx % cfg;
    idx /= cfg;
    if (k > 0) {
      c.type = (k - 1) >> N;
      c.bits = (k - 1) & ((1u << N) - 1);
    }
    for (int i = 0; i < N; ++i) {
      c.pos[i] = idx % 5;
      idx /= 5;
    }
    return c;
  };
  mc::Space sp;
  sp.name = "points_N" + std::to_string(N);
  sp.size = 2 * 3 * cfg * npos;
  sp.run = [=](uint64_t idx, mc::Ctx &ctx) { check_cloud(decode(idx), ctx); };
  sp.describe = [=](uint64_t idx) { return show(decode(idx)); };
  // coarse class for crash signatures: one signature per call path
  sp.klass = [=](uint64_t idx) {
    const Cloud c = decode(idx);
    return std::string(c.N == 0 ? "N=0" : "N>0") + ",setter" + std::to_string(c.setter);
  };
  R.add(sp);
}

}  // namespace

int main(int argc, char **argv) {
  mc::Runner R(argc, argv, "C14");
  R.level = "model_checking";
  R.distinct_bits = 22;
  R.rule =
      "every triangle soup of F faces whose 3F corner positions are drawn from 5 float bit patterns {(0,0,0), (0,0,-0.0), "
      "(1,0,0), (0,NaN_a,0), (0,NaN_b,0)} combined with every per-corner / per-face assignment of a 2-value second "
      "attribute (float32x3, uint8x4, int32x1, int16x5), and every point set of N <= 4 points over the same alphabets "
      "x 3 setter paths x Finalize(true|false); each is built with the real builders, deduplicated again twice, cleaned "
      "with all 16 MeshCleanupOptions subsets and stripified in both output modes. states = distinct resulting "
      "mesh/point-cloud structures (entry counts, point->entry maps, faces; value bytes not included); non-trivial = "
      "inputs (distinct by construction) for which the builder merged at least two corners/points into one, or a "
      "clean-up run removed a face, or a strip covers more than one face";
  R.explanation =
      "stateless exhaustive enumeration of the input spaces on the real draco utilities; oracle = reference triangle / "
      "point multiset computed from the case description (byte-exact), the clean-up sandwich (i)-(iv) of DESIGN C14, a "
      "reference strip decoder, and structural snapshots for idempotence";
  R.assumptions = {
      "F <= 3 faces; F = 3 with a second attribute is bounded further: per-face uint8x4 over the 4-letter position "
      "alphabet {+0,-0,NaN_a,NaN_b}; per-corner float32x3 (all 512 patterns) over the 3-letter alphabet {+0,-0,NaN_a} "
      "with face 0 one of the 6 orderings of the non-degenerate triangle and faces 1,2 arbitrary; 5-attribute soups over "
      "the 3-letter alphabet; N <= 4 points; 1, 2 or 5 attributes",
      "quick runs the F = 2 per-corner products over sub-alphabets (4 letters for float32x3, 3 letters for the other "
      "types); thorough runs them over all 5 letters",
      "positions are float32x3 (the type every draco loader produces); the second attribute covers float32x3, uint8x4, "
      "int32x1 and a 5-component int16",
      "MeshCleanup duplicate faces are judged by the sandwich of DESIGN C14 because header and code disagree on what a "
      "duplicate is",
      "DRACO_DCHECK is compiled out (as in every shipped configuration)"};
  R.transition_counters = {"soups_built", "clouds_built", "cleanup_runs", "strip_runs_restart", "strip_runs_degenerate",
                           "dedup_applications"};

  const std::vector<int> A5 = {0, 1, 2, 3, 4};
  const std::vector<int> A4 = {0, 1, 3, 4};  // +0, -0, NaN_a, NaN_b
  const std::vector<int> A3 = {0, 1, 3};     // +0, -0, NaN_a
  const char *tn[6] = {"f32x3", "u8x4", "i32x1", "i16x5", "f64x2", "u64x1"};
  // F = 0: the empty soup, without and with a second attribute
  add_soup_space(R, "soup_F0_pos", {0, A5, {}}, true, true);
  for (int t = 0; t < 4; ++t) add_soup_space(R, std::string("soup_F0_") + tn[t], {0, A5, {{t, false}}}, true, true);
  // F = 1, 2 over the full 5-letter alphabet. The per-corner F = 2 products
  // (10^6 each) run in thorough; quick runs them over sub-alphabets (spaces
  // *_pos4 / *_pos3 below, subsets of the thorough spaces).
  for (int F = 1; F <= 2; ++F) {
    const std::string p = "soup_F" + std::to_string(F);
    add_soup_space(R, p + "_pos", {F, A5, {}}, true, true);
    for (int t = 0; t < 4; ++t) {
      // quick: per-face for the float type and the 5-component type (the two
      // other integer types take the same dedup path as float32x3)
      add_soup_space(R, p + "_face_" + tn[t], {F, A5, {{t, true}}}, F == 1 || t == 0 || t == 3, true);
      add_soup_space(R, p + "_corner_" + tn[t], {F, A5, {{t, false}}}, F == 1, true);
    }
  }
  // 64-bit data types (F = 1 per face and per corner, F = 2 per face; F = 2 per corner in thorough)
  for (int t = 4; t < 6; ++t) {
    add_soup_space(R, std::string("soup_F1_face_") + tn[t], {1, A5, {{t, true}}}, true, true);
    add_soup_space(R, std::string("soup_F1_corner_") + tn[t], {1, A5, {{t, false}}}, true, true);
    add_soup_space(R, std::string("soup_F2_face_") + tn[t], {2, A5, {{t, true}}}, true, true);
    add_soup_space(R, std::string("soup_F2_corner_") + tn[t] + "_pos3", {2, A3, {{t, false}}}, true, true);
  }
  add_soup_space(R, "soup_F2_corner_f32x3_pos4", {2, A4, {{0, false}}}, true, false);
  for (int t = 1; t < 4; ++t)
    add_soup_space(R, std::string("soup_F2_corner_") + tn[t] + "_pos3", {2, A3, {{t, false}}}, true, false);
  // five attributes at once, 3-letter position alphabet
  add_soup_space(R, "soup_F2_5atts_face_pos3", {2, A3, {{0, true}, {1, true}, {2, true}, {3, true}}}, true, true);
  add_soup_space(R, "soup_F1_5atts_corner_pos3", {1, A3, {{0, false}, {1, false}, {2, false}, {3, false}}}, false, true);
  // F = 3 (thorough)
  add_soup_space(R, "soup_F3_pos", {3, A5, {}}, false, true);
  add_soup_space(R, "soup_F3_face_u8x4_pos4", {3, A4, {{1, true}}}, false, true);
  add_soup_space(R, "soup_F3_corner_f32x3_pos3_face0nondeg", {3, A3, {{0, false}}, true}, false, true);
  for (int N = 0; N <= 4; ++N) add_cloud_space(R, N);

  // One MeshStripifier object reused for several meshes and both output modes: every sequence of up to 3 (quick) / 4 (thorough)
  // calls over a pool of 7 meshes x 2 modes; each call must give exactly the indices of the same call on a fresh object, and those
  // must decode (reference strip decoder) to the mesh's oriented triangles.
  {
    typedef std::vector<std::array<uint32_t, 3>> Faces;
    static const std::vector<Faces> pool = {
        {{0, 1, 2}},                                                       // one triangle (one strip, odd face count)
        {{0, 1, 2}, {3, 4, 5}, {6, 7, 8}},                                  // three pieces (three strips, odd)
        {{0, 1, 2}, {2, 1, 3}, {4, 5, 6}, {6, 5, 7}},                       // two quads (two strips, even)
        {{0, 1, 2}, {2, 1, 3}, {2, 3, 4}, {5, 6, 7}},                       // strip of three + one triangle
        {{0, 1, 2}, {2, 1, 3}},                                             // one quad
        {{0, 1, 2}, {2, 1, 3}, {2, 3, 4}, {5, 6, 7}, {7, 6, 8}, {9, 10, 11}, {12, 13, 14}, {14, 13, 15}, {14, 15, 16}},  // four pieces, nine faces
        {{0, 1, 2}, {0, 2, 3}, {0, 3, 4}, {0, 4, 1}, {5, 6, 7}},            // closed fan + one triangle
    };
    static std::vector<std::unique_ptr<Mesh>> meshes;
    for (const Faces &fs : pool) {
      uint32_t np = 0;
      for (auto &f : fs) np = std::max(np, std::max(f[0], std::max(f[1], f[2])) + 1);
      std::unique_ptr<Mesh> m(new Mesh());
      m->set_num_points(np);
      GeometryAttribute ga;
      ga.Init(GeometryAttribute::POSITION, nullptr, 3, DT_FLOAT32, false, 12, 0);
      const int aid = m->AddAttribute(ga, true, np);
      for (uint32_t i = 0; i < np; ++i) {
        const float v[3] = {(float)i, (float)(i * i % 7), (float)(i % 3)};
        m->attribute(aid)->SetAttributeValue(AttributeValueIndex(i), v);
      }
      for (auto &f : fs) m->AddFace({{PointIndex(f[0]), PointIndex(f[1]), PointIndex(f[2])}});
      meshes.push_back(std::move(m));
    }
    const uint64_t ops = pool.size() * 2;
    auto run_one = [](MeshStripifier &st, int op, std::vector<uint32_t> *out) {
      const Mesh &mesh = *meshes[op / 2];
      out->clear();
      return (op & 1) ? st.GenerateTriangleStripsWithDegenerateTriangles(mesh, std::back_inserter(*out))
                      : st.GenerateTriangleStripsWithPrimitiveRestart(mesh, uint32_t(0xffffffffu), std::back_inserter(*out));
    };
    for (int depth : {3, 4}) {
      mc::Space sp;
      sp.name = "stripifier_histories_depth" + std::to_string(depth);
      sp.size = 1;
      for (int i = 0; i < depth; ++i) sp.size *= ops;
      sp.quick = depth == 3;
      sp.thorough = true;
      auto hist_text = [=](uint64_t idx) {
        std::string h;
        for (int step = 0; step < depth; ++step) {
          const int op = idx % ops;
          idx /= ops;
          h += (step ? " ; " : "") + std::string("mesh") + std::to_string(op / 2) + ((op & 1) ? ":degenerate" : ":restart");
        }
        return h;
      };
      sp.run = [=](uint64_t idx, mc::Ctx &ctx) {
        MeshStripifier shared;
        uint64_t k = idx;
        for (int step = 0; step < depth; ++step) {
          const int op = k % ops;
          k /= ops;
          std::vector<uint32_t> got, ref, tris, expect;
          const bool ok = run_one(shared, op, &got);
          MeshStripifier fresh;
          const bool ok2 = run_one(fresh, op, &ref);
          ctx.count("stripifier_calls_in_histories");
          if (ok != ok2 || got != ref) {
            ctx.fail("strip:reused-object-differs-from-fresh-object|" + std::string((op & 1) ? "degenerate" : "restart"),
                     "one MeshStripifier: " + hist_text(idx) + " (call " + std::to_string(step + 1) + "): " + show_idx(got) + " fresh: " + show_idx(ref));
            return;
          }
          int skipped = 0;
          decode_strips(got, !(op & 1), 0xffffffffu, &tris, &skipped);
          for (auto &f : pool[op / 2]) expect.push_back(canon3(f[0], f[1], f[2]));
          std::sort(expect.begin(), expect.end());
          if (tris != expect) {
            ctx.fail("strip:history-triangles-differ|" + std::string((op & 1) ? "degenerate" : "restart"), "one MeshStripifier: " + hist_text(idx) + ": " + show_idx(got));
            return;
          }
        }
        ctx.nontrivial_unique();
      };
      sp.describe = [=](uint64_t idx) { return "one MeshStripifier object: " + hist_text(idx); };
      R.add(sp);
    }
  }

  // vacuity guards: input classes, counted before the oracles run (so that a
  // defect that makes every case of a class fail is reported as a violation,
  // not as an empty class); the outcome counters (faces removed per reason,
  // strips with separators, ...) are in the evidence
  R.require("soups_with_plus_and_minus_zero", 1);
  R.require("soups_with_two_nan_payloads", 1);
  R.require("soups_with_repeated_nan_corner", 1);
  R.require("soups_with_position_degenerate_face", 1);
  R.require("soups_with_duplicate_face_up_to_rotation", 1);
  R.require("soups_with_oppositely_shared_edge", 1);
  R.require("clouds_with_repeated_point", 1);
  return R.main();
}
