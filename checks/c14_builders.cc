// C14: mesh/point-cloud builders, value + point-id deduplication, MeshCleanup
// and MeshStripifier never change the described geometry except for exactly
// the documented removals; deduplication is idempotent and leaves no two
// identical values / points.
//
// Bounded exhaustive enumeration on the real code:
//   * triangle soups with F <= 2 (quick) / F <= 3 (thorough) faces, every
//     assignment of the 3F corners from the position alphabet
//       P0=(0,0,0) P1=(0,0,-0.0) P2=(1,0,0) P3=(0,NaN_a,0) P4=(0,NaN_b,0)
//     (bit patterns; NaN_a=0x7fc00000, NaN_b=0xffc00001), x a second
//     attribute from a 2-value alphabet set per corner or per face
//     (SetPerFaceAttributeValueForFace), of type float32x3 / uint8x4 /
//     int32x1 / int16x5; plus a 5-attribute space;
//   * point sets with N <= 4 points through PointCloudBuilder (three setter
//     paths) with and without Finalize(deduplicate_points).
// On every result: RefGeom against the reference computed from the case
// description, no-duplicate checks, dedup applied twice more (idempotence),
// MeshCleanup with all 16 option subsets judged by the sandwich (i)-(iv) of
// DESIGN C14, MeshStripifier in both output modes decoded by a small
// reference decoder.
#include <array>
#include <iterator>
#include <map>
#include <set>

#include "checks/refgeom_io.h"
#include "draco/mesh/mesh_cleanup.h"
#include "draco/mesh/mesh_stripifier.h"
#include "draco/mesh/triangle_soup_mesh_builder.h"
#include "draco/point_cloud/point_cloud_builder.h"
#include "mc/runner.h"

using namespace draco;

namespace {

// ------------------------------------------------------------- alphabets
const uint32_t kPosBits[5][3] = {
    {0x00000000u, 0x00000000u, 0x00000000u},  // P0 = (0,0,0)
    {0x00000000u, 0x00000000u, 0x80000000u},  // P1 = (0,0,-0.0)
    {0x3f800000u, 0x00000000u, 0x00000000u},  // P2 = (1,0,0)
    {0x00000000u, 0x7fc00000u, 0x00000000u},  // P3 = (0,NaN_a,0)
    {0x00000000u, 0xffc00001u, 0x00000000u},  // P4 = (0,NaN_b,0)
};
const char *kPosName[5] = {"(0,0,0)", "(0,0,-0)", "(1,0,0)", "(0,NaNa,0)", "(0,NaNb,0)"};

std::string pos_bytes(int k) { return std::string(reinterpret_cast<const char *>(kPosBits[k]), 12); }

struct TypeInfo {
  const char *name;
  GeometryAttribute::Type at;
  DataType dt;
  int comps;
  std::string val[2];
};

template <typename T>
std::string bytes_of(std::initializer_list<T> v) {
  std::string s;
  for (T x : v) s.append(reinterpret_cast<const char *>(&x), sizeof(T));
  return s;
}

const TypeInfo &type_info(int t) {
  static const TypeInfo k[4] = {
      // (0,0,1) vs (-0.0,0,1): equal under ==, different bytes
      {"f32x3", GeometryAttribute::NORMAL, DT_FLOAT32, 3,
       {bytes_of<uint32_t>({0x00000000u, 0x00000000u, 0x3f800000u}),
        bytes_of<uint32_t>({0x80000000u, 0x00000000u, 0x3f800000u})}},
      {"u8x4", GeometryAttribute::COLOR, DT_UINT8, 4, {bytes_of<uint8_t>({1, 2, 3, 4}), bytes_of<uint8_t>({1, 2, 3, 5})}},
      {"i32x1", GeometryAttribute::GENERIC, DT_INT32, 1, {bytes_of<int32_t>({7}), bytes_of<int32_t>({INT32_MIN})}},
      {"i16x5", GeometryAttribute::GENERIC, DT_INT16, 5,
       {bytes_of<int16_t>({1, 2, 3, 4, 5}), bytes_of<int16_t>({1, 2, 3, 4, -5})}},
  };
  return k[t];
}

struct ExtraSpec {
  int type;       // index into type_info
  bool per_face;  // SetPerFaceAttributeValueForFace vs per-corner values
};
struct Extra {
  ExtraSpec spec;
  uint32_t bits;  // bit per corner (3F bits) or per face (F bits)
  int value_at(int corner) const { return (bits >> (spec.per_face ? corner / 3 : corner)) & 1; }
};

struct Soup {
  int F = 0;
  int pos[9] = {0};
  std::vector<Extra> extra;
};

std::string show(const Soup &s) {
  std::string o = "soup F=" + std::to_string(s.F) + " positions:";
  for (int f = 0; f < s.F; ++f) {
    o += " [";
    for (int k = 0; k < 3; ++k) o += std::string(k ? " " : "") + kPosName[s.pos[3 * f + k]];
    o += "]";
  }
  for (auto &e : s.extra) {
    o += std::string(" +") + type_info(e.spec.type).name + (e.spec.per_face ? " per-face values:" : " per-corner values:");
    const int n = e.spec.per_face ? s.F : 3 * s.F;
    for (int i = 0; i < n; ++i) o += char('0' + ((e.bits >> i) & 1));
  }
  return o;
}

std::string input_class(const Soup &s) {
  bool z0 = false, z1 = false, nan = false;
  for (int c = 0; c < 3 * s.F; ++c) {
    z0 |= s.pos[c] == 0;
    z1 |= s.pos[c] == 1;
    nan |= s.pos[c] >= 3;
  }
  std::string k = "F" + std::to_string(s.F);
  if (z0 && z1) k += ",+0and-0";
  if (nan) k += ",nan";
  for (auto &e : s.extra) k += std::string(",") + type_info(e.spec.type).name + (e.spec.per_face ? "/face" : "/corner");
  return k;
}

// ------------------------------------------------------------ small helpers
bool has_duplicate_values(const PointAttribute *att, uint32_t *a, uint32_t *b) {
  std::map<std::string, uint32_t> seen;
  for (uint32_t i = 0; i < att->size(); ++i) {
    std::string v;
    if (!rg::read_entry(att, i, &v, nullptr)) return false;
    auto it = seen.find(v);
    if (it != seen.end()) {
      *a = it->second;
      *b = i;
      return true;
    }
    seen[v] = i;
  }
  return false;
}

bool has_duplicate_points(const PointCloud &pc, uint32_t *a, uint32_t *b) {
  std::map<std::vector<uint32_t>, uint32_t> seen;
  for (uint32_t p = 0; p < pc.num_points(); ++p) {
    std::vector<uint32_t> t;
    for (int i = 0; i < pc.num_attributes(); ++i) t.push_back(pc.attribute(i)->mapped_index(PointIndex(p)).value());
    auto it = seen.find(t);
    if (it != seen.end()) {
      *a = it->second;
      *b = p;
      return true;
    }
    seen[t] = p;
  }
  return false;
}

std::string att_class(const PointAttribute *att) {
  std::string s = "dt" + std::to_string(att->data_type()) + "x" + std::to_string(att->num_components());
  if (att->num_components() > 4) s += "(more-than-4-components)";
  return s;
}

// Checks "no two values with equal bytes, no two points with equal index
// tuples" on a deduplicated geometry. Returns false after reporting.
bool check_no_duplicates(const PointCloud &pc, const std::string &where, mc::Ctx &ctx) {
  bool ok = true;
  for (int a = 0; a < pc.num_attributes(); ++a) {
    uint32_t i, j;
    if (has_duplicate_values(pc.attribute(a), &i, &j)) {
      ctx.fail("dedup:identical-values-remain|" + att_class(pc.attribute(a)),
               where + ": attribute " + std::to_string(a) + " entries " + std::to_string(i) + " and " + std::to_string(j) +
                   " hold the same bytes after deduplication");
      ok = false;
    }
  }
  uint32_t i, j;
  if (has_duplicate_points(pc, &i, &j)) {
    ctx.fail("dedup:identical-points-remain", where + ": points " + std::to_string(i) + " and " + std::to_string(j) +
                                                  " map to the same entries of every attribute");
    ok = false;
  }
  return ok;
}

// Applies value + point-id dedup once; false after reporting.
template <class G>
bool apply_dedup(G *g, const std::string &where, mc::Ctx &ctx) {
  if (!g->DeduplicateAttributeValues()) {
    ctx.fail("dedup:values-returned-false", where);
    return false;
  }
  g->DeduplicatePointIds();
  ctx.count("dedup_applications");
  return true;
}

// ----------------------------------------------------------------- strips
typedef std::array<uint32_t, 3> Tri;
Tri canon(Tri t) {
  while (t[0] > t[1] || t[0] > t[2]) {
    const uint32_t x = t[0];
    t[0] = t[1];
    t[1] = t[2];
    t[2] = x;
  }
  return t;
}
bool degenerate(const Tri &t) { return t[0] == t[1] || t[1] == t[2] || t[0] == t[2]; }

// Reference strip decoder: restart index (if any) starts a new strip,
// alternating winding inside a strip, degenerate triangles are skipped.
std::vector<Tri> decode_strips(const std::vector<uint32_t> &idx, bool use_restart, uint32_t restart, int *num_strips,
                               int *num_skipped) {
  std::vector<Tri> out;
  size_t start = 0;
  *num_strips = 0;
  *num_skipped = 0;
  while (start <= idx.size()) {
    size_t end = start;
    while (end < idx.size() && !(use_restart && idx[end] == restart)) ++end;
    if (end > start) ++*num_strips;
    for (size_t i = start; i + 2 < end; ++i) {
      Tri t = ((i - start) & 1) ? Tri{idx[i + 1], idx[i], idx[i + 2]} : Tri{idx[i], idx[i + 1], idx[i + 2]};
      if (degenerate(t)) {
        ++*num_skipped;
        continue;
      }
      out.push_back(canon(t));
    }
    start = end + 1;
  }
  std::sort(out.begin(), out.end());
  return out;
}

std::string show_idx(const std::vector<uint32_t> &v) {
  std::string s;
  for (uint32_t x : v) s += (x == 0xffffffffu ? std::string("R") : std::to_string(x)) + " ";
  return s;
}

bool check_strips(const Mesh &mesh, const std::string &cls, mc::Ctx &ctx, bool *multi_face_strip) {
  std::vector<Tri> expect;
  for (uint32_t f = 0; f < mesh.num_faces(); ++f) {
    const Mesh::Face &face = mesh.face(FaceIndex(f));
    Tri t{face[0].value(), face[1].value(), face[2].value()};
    if (!degenerate(t)) expect.push_back(canon(t));
  }
  std::sort(expect.begin(), expect.end());
  for (int mode = 0; mode < 2; ++mode) {
    std::vector<uint32_t> out;
    MeshStripifier st;
    const bool ok = mode == 0 ? st.GenerateTriangleStripsWithPrimitiveRestart(mesh, uint32_t(0xffffffffu),
                                                                             std::back_inserter(out))
                              : st.GenerateTriangleStripsWithDegenerateTriangles(mesh, std::back_inserter(out));
    const char *mname = mode == 0 ? "restart" : "degenerate";
    ctx.count(std::string("strip_runs_") + mname);
    if (!ok) {
      if (mesh.num_faces() == 0) {
        ctx.count("strip_generate_false_on_empty_mesh");
        continue;
      }
      ctx.fail(std::string("strip:generate-returned-false|") + mname, cls);
      return false;
    }
    for (uint32_t x : out)
      if (!(mode == 0 && x == 0xffffffffu) && x >= mesh.num_points()) {
        ctx.fail(std::string("strip:index-out-of-range|") + mname, cls + " strip: " + show_idx(out));
        return false;
      }
    int nstrips = 0, nskipped = 0;
    std::vector<Tri> got = decode_strips(out, mode == 0, 0xffffffffu, &nstrips, &nskipped);
    if (got != expect) {
      // classify: same triangles ignoring orientation?
      auto unoriented = [](std::vector<Tri> v) {
        for (auto &t : v) std::sort(t.begin(), t.end());
        std::sort(v.begin(), v.end());
        return v;
      };
      const bool winding_only = unoriented(got) == unoriented(expect);
      ctx.fail(std::string("strip:") + (winding_only ? "wrong-winding|" : "triangles-differ|") + mname +
                   (st.num_strips() > 1 ? ",multiple-strips" : ",single-strip"),
               cls + " strip: " + show_idx(out) + " decoded " + std::to_string(got.size()) + " triangles, mesh has " +
                   std::to_string(expect.size()) + " non-degenerate");
      return false;
    }
    // outcome counters
    ctx.count(std::string("strips_emitted_") + mname, st.num_strips());
    if (st.num_strips() > 1) ctx.count(std::string("strip_cases_with_separator_") + mname);
    if (mode == 1 && st.num_strips() > 1) {
      // separators of 3 vs 4 degenerate triangles (parity fix-up)
      // 3 indices per first strip face + 1 per further face; everything
      // beyond that is separator material
      ctx.count("strip_degenerate_triangles_skipped", nskipped);
    }
    if ((int)mesh.num_faces() > st.num_strips() && st.num_strips() > 0) {
      ctx.count(std::string("strip_cases_with_multi_face_strip_") + mname);
      *multi_face_strip = true;
    }
  }
  return true;
}

// ---------------------------------------------------------------- cleanup
struct KeyInfo {
  int n_in = 0, n_out = 0, n_required = 0, n_deg_witness = 0;
  std::string pk;
};

bool face_keys(const Mesh &m, const std::vector<int> &all, uint32_t f, std::string *K, std::string *PK, bool *posdeg,
               std::string *err) {
  const Mesh::Face &face = m.face(FaceIndex(f));
  std::string c[3], p[3];
  uint32_t pe[3];
  for (int k = 0; k < 3; ++k) {
    if (!rg::point_tuple(m, all, face[k].value(), &c[k], err)) return false;
    if (!rg::point_tuple(m, {0}, face[k].value(), &p[k], err)) return false;
    if (!rg::mapped(m.attribute(0), face[k].value(), &pe[k], err)) return false;
  }
  *K = rg::canon_tri(c[0], c[1], c[2]);
  *PK = rg::canon_tri(p[0], p[1], p[2]);
  *posdeg = pe[0] == pe[1] || pe[1] == pe[2] || pe[0] == pe[2];
  return true;
}

// One clean-up run judged by the sandwich. Returns false after reporting.
bool check_cleanup(const Mesh &mesh, int opt_mask, const std::string &cls, mc::Ctx &ctx, bool *removed_any) {
  MeshCleanupOptions opt;
  opt.remove_degenerated_faces = opt_mask & 1;
  opt.remove_duplicate_faces = opt_mask & 2;
  opt.remove_unused_attributes = opt_mask & 4;
  opt.make_geometry_manifold = opt_mask & 8;
  const std::string oname = std::string("opts=") + (opt_mask & 1 ? "D" : "-") + (opt_mask & 2 ? "U" : "-") +
                            (opt_mask & 4 ? "A" : "-") + (opt_mask & 8 ? "M" : "-");
  const std::vector<int> all = rg::all_atts(mesh);
  std::string err;

  // Input side, per face in order.
  const uint32_t nf = mesh.num_faces();
  std::map<std::string, KeyInfo> keys;
  std::vector<std::string> K(nf), PK(nf);
  std::vector<char> posdeg(nf), removed_ref(nf, 0);
  for (uint32_t f = 0; f < nf; ++f) {
    bool d;
    if (!face_keys(mesh, all, f, &K[f], &PK[f], &d, &err)) {
      ctx.fail("cleanup:input-invalid", err);
      return false;
    }
    posdeg[f] = d;
    KeyInfo &ki = keys[K[f]];
    ki.n_in++;
    ki.pk = PK[f];
  }
  // Required removals (iii).
  if (opt.remove_degenerated_faces)
    for (uint32_t f = 0; f < nf; ++f)
      if (posdeg[f]) {
        removed_ref[f] = 1;
        keys[K[f]].n_required++;
        keys[K[f]].n_deg_witness++;
      }
  if (opt.remove_duplicate_faces) {
    std::set<Tri> seen;
    for (uint32_t f = 0; f < nf; ++f) {
      if (removed_ref[f]) continue;
      const Mesh::Face &face = mesh.face(FaceIndex(f));
      Tri t{face[0].value(), face[1].value(), face[2].value()};
      if (degenerate(t)) continue;  // only triples of three distinct ids are required removals
      if (!seen.insert(canon(t)).second) {
        removed_ref[f] = 2;
        keys[K[f]].n_required++;
      }
    }
  }

  std::unique_ptr<Mesh> out = rg::clone_mesh(mesh);
  const Status st = MeshCleanup::Cleanup(out.get(), opt);
  ctx.count("cleanup_runs");
  if (!st.ok()) {
    ctx.fail("cleanup:returned-error|" + oname, cls + " " + st.error_msg_string());
    return false;
  }
  if (out->num_attributes() != mesh.num_attributes()) {
    ctx.fail("cleanup:attribute-count-changed|" + oname, cls);
    return false;
  }
  for (int a = 0; a < mesh.num_attributes(); ++a)
    if (!rg::desc_of(out->attribute(a)).same_layout(rg::desc_of(mesh.attribute(a)))) {
      ctx.fail("cleanup:attribute-descriptor-changed|" + oname, cls);
      return false;
    }
  // Output side.
  const uint32_t no = out->num_faces();
  std::set<std::string> out_pk;
  std::set<Tri> out_classes;
  for (uint32_t g = 0; g < no; ++g) {
    std::string k, pk;
    bool d;
    if (!face_keys(*out, all, g, &k, &pk, &d, &err)) {
      ctx.fail("cleanup:output-structurally-invalid|" + oname, cls + " face " + std::to_string(g) + ": " + err);
      return false;
    }
    out_pk.insert(pk);
    auto it = keys.find(k);
    if (it == keys.end() || ++it->second.n_out > it->second.n_in) {
      ctx.fail("cleanup:output-triangle-not-in-input|" + oname,  // (i)
               cls + " output face " + std::to_string(g) + " corner values " + rg::hexs(k));
      return false;
    }
    if (opt.remove_degenerated_faces && d) {
      ctx.fail("cleanup:position-degenerate-face-kept|" + oname, cls + " output face " + std::to_string(g));  // (iii)
      return false;
    }
    const Mesh::Face &face = out->face(FaceIndex(g));
    Tri t{face[0].value(), face[1].value(), face[2].value()};
    if (opt.remove_duplicate_faces && !degenerate(t) && !out_classes.insert(canon(t)).second) {
      ctx.fail("cleanup:duplicate-point-triple-kept|" + oname, cls + " output face " + std::to_string(g));  // (iii)
      return false;
    }
  }
  uint32_t rem_deg = 0, rem_dup = 0;
  for (auto &kv : keys) {
    const KeyInfo &ki = kv.second;
    if (ki.n_out > ki.n_in - ki.n_required) {  // (iii) on the multiset
      ctx.fail(std::string("cleanup:required-removal-missing|") + oname +
                   (ki.n_deg_witness ? ",degenerate" : ",duplicate-up-to-rotation"),
               cls + " triangle " + rg::hexs(kv.first) + " in " + std::to_string(ki.n_in) + " out " +
                   std::to_string(ki.n_out) + " required removals " + std::to_string(ki.n_required));
      return false;
    }
    const int removed = ki.n_in - ki.n_out;
    if (removed > ki.n_deg_witness) {  // (ii) a removal that is not a degenerate one needs a kept twin
      if (!opt.remove_duplicate_faces || !out_pk.count(ki.pk)) {
        ctx.fail("cleanup:face-removed-without-witness|" + oname,
                 cls + " triangle " + rg::hexs(kv.first) + " in " + std::to_string(ki.n_in) + " out " +
                     std::to_string(ki.n_out));
        return false;
      }
    }
    rem_deg += std::min(removed, ki.n_deg_witness);
    rem_dup += removed - std::min(removed, ki.n_deg_witness);
  }
  // (iv)
  if (opt.remove_unused_attributes) {
    std::vector<char> used(out->num_points(), 0);
    for (uint32_t g = 0; g < no; ++g)
      for (int k = 0; k < 3; ++k) used[out->face(FaceIndex(g))[k].value()] = 1;
    for (uint32_t p = 0; p < out->num_points(); ++p)
      if (!used[p]) {
        ctx.fail("cleanup:unused-point-remains|" + oname, cls + " point " + std::to_string(p));
        return false;
      }
    for (int a = 0; a < out->num_attributes(); ++a) {
      const PointAttribute *att = out->attribute(a);
      std::vector<char> vused(att->size(), 0);
      for (uint32_t p = 0; p < out->num_points(); ++p) {
        uint32_t avi;
        if (!rg::mapped(att, p, &avi, &err)) {
          ctx.fail("cleanup:output-structurally-invalid|" + oname, cls + " " + err);
          return false;
        }
        vused[avi] = 1;
      }
      for (uint32_t i = 0; i < att->size(); ++i)
        if (!vused[i]) {
          ctx.fail("cleanup:unused-value-remains|" + oname, cls + " attribute " + std::to_string(a) + " entry " + std::to_string(i));
          return false;
        }
    }
    if (out->num_points() < mesh.num_points()) ctx.count("cleanup_points_removed_unused", mesh.num_points() - out->num_points());
    for (int a = 0; a < out->num_attributes(); ++a)
      if (out->attribute(a)->size() < mesh.attribute(a)->size())
        ctx.count("cleanup_values_removed_unused", mesh.attribute(a)->size() - out->attribute(a)->size());
  }
  if (rem_deg) ctx.count("cleanup_faces_removed_degenerate", rem_deg);
  if (rem_dup) ctx.count("cleanup_faces_removed_duplicate", rem_dup);
  if (rem_deg || rem_dup) *removed_any = true;
  if (no == nf) ctx.count("cleanup_runs_keeping_all_faces");
  // duplicates in draco's sense that the header's wording would also remove
  // are not required: count how often the two notions differ
  if (opt.remove_duplicate_faces && !opt.remove_degenerated_faces) {
    std::map<std::string, int> by_pk;
    for (uint32_t g = 0; g < no; ++g) {
      std::string k, pk;
      bool d;
      face_keys(*out, all, g, &k, &pk, &d, &err);
      by_pk[pk]++;
    }
    for (auto &kv : by_pk)
      if (kv.second > 1) {
        ctx.count("cleanup_kept_faces_equal_in_position_only");
        break;
      }
  }
  return true;
}

// ------------------------------------------------------------------- soups
void check_soup(const Soup &s, mc::Ctx &ctx) {
  const int nc = 3 * s.F;
  const std::string cls = input_class(s);
  // Expected geometry from the case description.
  std::vector<std::string> tuple(nc);
  for (int c = 0; c < nc; ++c) {
    tuple[c] = pos_bytes(s.pos[c]);
    for (auto &e : s.extra) tuple[c] += type_info(e.spec.type).val[e.value_at(c)];
  }
  rg::Geom expect;
  for (int f = 0; f < s.F; ++f) expect.elems.push_back(rg::canon_tri(tuple[3 * f], tuple[3 * f + 1], tuple[3 * f + 2]));
  expect.finish();

  // --- builder
  TriangleSoupMeshBuilder b;
  b.Start(s.F);
  const int pa = b.AddAttribute(GeometryAttribute::POSITION, 3, DT_FLOAT32);
  std::vector<int> ids;
  for (auto &e : s.extra) {
    const TypeInfo &ti = type_info(e.spec.type);
    ids.push_back(b.AddAttribute(ti.at, ti.comps, ti.dt));
  }
  for (int f = 0; f < s.F; ++f) {
    b.SetAttributeValuesForFace(pa, FaceIndex(f), kPosBits[s.pos[3 * f]], kPosBits[s.pos[3 * f + 1]],
                                kPosBits[s.pos[3 * f + 2]]);
    for (size_t i = 0; i < s.extra.size(); ++i) {
      const Extra &e = s.extra[i];
      const TypeInfo &ti = type_info(e.spec.type);
      if (e.spec.per_face)
        b.SetPerFaceAttributeValueForFace(ids[i], FaceIndex(f), ti.val[e.value_at(3 * f)].data());
      else
        b.SetAttributeValuesForFace(ids[i], FaceIndex(f), ti.val[e.value_at(3 * f)].data(),
                                    ti.val[e.value_at(3 * f + 1)].data(), ti.val[e.value_at(3 * f + 2)].data());
    }
  }
  std::unique_ptr<Mesh> mesh = b.Finalize();
  ctx.count("soups_built");
  if (!mesh) {
    ctx.fail("builder:finalize-returned-null|" + cls, "");
    return;
  }
  if (mesh->num_attributes() != 1 + (int)s.extra.size() || (int)mesh->num_faces() != s.F) {
    ctx.fail("builder:wrong-attribute-or-face-count|" + cls, "");
    return;
  }
  {
    const PointAttribute *p = mesh->attribute(0);
    bool ok = p->attribute_type() == GeometryAttribute::POSITION && p->data_type() == DT_FLOAT32 && p->num_components() == 3;
    for (size_t i = 0; i < s.extra.size(); ++i) {
      const TypeInfo &ti = type_info(s.extra[i].spec.type);
      const PointAttribute *a = mesh->attribute(1 + i);
      ok = ok && a->attribute_type() == ti.at && a->data_type() == ti.dt && a->num_components() == ti.comps;
    }
    if (!ok) {
      ctx.fail("builder:attribute-descriptor-wrong|" + cls, "");
      return;
    }
  }
  const std::vector<int> all = rg::all_atts(*mesh);
  std::string err;
  rg::Geom got;
  if (!rg::from_mesh(*mesh, all, &got, &err)) {
    ctx.fail("builder:mesh-structurally-invalid|" + cls, err);
    return;
  }
  if (got != expect) {
    ctx.fail("builder:geometry-changed|" + cls, "expected " + rg::show(expect) + " got " + rg::show(got));
    return;
  }
  // the builder deduplicates: no two identical values / points may remain
  const bool nodup = check_no_duplicates(*mesh, "TriangleSoupMeshBuilder::Finalize", ctx);
  if (!nodup) ctx.count("soups_with_duplicates_left");

  std::string snap0;
  if (!rg::snapshot(*mesh, mesh.get(), &snap0, &err)) {
    ctx.fail("builder:mesh-structurally-invalid|" + cls, err);
    return;
  }
  ctx.state(mc::hash_bytes(snap0.data(), snap0.size()));
  if ((int)mesh->num_points() < nc) ctx.count("soups_where_points_were_merged");
  if (mesh->attribute(0)->size() < (size_t)nc) ctx.count("soups_where_position_values_were_merged");
  {
    // +0 / -0 and the two NaN payloads must stay distinct values
    std::set<int> used(s.pos, s.pos + nc);
    if (mesh->attribute(0)->size() != used.size() && nodup) {
      ctx.fail("dedup:position-values-merged-or-split|" + cls,
               std::to_string(used.size()) + " distinct byte patterns in, " + std::to_string(mesh->attribute(0)->size()) +
                   " entries out");
      return;
    }
    if (used.count(0) && used.count(1)) ctx.count("soups_with_plus_and_minus_zero_kept_apart");
    if (used.count(3) && used.count(4)) ctx.count("soups_with_two_nan_payloads_kept_apart");
    bool nan_repeat = false;
    for (int k = 3; k < 5; ++k) nan_repeat |= std::count(s.pos, s.pos + nc, k) > 1;
    if (nan_repeat) ctx.count("soups_with_equal_nan_corners_merged");
  }

  // --- dedup idempotence on the builder's result
  {
    std::unique_ptr<Mesh> c = rg::clone_mesh(*mesh);
    std::string sc;
    if (!rg::snapshot(*c, c.get(), &sc, &err) || sc != snap0) {
      ctx.fail("harness:clone-differs-from-original", err);
      return;
    }
    for (int round = 0; round < 2; ++round) {
      if (!apply_dedup(c.get(), cls, ctx)) return;
      if (!rg::snapshot(*c, c.get(), &sc, &err)) {
        ctx.fail("dedup:result-structurally-invalid|" + cls, err);
        return;
      }
      if (sc != snap0) {
        ctx.fail("dedup:not-idempotent|mesh," + cls, "application " + std::to_string(round + 2) + " changed the mesh");
        return;
      }
    }
  }
  // --- the same soup assembled without the builder, dedup applied by hand
  // (observes the intermediate state: values deduplicated, points not yet)
  {
    std::unique_ptr<Mesh> raw(new Mesh());
    raw->SetNumFaces(s.F);
    raw->set_num_points(nc);
    for (int a = 0; a < 1 + (int)s.extra.size(); ++a) {
      GeometryAttribute va;
      if (a == 0)
        va.Init(GeometryAttribute::POSITION, nullptr, 3, DT_FLOAT32, false, 12, 0);
      else {
        const TypeInfo &ti = type_info(s.extra[a - 1].spec.type);
        va.Init(ti.at, nullptr, ti.comps, ti.dt, false, DataTypeLength(ti.dt) * ti.comps, 0);
      }
      raw->AddAttribute(va, true, nc);
    }
    size_t off = 0;
    for (int c = 0; c < nc; ++c) {
      off = 0;
      for (int a = 0; a < raw->num_attributes(); ++a) {
        const size_t n = rg::value_size(raw->attribute(a));
        raw->attribute(a)->SetAttributeValue(AttributeValueIndex(c), tuple[c].data() + off);
        off += n;
      }
    }
    for (int f = 0; f < s.F; ++f)
      raw->SetFace(FaceIndex(f), {{PointIndex(3 * f), PointIndex(3 * f + 1), PointIndex(3 * f + 2)}});
    rg::Geom g;
    if (!rg::from_mesh(*raw, all, &g, &err) || g != expect) {
      ctx.fail("harness:raw-mesh-differs-from-case", err);
      return;
    }
    if (!raw->DeduplicateAttributeValues()) {
      ctx.fail("dedup:values-returned-false", cls);
      return;
    }
    if (!rg::from_mesh(*raw, all, &g, &err)) {
      ctx.fail("dedup:result-structurally-invalid|after-values," + cls, err);
      return;
    }
    if (g != expect) {
      ctx.fail("dedup:values-changed-geometry|" + cls, "expected " + rg::show(expect) + " got " + rg::show(g));
      return;
    }
    raw->DeduplicatePointIds();
    ctx.count("dedup_applications");
    if (!rg::from_mesh(*raw, all, &g, &err)) {
      ctx.fail("dedup:result-structurally-invalid|after-point-ids," + cls, err);
      return;
    }
    if (g != expect) {
      ctx.fail("dedup:point-ids-changed-geometry|" + cls, "expected " + rg::show(expect) + " got " + rg::show(g));
      return;
    }
    check_no_duplicates(*raw, "Mesh::DeduplicateAttributeValues+DeduplicatePointIds", ctx);
  }

  // --- clean-up, every option subset
  bool removed_any = false;
  for (int mask = 0; mask < 16; ++mask)
    if (!check_cleanup(*mesh, mask, cls, ctx, &removed_any)) return;

  // --- strips
  bool multi = false;
  if (!check_strips(*mesh, cls, ctx, &multi)) return;

  if ((int)mesh->num_points() < nc || removed_any || multi) ctx.nontrivial_unique();
}

struct SoupSpace {
  int F;
  std::vector<int> alpha;  // position alphabet (indices into kPosBits)
  std::vector<ExtraSpec> extras;
  uint64_t size() const {
    uint64_t n = 1;
    for (int i = 0; i < 3 * F; ++i) n *= alpha.size();
    for (auto &e : extras) n <<= (e.per_face ? F : 3 * F);
    return n;
  }
  Soup decode(uint64_t idx) const {
    Soup s;
    s.F = F;
    for (auto &e : extras) {
      const int nb = e.per_face ? F : 3 * F;
      Extra x;
      x.spec = e;
      x.bits = idx & ((1u << nb) - 1);
      idx >>= nb;
      s.extra.push_back(x);
    }
    for (int c = 0; c < 3 * F; ++c) {
      s.pos[c] = alpha[idx % alpha.size()];
      idx /= alpha.size();
    }
    return s;
  }
};

void add_soup_space(mc::Runner &R, const std::string &name, SoupSpace ss, bool quick, bool thorough) {
  mc::Space sp;
  sp.name = name;
  sp.size = ss.size();
  sp.quick = quick;
  sp.thorough = thorough;
  sp.run = [ss](uint64_t idx, mc::Ctx &ctx) { check_soup(ss.decode(idx), ctx); };
  sp.describe = [ss](uint64_t idx) { return show(ss.decode(idx)); };
  sp.klass = [ss](uint64_t idx) { return input_class(ss.decode(idx)); };
  R.add(sp);
}

// ------------------------------------------------------------ point clouds
struct Cloud {
  int N = 0;
  int pos[4] = {0};
  int type = -1;  // second attribute type or -1
  uint32_t bits = 0;
  bool dedup = false;
  int setter = 0;  // 0 per point, 1 all points stride 0, 2 all points padded stride
};

std::string show(const Cloud &c) {
  std::string o = "cloud N=" + std::to_string(c.N) + " positions:";
  for (int i = 0; i < c.N; ++i) o += std::string(" ") + kPosName[c.pos[i]];
  if (c.type >= 0) {
    o += std::string(" +") + type_info(c.type).name + " values:";
    for (int i = 0; i < c.N; ++i) o += char('0' + ((c.bits >> i) & 1));
  }
  o += c.dedup ? " Finalize(true)" : " Finalize(false)";
  o += c.setter == 0 ? " SetAttributeValueForPoint" : c.setter == 1 ? " SetAttributeValuesForAllPoints(stride 0)"
                                                                   : " SetAttributeValuesForAllPoints(padded stride)";
  return o;
}

std::string input_class(const Cloud &c) {
  std::string k = "N" + std::to_string(c.N);
  if (c.type >= 0) k += std::string(",") + type_info(c.type).name;
  k += c.dedup ? ",dedup" : ",nodedup";
  k += ",setter" + std::to_string(c.setter);
  return k;
}

void check_cloud(const Cloud &c, mc::Ctx &ctx) {
  const std::string cls = input_class(c);
  std::vector<std::string> tuple(c.N);
  rg::Geom expect;
  for (int i = 0; i < c.N; ++i) {
    tuple[i] = pos_bytes(c.pos[i]);
    if (c.type >= 0) tuple[i] += type_info(c.type).val[(c.bits >> i) & 1];
    expect.elems.push_back(tuple[i]);
  }
  expect.finish();
  const rg::Geom expect_set = expect.as_set();

  PointCloudBuilder b;
  b.Start(c.N);
  std::vector<int> ids;
  ids.push_back(b.AddAttribute(GeometryAttribute::POSITION, 3, DT_FLOAT32));
  if (c.type >= 0) {
    const TypeInfo &ti = type_info(c.type);
    ids.push_back(b.AddAttribute(ti.at, ti.comps, ti.dt));
  }
  size_t off = 0;
  for (size_t a = 0; a < ids.size(); ++a) {
    const size_t n = a == 0 ? 12 : type_info(c.type).val[0].size();
    if (c.setter == 0) {
      for (int i = 0; i < c.N; ++i) b.SetAttributeValueForPoint(ids[a], PointIndex(i), tuple[i].data() + off);
    } else {
      const size_t stride = c.setter == 1 ? n : n + 3;
      std::string buf(stride * c.N + 1, '\x5a');
      for (int i = 0; i < c.N; ++i) memcpy(&buf[i * stride], tuple[i].data() + off, n);
      b.SetAttributeValuesForAllPoints(ids[a], buf.data(), c.setter == 1 ? 0 : (int)stride);
    }
    off += n;
  }
  std::unique_ptr<PointCloud> pc = b.Finalize(c.dedup);
  ctx.count("clouds_built");
  if (!pc) {
    ctx.fail("pcbuilder:finalize-returned-null|" + cls, "");
    return;
  }
  if (pc->num_attributes() != (int)ids.size()) {
    ctx.fail("pcbuilder:wrong-attribute-count|" + cls, "");
    return;
  }
  const std::vector<int> all = rg::all_atts(*pc);
  std::string err;
  rg::Geom got;
  if (!rg::from_cloud(*pc, all, &got, &err)) {
    ctx.fail("pcbuilder:cloud-structurally-invalid|" + cls, err);
    return;
  }
  if (!c.dedup) {
    // no deduplication requested: the multiset of points is the input
    if (got != expect) {
      ctx.fail("pcbuilder:geometry-changed|" + cls, "expected " + rg::show(expect) + " got " + rg::show(got));
      return;
    }
    if (!apply_dedup(pc.get(), cls, ctx)) return;
    if (!rg::from_cloud(*pc, all, &got, &err)) {
      ctx.fail("dedup:result-structurally-invalid|cloud," + cls, err);
      return;
    }
  }
  // deduplicated (by Finalize(true) or by hand): the documented removal is
  // "duplicate points", so the set of distinct points is unchanged ...
  if (got.as_set() != expect_set) {
    ctx.fail("dedup:cloud-geometry-changed|" + cls, "expected set " + rg::show(expect_set) + " got " + rg::show(got));
    return;
  }
  // ... and no two identical values / points remain
  const bool nodup = check_no_duplicates(*pc, c.dedup ? "PointCloudBuilder::Finalize(true)" : "PointCloud dedup", ctx);
  if (nodup && got != expect_set) {
    ctx.fail("dedup:identical-points-remain|by-value," + cls, "got " + rg::show(got));
    return;
  }
  if (got.elems.size() < expect.elems.size()) ctx.count("clouds_where_points_were_merged");
  std::string s1, s2;
  if (!rg::snapshot(*pc, nullptr, &s1, &err)) {
    ctx.fail("dedup:result-structurally-invalid|cloud," + cls, err);
    return;
  }
  ctx.state(mc::hash_bytes(s1.data(), s1.size(), 77));
  for (int round = 0; round < 2; ++round) {
    if (!apply_dedup(pc.get(), cls, ctx)) return;
    if (!rg::snapshot(*pc, nullptr, &s2, &err)) {
      ctx.fail("dedup:result-structurally-invalid|cloud," + cls, err);
      return;
    }
    if (s2 != s1) {
      ctx.fail("dedup:not-idempotent|cloud," + cls, "a further application changed the point cloud");
      return;
    }
  }
  if (got.elems.size() < expect.elems.size()) ctx.nontrivial_unique();
}

void add_cloud_space(mc::Runner &R, int N) {
  // digits: dedup(2) setter(3) second-attribute config (1 + 4*2^N) positions 5^N
  const uint64_t cfg = 1 + 4 * (1ull << N);
  uint64_t npos = 1;
  for (int i = 0; i < N; ++i) npos *= 5;
  auto decode = [=](uint64_t idx) {
    Cloud c;
    c.N = N;
    c.dedup = idx % 2;
    idx /= 2;
    c.setter = idx % 3;
    idx /= 3;
    const uint64_t k = idx % cfg;
    idx /= cfg;
    if (k > 0) {
      c.type = (k - 1) >> N;
      c.bits = (k - 1) & ((1u << N) - 1);
    }
    for (int i = 0; i < N; ++i) {
      c.pos[i] = idx % 5;
      idx /= 5;
    }
    return c;
  };
  mc::Space sp;
  sp.name = "points_N" + std::to_string(N);
  sp.size = 2 * 3 * cfg * npos;
  sp.run = [=](uint64_t idx, mc::Ctx &ctx) { check_cloud(decode(idx), ctx); };
  sp.describe = [=](uint64_t idx) { return show(decode(idx)); };
  sp.klass = [=](uint64_t idx) { return input_class(decode(idx)); };
  R.add(sp);
}

}  // namespace

int main(int argc, char **argv) {
  mc::Runner R(argc, argv, "C14");
  R.level = "model_checking";
  R.distinct_bits = 25;
  R.rule =
      "every triangle soup of F faces whose 3F corner positions are drawn from 5 float bit patterns {(0,0,0), (0,0,-0.0), "
      "(1,0,0), (0,NaN_a,0), (0,NaN_b,0)} combined with every per-corner / per-face assignment of a 2-value second "
      "attribute (float32x3, uint8x4, int32x1, int16x5), and every point set of N <= 4 points over the same alphabets "
      "x 3 setter paths x Finalize(true|false); each is built with the real builders, deduplicated again twice, cleaned "
      "with all 16 MeshCleanupOptions subsets and stripified in both output modes. states = distinct resulting "
      "mesh/point-cloud structures (entries, point->entry maps, faces); non-trivial = inputs (distinct by "
      "construction) for which the builder merged at least two corners/points into one, or a clean-up run removed a "
      "face, or a strip covers more than one face";
  R.explanation =
      "stateless exhaustive enumeration of the input spaces on the real draco utilities; oracle = reference triangle / "
      "point multiset computed from the case description (byte-exact), the clean-up sandwich (i)-(iv) of DESIGN C14, a "
      "reference strip decoder, and structural snapshots for idempotence";
  R.assumptions = {
      "F <= 3 faces (F = 3 with a second attribute: per-face uint8x4 over the full position alphabet, per-corner "
      "float32x3 over the 3-letter alphabet {+0,-0,NaN_a}); N <= 4 points; 1, 2 or 5 attributes",
      "positions are float32x3 (the type every draco loader produces); the second attribute covers float32x3, uint8x4, "
      "int32x1 and a 5-component int16",
      "MeshCleanup duplicate faces are judged by the sandwich of DESIGN C14 because header and code disagree on what a "
      "duplicate is",
      "DRACO_DCHECK is compiled out (as in every shipped configuration)"};
  R.transition_counters = {"soups_built", "clouds_built", "cleanup_runs", "strip_runs_restart", "strip_runs_degenerate",
                           "dedup_applications"};

  const std::vector<int> A5 = {0, 1, 2, 3, 4};
  const std::vector<int> A3 = {0, 1, 3};
  const char *tn[4] = {"f32x3", "u8x4", "i32x1", "i16x5"};
  // F = 0: the empty soup, without and with a second attribute
  add_soup_space(R, "soup_F0_pos", {0, A5, {}}, true, true);
  for (int t = 0; t < 4; ++t) add_soup_space(R, std::string("soup_F0_") + tn[t], {0, A5, {{t, false}}}, true, true);
  for (int F = 1; F <= 2; ++F) {
    const std::string p = "soup_F" + std::to_string(F);
    add_soup_space(R, p + "_pos", {F, A5, {}}, true, true);
    for (int t = 0; t < 4; ++t) {
      add_soup_space(R, p + "_face_" + tn[t], {F, A5, {{t, true}}}, true, true);
      // quick keeps the full per-corner product for the deduplicated float
      // type and the 5-component type; the two other integer types differ
      // only in the template instantiation and run in thorough
      const bool q = F == 1 || t == 0 || t == 3;
      add_soup_space(R, p + "_corner_" + tn[t], {F, A5, {{t, false}}}, q, true);
    }
  }
  // five attributes at once (per-face values), 3-letter position alphabet
  add_soup_space(R, "soup_F2_5atts_face", {2, A3, {{0, true}, {1, true}, {2, true}, {3, true}}}, true, true);
  add_soup_space(R, "soup_F1_5atts_corner", {1, A5, {{0, false}, {1, false}, {2, false}, {3, false}}}, true, true);
  // F = 3 (thorough)
  add_soup_space(R, "soup_F3_pos", {3, A5, {}}, false, true);
  add_soup_space(R, "soup_F3_face_u8x4", {3, A5, {{1, true}}}, false, true);
  add_soup_space(R, "soup_F3_corner_f32x3_pos3", {3, A3, {{0, false}}}, false, true);
  for (int N = 0; N <= 4; ++N) add_cloud_space(R, N);

  R.require("soups_where_points_were_merged", 1);
  R.require("soups_with_plus_and_minus_zero_kept_apart", 1);
  R.require("soups_with_two_nan_payloads_kept_apart", 1);
  R.require("soups_with_equal_nan_corners_merged", 1);
  R.require("cleanup_faces_removed_degenerate", 1);
  R.require("cleanup_faces_removed_duplicate", 1);
  R.require("cleanup_points_removed_unused", 1);
  R.require("cleanup_values_removed_unused", 1);
  R.require("strip_cases_with_separator_restart", 1);
  R.require("strip_cases_with_separator_degenerate", 1);
  R.require("strip_cases_with_multi_face_strip_restart", 1);
  R.require("clouds_where_points_were_merged", 1);
  return R.main();
}
