// C01 (encode/decode round trip) and C09 (reported counts) over the bounded
// geometry spaces S1..S5 of DESIGN.md §3. C09 = same executions with
// tracking enabled and the count oracle only (--x-c09).
#include "checks/roundtrip_oracle.h"
#include "mc/alloc_env.h"

using namespace mcg;
using gs::Topo;

namespace {

std::vector<Topo> g_topos_f2;      // F <= 2 incl. the empty list
std::vector<Topo> g_topos_f3i4;    // F == 3 over <= 4 ids
std::vector<Topo> g_topos_f3;      // F == 3 over <= 5 ids
std::vector<Topo> g_topos_f4;      // F == 4 over <= 5 ids
std::vector<std::pair<std::string, Topo>> g_named;

bool g_c09 = false;

const int kSpeedsQuick[] = {0, 3, 6, 10};
const int kSpeedsThorough[] = {0, 1, 3, 5, 6, 8, 10};

struct Speeds {
  const int *v;
  int n;
};
Speeds speeds(bool full) { return full ? Speeds{kSpeedsThorough, 7} : Speeds{kSpeedsQuick, 4}; }

// ------------------------------------------------------------------ S1
void add_s1(mc::Runner &R, const std::string &name, const std::vector<Topo> *topos, std::vector<int> isolated,
            std::vector<int> poskinds, bool full_speeds, bool quick, bool thorough) {
  const Speeds sp = speeds(full_speeds);
  mc::Radix rx{(uint64_t)sp.n, 5, (uint64_t)poskinds.size(), (uint64_t)isolated.size(), (uint64_t)topos->size()};
  auto make = [=](uint64_t idx, GeomDef *g, EncCfg *c) {
    auto d = rx.decode(idx);
    *g = gs::s1_mesh((*topos)[d[4]], isolated[d[3]], (gs::PosKind)poskinds[d[2]]);
    *c = gs::mesh_cfg((int)d[1], sp.v[d[0]]);
    c->qbits = {poskinds[d[2]] == gs::POS_F32_Q ? 11 : 0};
  };
  mc::Space s;
  s.name = name;
  s.size = rx.size();
  s.quick = quick;
  s.thorough = thorough;
  s.run = [=](uint64_t idx, mc::Ctx &ctx) {
    GeomDef g;
    EncCfg c;
    make(idx, &g, &c);
    auto r = rt::check_roundtrip(g, c, ctx, "", !g_c09, g_c09);
    if (r.decoded && !g.faces.empty()) ctx.nontrivial_unique();
  };
  s.describe = [=](uint64_t idx) {
    GeomDef g;
    EncCfg c;
    make(idx, &g, &c);
    return text(g) + " " + text(c);
  };
  R.add(s);
}

// ------------------------------------------------------------------ S2
struct S2Topos {
  std::vector<Topo> topos;
  std::vector<uint64_t> offset;  // cumulative number of (topo,bits) pairs
  uint64_t total = 0;
  void add(const Topo &t) {
    topos.push_back(t);
    offset.push_back(total);
    total += 1ull << (3 * t.size());
  }
  void locate(uint64_t k, int *ti, uint32_t *bits) const {
    int lo = 0, hi = (int)topos.size() - 1;
    while (lo < hi) {
      int mid = (lo + hi + 1) / 2;
      if (offset[mid] <= k) lo = mid;
      else hi = mid - 1;
    }
    *ti = lo;
    *bits = (uint32_t)(k - offset[lo]);
  }
};
S2Topos g_s2_small, g_s2_named;

void add_s2(mc::Runner &R, const std::string &name, const S2Topos *T, std::vector<int> poskinds, std::vector<int> skinds,
            std::vector<int> method_kinds, bool full_speeds, bool quick, bool thorough, bool two_speeds = false) {
  static const int kTwo[] = {0, 6};
  const Speeds sp = two_speeds ? Speeds{kTwo, 2} : speeds(full_speeds);
  mc::Radix rx{(uint64_t)sp.n, 3, (uint64_t)method_kinds.size(), (uint64_t)skinds.size(), (uint64_t)poskinds.size(), 2, T->total};
  auto make = [=](uint64_t idx, GeomDef *g, EncCfg *c, bool *dedup) {
    auto d = rx.decode(idx);
    int ti;
    uint32_t bits;
    T->locate(d[6], &ti, &bits);
    *dedup = d[5] == 0;
    const gs::PosKind pk = (gs::PosKind)poskinds[d[4]];
    const gs::SeamAttKind sk = (gs::SeamAttKind)skinds[d[3]];
    *g = gs::s2_mesh(T->topos[ti], bits, *dedup, pk, sk);
    *c = gs::mesh_cfg(method_kinds[d[2]], sp.v[d[0]]);
    c->split_on_seams = (int)d[1] - 1;
    c->qbits = {pk == gs::POS_F32_Q ? 11 : 0, sk == gs::SEAM_TEX_Q ? 10 : sk == gs::SEAM_NORMAL_Q ? 8 : 0};
  };
  mc::Space s;
  s.name = name;
  s.size = rx.size();
  s.quick = quick;
  s.thorough = thorough;
  s.run = [=](uint64_t idx, mc::Ctx &ctx) {
    GeomDef g;
    EncCfg c;
    bool dedup;
    make(idx, &g, &c, &dedup);
    // Input class for known finding: points that are not deduplicated (several
    // points with identical entries in every attribute).
    const std::string klass = dedup ? "" : "points-not-deduplicated";
    auto r = rt::check_roundtrip(g, c, ctx, g_c09 ? klass : "", !g_c09, g_c09);
    if (r.decoded) {
      bool seam = false;
      for (size_t i = 0; i + 1 < g.atts[1].map.size(); ++i) seam = seam || g.atts[1].map[i] != g.atts[1].map[i + 1];
      if (seam) {
        ctx.count("cases_with_two_attribute_values");
        ctx.nontrivial_unique();
      }
    }
  };
  s.describe = [=](uint64_t idx) {
    GeomDef g;
    EncCfg c;
    bool dedup;
    make(idx, &g, &c, &dedup);
    return text(g) + " " + text(c);
  };
  R.add(s);
}

}  // namespace

int main(int argc, char **argv) {
  bool c09 = false;
  for (int i = 1; i < argc; ++i) c09 = c09 || std::string(argv[i]) == "--x-c09";
  g_c09 = c09;
  mc::Runner R(argc, argv, c09 ? "C09" : "C01");
  R.level = "model_checking";
  const bool asan = R.flag("asan");
  R.distinct_bits = 24;

  for (int F = 0; F <= 2; ++F)
    for (auto &t : gs::canonical_topologies(F, 5)) g_topos_f2.push_back(t);
  g_topos_f3i4 = gs::canonical_topologies(3, 4);
  g_topos_f3 = gs::canonical_topologies(3, 5);
  if (R.thorough() && !asan) g_topos_f4 = gs::canonical_topologies(4, 5);
  g_named = gs::named_families();
  for (auto &t : g_topos_f2)
    if (!t.empty()) g_s2_small.add(t);
  for (auto &n : g_named) g_s2_named.add(n.second);

  R.rule =
      "spaces S1 (all triangle lists up to vertex relabelling, F<=4 over <=5 ids, with/without an isolated point, 4 position "
      "kinds), S2 (all two-value per-corner attribute assignments = every seam pattern on all F<=2 topologies and named F=3,4 "
      "families, deduplicated and non-deduplicated points), each x connectivity method x split-on-seams x speed; every case is "
      "encoded and decoded by the real code; states = distinct encoded streams; non-trivial = cases that encode and decode ok "
      "and have at least one face (S1) / two different attribute values (S2)";
  R.explanation = c09 ? "same executions with SetTrackEncodedProperties(true); oracle: reported point/face counts == decoded counts"
                      : "oracle: reference geometry model (attribute set by unique id; ordered equality for sequential methods; multiset "
                        "sandwich T_nondegenerate <= T_decoded <= T_source for Edgebreaker; quantized attributes compared with the "
                        "declared quantization of the source value)";
  R.assumptions = {"meshes larger than the bounds are represented only by the threshold families (S5)",
                   "expected values of quantized attributes use the parameters the stream declares; the numeric quality of the "
                   "quantizers is decided by C04/C07"};
  R.transition_counters = {"encode_calls", "decode_ok"};

  if (!asan) {
    // -O2 build: the large products
    add_s1(R, "S1_F2", &g_topos_f2, {0, 1, 2}, {0, 1, 2, 3}, true, true, true);
    add_s1(R, "S1_F3ids4", &g_topos_f3i4, {0, 1, 2}, {0, 1, 2, 3}, false, true, false);
    add_s1(R, "S1_F3", &g_topos_f3, {0, 1, 2}, {0, 1, 2, 3}, true, false, true);
    add_s1(R, "S1_F4", &g_topos_f4, {0}, {1, 2}, true, false, true);
    add_s2(R, "S2_F2_quick", &g_s2_small, {1}, {0, 1, 2}, {0, 2, 3}, false, true, false);
    add_s2(R, "S2_F2", &g_s2_small, {1, 2}, {0, 1, 2, 3}, {0, 1, 2, 3, 4}, true, false, true);
    add_s2(R, "S2_named", &g_s2_named, {1, 2}, {0, 1, 2}, {0, 2, 3}, false, false, true);
  } else {
    // ASan+UBSan build: the same enumerations at smaller bounds
    add_s1(R, "asan_S1_F2", &g_topos_f2, {0, 1, 2}, {0, 1, 2, 3}, false, true, true);
    add_s1(R, "asan_S1_F3ids4", &g_topos_f3i4, {0}, {1, 2}, false, false, true);
    add_s2(R, "asan_S2_F2_quick", &g_s2_small, {1}, {0}, {2}, false, true, false, true);
    add_s2(R, "asan_S2_F2", &g_s2_small, {1, 2}, {0, 1, 2}, {0, 2, 3}, false, false, true);
  }
  R.require("encode_ok", 1000);
  R.require("decode_ok", 1000);
  if (!c09) R.require("cases_with_two_attribute_values", 100);
  return R.main();
}
