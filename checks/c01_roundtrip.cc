// C01 (encode/decode round trip) and C09 (reported counts) over the bounded
// geometry spaces S1..S5 of DESIGN.md §3. C09 = same executions with
// tracking enabled and the count oracle only (--x-c09).
#include "checks/roundtrip_oracle.h"
#include "mc/alloc_env.h"

using namespace mcg;
using gs::Topo;

namespace {

std::vector<Topo> g_topos_f2;      // F <= 2 incl. the empty list
std::vector<Topo> g_topos_f3i4;    // F == 3 over <= 4 ids
std::vector<Topo> g_topos_f3;      // F == 3 over <= 5 ids
std::vector<Topo> g_topos_f4;      // F == 4 over <= 5 ids
std::vector<std::pair<std::string, Topo>> g_named;
std::vector<Topo> g_topos_f2_only, g_topos_s2b_named, g_topos_s2b_perface;

bool g_c09 = false;

const int kSpeedsQuick[] = {0, 3, 6, 10};
const int kSpeedsThorough[] = {0, 1, 3, 5, 6, 8, 10};

struct Speeds {
  const int *v;
  int n;
};
Speeds speeds(bool full) { return full ? Speeds{kSpeedsThorough, 7} : Speeds{kSpeedsQuick, 4}; }

// ------------------------------------------------------------------ S1
void add_s1(mc::Runner &R, const std::string &name, const std::vector<Topo> *topos, std::vector<int> isolated,
            std::vector<int> poskinds, bool full_speeds, bool quick, bool thorough, bool both_apis = false) {
  const Speeds sp = speeds(full_speeds);
  mc::Radix rx{(uint64_t)sp.n, 5, (uint64_t)poskinds.size(), (uint64_t)isolated.size(), (uint64_t)topos->size(), (uint64_t)(both_apis ? 2 : 1)};
  auto make = [=](uint64_t idx, GeomDef *g, EncCfg *c) {
    auto d = rx.decode(idx);
    *g = gs::s1_mesh((*topos)[d[4]], isolated[d[3]], (gs::PosKind)poskinds[d[2]]);
    *c = gs::mesh_cfg((int)d[1], sp.v[d[0]]);
    c->use_plain_encoder = d[5] == 1;
    c->qbits = {poskinds[d[2]] == gs::POS_F32_Q ? 11 : 0};
  };
  mc::Space s;
  s.name = name;
  s.size = rx.size();
  s.quick = quick;
  s.thorough = thorough;
  s.run = [=](uint64_t idx, mc::Ctx &ctx) {
    GeomDef g;
    EncCfg c;
    make(idx, &g, &c);
    auto r = rt::check_roundtrip(g, c, ctx, "", !g_c09, g_c09);
    if (r.decoded && !g.faces.empty()) ctx.nontrivial_unique();
  };
  s.describe = [=](uint64_t idx) {
    GeomDef g;
    EncCfg c;
    make(idx, &g, &c);
    return text(g) + " " + text(c);
  };
  R.add(s);
}

// ------------------------------------------------------------------ S2
struct S2Topos {
  std::vector<Topo> topos;
  std::vector<uint64_t> offset;  // cumulative number of (topo,bits) pairs
  uint64_t total = 0;
  void add(const Topo &t) {
    topos.push_back(t);
    offset.push_back(total);
    total += 1ull << (3 * t.size());
  }
  void locate(uint64_t k, int *ti, uint32_t *bits) const {
    int lo = 0, hi = (int)topos.size() - 1;
    while (lo < hi) {
      int mid = (lo + hi + 1) / 2;
      if (offset[mid] <= k) lo = mid;
      else hi = mid - 1;
    }
    *ti = lo;
    *bits = (uint32_t)(k - offset[lo]);
  }
};
S2Topos g_s2_small, g_s2_named;

void add_s2(mc::Runner &R, const std::string &name, const S2Topos *T, std::vector<int> poskinds, std::vector<int> skinds,
            std::vector<int> method_kinds, bool full_speeds, bool quick, bool thorough, bool two_speeds = false) {
  static const int kTwo[] = {0, 6};
  const Speeds sp = two_speeds ? Speeds{kTwo, 2} : speeds(full_speeds);
  mc::Radix rx{(uint64_t)sp.n, 3, (uint64_t)method_kinds.size(), (uint64_t)skinds.size(), (uint64_t)poskinds.size(), 2, T->total};
  auto make = [=](uint64_t idx, GeomDef *g, EncCfg *c, bool *dedup) {
    auto d = rx.decode(idx);
    int ti;
    uint32_t bits;
    T->locate(d[6], &ti, &bits);
    *dedup = d[5] == 0;
    const gs::PosKind pk = (gs::PosKind)poskinds[d[4]];
    const gs::SeamAttKind sk = (gs::SeamAttKind)skinds[d[3]];
    *g = gs::s2_mesh(T->topos[ti], bits, *dedup, pk, sk);
    *c = gs::mesh_cfg(method_kinds[d[2]], sp.v[d[0]]);
    c->split_on_seams = (int)d[1] - 1;
    c->qbits = {pk == gs::POS_F32_Q ? 11 : 0, sk == gs::SEAM_TEX_Q ? 10 : sk == gs::SEAM_NORMAL_Q ? 8 : 0};
  };
  mc::Space s;
  s.name = name;
  s.size = rx.size();
  s.quick = quick;
  s.thorough = thorough;
  s.run = [=](uint64_t idx, mc::Ctx &ctx) {
    GeomDef g;
    EncCfg c;
    bool dedup;
    make(idx, &g, &c, &dedup);
    // Input class for known finding: points that are not deduplicated (several
    // points with identical entries in every attribute).
    const std::string klass = dedup ? "" : "points-not-deduplicated";
    auto r = rt::check_roundtrip(g, c, ctx, g_c09 ? klass : "", !g_c09, g_c09);
    if (r.decoded) {
      bool seam = false;
      for (size_t i = 0; i + 1 < g.atts[1].map.size(); ++i) seam = seam || g.atts[1].map[i] != g.atts[1].map[i + 1];
      if (seam) {
        ctx.count("cases_with_two_attribute_values");
        ctx.nontrivial_unique();
      }
    }
  };
  s.describe = [=](uint64_t idx) {
    GeomDef g;
    EncCfg c;
    bool dedup;
    make(idx, &g, &c, &dedup);
    return text(g) + " " + text(c);
  };
  R.add(s);
}

// ------------------------------------------------------------------ S2b: two attributes with independent seam patterns
void add_s2b(mc::Runner &R, const std::string &name, const std::vector<Topo> *topos, bool per_face_second, std::vector<int> speeds_v,
             bool quick, bool thorough, bool reduced = false) {
  // reduced: only {tex + generic, Edgebreaker standard, split unset} (quick tier)
  const uint64_t nv = reduced ? 1 : 2;
  // (topology, bits1, bits2) x {tex q10 + generic u8, normal q8 + tex q10} x {eb std, eb valence} x split {unset, off} x speed
  auto off = std::make_shared<std::vector<uint64_t>>();
  uint64_t total = 0;
  for (auto &t : *topos) {
    off->push_back(total);
    const int nb = 3 * (int)t.size();
    total += (1ull << nb) * (per_face_second ? (1ull << t.size()) : (1ull << nb));
  }
  mc::Radix rx{(uint64_t)speeds_v.size(), nv, nv, nv, total};
  auto make = [=](uint64_t idx, GeomDef *g, EncCfg *c) {
    auto d = rx.decode(idx);
    int ti = (int)off->size() - 1;
    while ((*off)[ti] > d[4]) --ti;
    const Topo &t = (*topos)[ti];
    const int nb = 3 * (int)t.size();
    uint64_t k = d[4] - (*off)[ti];
    const uint32_t bits1 = (uint32_t)(k & ((1ull << nb) - 1));
    uint32_t bits2 = (uint32_t)(k >> nb);
    if (per_face_second) {
      uint32_t e = 0;
      for (size_t f = 0; f < t.size(); ++f)
        if (bits2 & (1u << f)) e |= 7u << (3 * f);
      bits2 = e;
    }
    const bool pairA = d[3] == 0;
    *g = gs::s2b_mesh(t, bits1, bits2, gs::POS_F32_Q, pairA ? gs::SEAM_TEX_Q : gs::SEAM_NORMAL_Q, pairA ? gs::SEAM_GENERIC_U8 : gs::SEAM_TEX_Q);
    *c = gs::mesh_cfg(d[2] == 0 ? 2 : 3, speeds_v[d[0]]);
    c->split_on_seams = d[1] == 0 ? -1 : 0;
    c->qbits = {11, pairA ? 10 : 8, pairA ? 0 : 10};
  };
  mc::Space s;
  s.name = name;
  s.size = rx.size();
  s.quick = quick;
  s.thorough = thorough;
  s.run = [=](uint64_t idx, mc::Ctx &ctx) {
    GeomDef g;
    EncCfg c;
    make(idx, &g, &c);
    auto r = rt::check_roundtrip(g, c, ctx, "", !g_c09, g_c09);
    if (r.decoded) {
      ctx.count("cases_with_two_seam_attributes");
      ctx.nontrivial_unique();
    }
  };
  s.describe = [=](uint64_t idx) {
    GeomDef g;
    EncCfg c;
    make(idx, &g, &c);
    return text(g) + " " + text(c);
  };
  R.add(s);
}

// ------------------------------------------------------------------ S2c: several closed components, attribute values per corner / face / component
std::vector<std::pair<std::string, Topo>> s2c_topologies() {
  const Topo tet = {{0, 1, 2}, {0, 3, 1}, {1, 3, 2}, {2, 3, 0}};
  auto shifted = [](Topo t, int by) {
    for (auto &f : t)
      for (int k = 0; k < 3; ++k) f[k] += by;
    return t;
  };
  auto cat = [](Topo a, const Topo &b) {
    a.insert(a.end(), b.begin(), b.end());
    return a;
  };
  const Topo pillow = {{0, 1, 2}, {0, 2, 1}};
  std::vector<std::pair<std::string, Topo>> v;
  v.push_back({"two_pillows", cat(pillow, shifted(pillow, 3))});
  v.push_back({"three_pillows", cat(cat(pillow, shifted(pillow, 3)), shifted(pillow, 6))});
  v.push_back({"two_tetrahedra", cat(tet, shifted(tet, 4))});
  v.push_back({"three_tetrahedra", cat(cat(tet, shifted(tet, 4)), shifted(tet, 8))});
  v.push_back({"tetrahedron_and_pillow", cat(tet, shifted(pillow, 4))});
  v.push_back({"pillow_and_open_triangle", cat(pillow, Topo{{3, 4, 5}})});
  return v;
}
void add_s2c(mc::Runner &R, const std::string &name, bool quick, bool thorough) {
  auto T = std::make_shared<std::vector<std::pair<std::string, Topo>>>(s2c_topologies());
  // value kinds: 0 unique per corner, 1 unique per face, 2 unique per component, 3.. : 2-value per face patterns (all 2^F)
  auto off = std::make_shared<std::vector<uint64_t>>();
  uint64_t total = 0;
  for (auto &t : *T) {
    off->push_back(total);
    total += 3 + (1ull << t.second.size());
  }
  // x {eb std, eb valence, sequential} x split {unset, off, on} x speed {0,3,5,10} x position kind {q11, i32}
  mc::Radix rx{4, 3, 3, 2, total};
  auto make = [=](uint64_t idx, GeomDef *g, EncCfg *c) {
    auto d = rx.decode(idx);
    int ti = (int)off->size() - 1;
    while ((*off)[ti] > d[4]) --ti;
    const Topo &t = (*T)[ti].second;
    const uint64_t k = d[4] - (*off)[ti];
    std::vector<int> cv(3 * t.size());
    for (size_t f = 0; f < t.size(); ++f)
      for (int c3 = 0; c3 < 3; ++c3) {
        int v;
        if (k == 0) v = (int)(3 * f + c3);
        else if (k == 1) v = (int)f;
        else if (k == 2) v = t[f][0] / 3;  // grows with the component
        else v = (int)(((k - 3) >> f) & 1);
        cv[3 * f + c3] = v;
      }
    *g = gs::s2c_mesh(t, cv, d[3] == 0 ? gs::POS_F32_Q : gs::POS_I32);
    static const int mk[3] = {2, 3, 0}, sp[4] = {0, 3, 5, 10};
    *c = gs::mesh_cfg(mk[d[2]], sp[d[0]]);
    c->split_on_seams = (int)d[1] - 1;
    c->qbits = {d[3] == 0 ? 11 : 0, 0};
  };
  mc::Space s;
  s.name = name;
  s.size = rx.size();
  s.quick = quick;
  s.thorough = thorough;
  s.run = [=](uint64_t idx, mc::Ctx &ctx) {
    GeomDef g;
    EncCfg c;
    make(idx, &g, &c);
    auto r = rt::check_roundtrip(g, c, ctx, "", !g_c09, g_c09);
    if (r.decoded) {
      ctx.count("cases_with_several_components");
      ctx.nontrivial_unique();
    }
  };
  s.describe = [=](uint64_t idx) {
    GeomDef g;
    EncCfg c;
    make(idx, &g, &c);
    return text(g) + " " + text(c);
  };
  R.add(s);
}

// ------------------------------------------------------------------ S6: every sub-grid of a quad grid (holes, several split events)
void add_s6(mc::Runner &R, const std::string &name, int W, int H, bool quick, bool thorough) {
  const int cells = W * H;
  // x {eb standard s0, eb valence s0, eb standard s5, eb standard s7 + per-vertex generic attribute, sequential s10} x position {q11, i32}
  mc::Radix rx{5, 2, 1ull << cells};
  auto make = [=](uint64_t idx, GeomDef *g, EncCfg *c) {
    auto d = rx.decode(idx);
    const uint64_t mask = d[2];
    g->is_mesh = true;
    g->num_points = (W + 1) * (H + 1);
    for (int y = 0; y < H; ++y)
      for (int x = 0; x < W; ++x) {
        if (!((mask >> (y * W + x)) & 1)) continue;
        const int a = y * (W + 1) + x, b = a + 1, c2 = a + W + 1, e = c2 + 1;
        g->faces.push_back({a, b, c2});
        g->faces.push_back({b, e, c2});
      }
    AttDef pos;
    pos.type = GeometryAttribute::POSITION;
    pos.nc = 3;
    pos.uid = 0;
    pos.dt = d[1] == 0 ? DT_FLOAT32 : DT_INT32;
    AttDef gen;
    gen.type = GeometryAttribute::GENERIC;
    gen.dt = DT_UINT8;
    gen.nc = 1;
    gen.uid = 3;
    for (int i = 0; i < g->num_points; ++i) {
      const int x = i % (W + 1), y = i / (W + 1), z = (x * x + 3 * y) % 4;
      if (d[1] == 0) pos.entries.push_back(bytes_of(std::vector<float>{(float)x, (float)y, z * 0.5f}));
      else pos.entries.push_back(bytes_of(std::vector<int32_t>{x, y, z}));
      gen.entries.push_back(bytes_of(std::vector<uint8_t>{(uint8_t)(i * 11)}));
    }
    g->atts = {pos};
    static const int mk[5] = {2, 3, 2, 2, 0}, sp[5] = {0, 0, 5, 7, 10};
    *c = gs::mesh_cfg(mk[d[0]], sp[d[0]]);
    c->qbits = {d[1] == 0 ? 11 : 0};
    if (d[0] == 3) {
      g->atts.push_back(gen);
      c->qbits.push_back(0);
    }
  };
  mc::Space s;
  s.name = name;
  s.size = rx.size();
  s.quick = quick;
  s.thorough = thorough;
  s.run = [=](uint64_t idx, mc::Ctx &ctx) {
    GeomDef g;
    EncCfg c;
    make(idx, &g, &c);
    auto r = rt::check_roundtrip(g, c, ctx, "", !g_c09, g_c09);
    if (r.decoded && g.faces.size() >= 4) {
      ctx.count("cases_with_holey_grid");
      ctx.nontrivial_unique();
    }
  };
  s.describe = [=](uint64_t idx) {
    GeomDef g;
    EncCfg c;
    make(idx, &g, &c);
    return "sub-grid of a " + std::to_string(W) + "x" + std::to_string(H) + " quad grid, cell mask " + std::to_string(rx.decode(idx)[2]) + ": " + text(g) + " " + text(c);
  };
  R.add(s);
}

// ------------------------------------------------------------------ S8: full grids whose values use the whole quantization / integer range
// Interior vertices of a grid have 2..4 parallelograms; with 26..30 quantization bits (or integers near +-2^28) every
// prediction is close to the type limit, so sums of predictions, residuals and entropy-estimate symbols reach 2^31.
void add_s8(mc::Runner &R, const std::string &name, std::vector<int> sizes, bool quick, bool thorough) {
  // (cfg 7: eb std s0/s1/s5, eb valence s0/s1/s5, sequential s0) x (prediction 5: auto, difference, parallelogram, multi (deprecated),
  // constrained multi) x (representation 8) x (field 5) x sizes
  // representations 6,7: explicit quantization box [0,1]^3 at 30 / 29 bits with all data in the top 2^-10 of the box: every quantized
  // value is within 2^20 of the maximum, so residuals (and the encoder's entropy-estimate tables) stay small while predictions
  // a+b-c exceed the maximum and sums of 2..4 of them pass 2^31.
  mc::Radix rx{7, 5, 8, 5, (uint64_t)sizes.size()};
  auto make = [=](uint64_t idx, GeomDef *g, EncCfg *c, std::string *d) {
    auto dg = rx.decode(idx);
    const int N = sizes[dg[4]];
    g->is_mesh = true;
    g->num_points = N * N;
    for (int y = 0; y + 1 < N; ++y)
      for (int x = 0; x + 1 < N; ++x) {
        const int a = y * N + x, b = a + 1, c2 = a + N, e = c2 + 1;
        g->faces.push_back({a, b, e});
        g->faces.push_back({a, e, c2});
      }
    AttDef pos;
    pos.type = GeometryAttribute::POSITION;
    pos.nc = 3;
    pos.uid = 0;
    static const char *fields[5] = {"sine height field", "ramp x+y", "checker of range extremes", "plane at the maximum with one minimum corner", "hash noise"};
    static const char *reps[8] = {"float q30", "float q29", "float q24", "int32 within +-2^28", "uint16 full range", "int8 full range",
                                  "float q30 explicit box [0,1], data in the top 2^-10", "float q29 explicit box [0,1], data in the top 2^-10"};
    auto field = [&](int x, int y, int k) -> double {  // in [0,1]
      const double u = (double)x / (N - 1), v = (double)y / (N - 1);
      switch (dg[3]) {
        case 0: return k == 0 ? u : k == 1 ? v : 0.5 + 0.5 * std::sin(x * 0.3) * std::cos(y * 0.2);
        case 1: return k == 0 ? u : k == 1 ? v : (u + v) / 2;
        case 2: return k == 0 ? u : k == 1 ? v : (double)((x + y) & 1);
        case 3: return k == 2 ? ((x == 0 && y == 0) ? 0.0 : 1.0) : (k == 0 ? u : v);
        default: return (double)((uint32_t)(x * 73856093u ^ y * 19349663u ^ k * 83492791u) % 1001) / 1000.0;
      }
    };
    for (int i = 0; i < g->num_points; ++i) {
      const int x = i % N, y = i / N;
      double f[3] = {field(x, y, 0), field(x, y, 1), field(x, y, 2)};
      switch (dg[2]) {
        case 0: case 1: case 2:
          pos.dt = DT_FLOAT32;
          pos.entries.push_back(bytes_of(std::vector<float>{(float)f[0], (float)f[1], (float)f[2]}));
          break;
        case 6: case 7:
          pos.dt = DT_FLOAT32;
          for (double &t : f) t = 1.0 - (1.0 - t) / 1024.0;
          pos.entries.push_back(bytes_of(std::vector<float>{(float)f[0], (float)f[1], (float)f[2]}));
          break;
        case 3: {
          pos.dt = DT_INT32;
          auto m = [](double t) { return (int32_t)std::llround((2 * t - 1) * 268435456.0); };
          pos.entries.push_back(bytes_of(std::vector<int32_t>{m(f[0]), m(f[1]), m(f[2])}));
          break;
        }
        case 4: {
          pos.dt = DT_UINT16;
          auto m = [](double t) { return (uint16_t)std::llround(t * 65535.0); };
          pos.entries.push_back(bytes_of(std::vector<uint16_t>{m(f[0]), m(f[1]), m(f[2])}));
          break;
        }
        default: {
          pos.dt = DT_INT8;
          auto m = [](double t) { return (int8_t)(std::llround(t * 255.0) - 128); };
          pos.entries.push_back(bytes_of(std::vector<int8_t>{m(f[0]), m(f[1]), m(f[2])}));
          break;
        }
      }
    }
    g->atts = {pos};
    static const int mk[7] = {2, 2, 2, 3, 3, 3, 0}, sp[7] = {0, 1, 5, 0, 1, 5, 0};
    *c = gs::mesh_cfg(mk[dg[0]], sp[dg[0]]);
    static const int q[8] = {30, 29, 24, 0, 0, 0, 30, 29};
    c->qbits = {q[dg[2]]};
    if (dg[2] >= 6) c->explicit_q[0] = {std::vector<float>{0.f, 0.f, 0.f}, 1.0f};
    static const int pr[5] = {-100, PREDICTION_DIFFERENCE, MESH_PREDICTION_PARALLELOGRAM, MESH_PREDICTION_MULTI_PARALLELOGRAM,
                              MESH_PREDICTION_CONSTRAINED_MULTI_PARALLELOGRAM};
    c->pred = {pr[dg[1]]};
    if (d) *d = std::to_string(N) + "x" + std::to_string(N) + " vertex grid, " + fields[dg[3]] + ", " + reps[dg[2]];
  };
  mc::Space s;
  s.name = name;
  s.size = rx.size();
  s.quick = quick;
  s.thorough = thorough;
  s.timeout_s = 120;
  s.run = [=](uint64_t idx, mc::Ctx &ctx) {
    GeomDef g;
    EncCfg c;
    make(idx, &g, &c, nullptr);
    auto r = rt::check_roundtrip(g, c, ctx, "", !g_c09, g_c09);
    if (r.decoded) {
      ctx.count("cases_with_full_range_grid");
      ctx.nontrivial_unique();
    }
  };
  s.describe = [=](uint64_t idx) {
    GeomDef g;
    EncCfg c;
    std::string d;
    make(idx, &g, &c, &d);
    return d + " " + text(c);
  };
  R.add(s);
}

// ------------------------------------------------------------------ S6b: every sub-set of the triangles of a triangulated grid
void add_s6b(mc::Runner &R, const std::string &name, int W, int H, bool quick, bool thorough) {
  const int tris = 2 * W * H;
  // (cfg 3: eb standard s0, eb valence s0, eb standard s5) x (diagonals 2) x mask
  mc::Radix rx{3, 2, 1ull << tris};
  auto make = [=](uint64_t idx, GeomDef *g, EncCfg *c) {
    auto d = rx.decode(idx);
    *g = gs::tri_subset_mesh(W, H, (int)d[1], d[2]);
    static const int mk[3] = {2, 3, 2}, sp[3] = {0, 0, 5};
    *c = gs::mesh_cfg(mk[d[0]], sp[d[0]]);
    c->qbits = {11};
  };
  mc::Space s;
  s.name = name;
  s.size = rx.size();
  s.quick = quick;
  s.thorough = thorough;
  s.run = [=](uint64_t idx, mc::Ctx &ctx) {
    GeomDef g;
    EncCfg c;
    make(idx, &g, &c);
    auto r = rt::check_roundtrip(g, c, ctx, "", !g_c09, g_c09);
    if (r.decoded && g.faces.size() >= 4) {
      ctx.count("cases_with_triangle_subset_of_grid");
      ctx.nontrivial_unique();
    }
  };
  s.describe = [=](uint64_t idx) {
    GeomDef g;
    EncCfg c;
    make(idx, &g, &c);
    auto d = rx.decode(idx);
    return "triangle sub-set " + std::to_string(d[2]) + " of a " + std::to_string(W) + "x" + std::to_string(H) + " cell grid (diagonals " + (d[1] ? "alternating" : "uniform") + "): " + text(g) + " " + text(c);
  };
  R.add(s);
}

// ------------------------------------------------------------------ S6c: grids with every set of at most K removed cells
void add_s6c(mc::Runner &R, const std::string &name, int W, int H, int K, bool quick, bool thorough) {
  const uint64_t sets = gs::removed_cell_sets(W * H, K);
  // (cfg 4: eb standard s0, eb valence s0, eb standard s5, sequential s10) x (diagonals 2) x (positions float q11 / int32) x removed set
  mc::Radix rx{4, 2, 2, sets};
  auto make = [=](uint64_t idx, GeomDef *g, EncCfg *c) {
    auto d = rx.decode(idx);
    *g = gs::tri_subset_mesh(W, H, (int)d[1], gs::grid_minus_cells_mask(W, H, K, d[3]), d[2] == 1);
    static const int mk[4] = {2, 3, 2, 0}, sp[4] = {0, 0, 5, 10};
    *c = gs::mesh_cfg(mk[d[0]], sp[d[0]]);
    c->qbits = {d[2] == 1 ? 0 : 11};
  };
  mc::Space s;
  s.name = name;
  s.size = rx.size();
  s.quick = quick;
  s.thorough = thorough;
  s.run = [=](uint64_t idx, mc::Ctx &ctx) {
    GeomDef g;
    EncCfg c;
    make(idx, &g, &c);
    auto r = rt::check_roundtrip(g, c, ctx, "", !g_c09, g_c09);
    if (r.decoded && g.faces.size() >= 4) {
      ctx.count("cases_with_grid_minus_cells");
      ctx.nontrivial_unique();
    }
  };
  s.describe = [=](uint64_t idx) {
    GeomDef g;
    EncCfg c;
    make(idx, &g, &c);
    auto d = rx.decode(idx);
    std::string cells;
    for (int cc : gs::unrank_cell_set(W * H, K, d[3])) cells += (cells.empty() ? "" : ",") + std::to_string(cc);
    return std::to_string(W) + "x" + std::to_string(H) + " cell grid without cells {" + cells + "} (diagonals " + (d[1] ? "alternating" : "uniform") + ") " + text(c);
  };
  R.add(s);
}

// ------------------------------------------------------------------ S10: unusual attribute layouts
// (a) two attributes of type POSITION (base shape + second position set) in every order with a third attribute;
// (b) attribute counts around the 8-bit limits of the per-attribute-connectivity bitstream fields.
void add_s10(mc::Runner &R, const std::string &name, bool quick, bool thorough) {
  static const int kCounts[8] = {2, 127, 128, 129, 130, 255, 256, 257};
  // (cfg 5: eb std s0, eb std s5, eb valence s3, eb std s7 (single connectivity), sequential s5) x (topology 3) x
  // (layout 3 + 8: P P / P G P / G P P, then N generic attributes next to one position)
  mc::Radix rx{5, 3, 11};
  auto make = [=](uint64_t idx, GeomDef *g, EncCfg *c, std::string *d) {
    auto dg = rx.decode(idx);
    g->is_mesh = true;
    static const std::vector<std::array<int, 3>> topo[3] = {{{0, 1, 2}}, {{0, 1, 2}, {0, 2, 3}}, {{0, 1, 2}, {0, 3, 4}}};
    g->faces = topo[dg[1]];
    g->num_points = dg[1] == 2 ? 5 : dg[1] == 1 ? 4 : 3;
    auto pos = [&](uint32_t uid, int variant) {
      AttDef a;
      a.type = GeometryAttribute::POSITION;
      a.dt = DT_FLOAT32;
      a.nc = 3;
      a.uid = uid;
      for (int i = 0; i < g->num_points; ++i)
        a.entries.push_back(bytes_of(std::vector<float>{(float)(i % 3) + variant * 0.5f, (float)(i / 2) - variant, variant ? (float)(i * i) : 0.f}));
      if (variant == 2) {  // one more value entry than the first position attribute: points 0 and 1 no longer share...
        a.entries.push_back(bytes_of(std::vector<float>{9.f, 9.f, 9.f}));
        for (int i = 0; i < g->num_points; ++i) a.map.push_back(i == 0 ? (int)a.entries.size() - 1 : i);
      }
      return a;
    };
    auto gen = [&](uint32_t uid) {
      AttDef a;
      a.type = GeometryAttribute::GENERIC;
      a.dt = DT_UINT8;
      a.nc = 1;
      a.uid = uid;
      for (int i = 0; i < g->num_points; ++i) a.entries.push_back(bytes_of(std::vector<uint8_t>{(uint8_t)(i * 37 + uid)}));
      return a;
    };
    std::string lay;
    if (dg[2] == 0) { g->atts = {pos(0, 0), pos(1, 1)}; lay = "POSITION POSITION"; }
    else if (dg[2] == 1) { g->atts = {pos(0, 0), gen(5), pos(1, 2)}; lay = "POSITION GENERIC POSITION(with an extra value entry)"; }
    else if (dg[2] == 2) { g->atts = {gen(5), pos(0, 0), pos(1, 1)}; lay = "GENERIC POSITION POSITION"; }
    else {
      const int n = kCounts[dg[2] - 3];
      g->atts = {pos(0, 0)};
      for (int i = 1; i < n; ++i) g->atts.push_back(gen(i));
      lay = std::to_string(n) + " attributes (1 position + generic uint8)";
    }
    static const int mk[5] = {2, 2, 3, 2, 0}, sp[5] = {0, 5, 3, 7, 5};
    *c = gs::mesh_cfg(mk[dg[0]], sp[dg[0]]);
    c->qbits.assign(g->atts.size(), 0);
    for (size_t i = 0; i < g->atts.size(); ++i)
      if (g->atts[i].type == GeometryAttribute::POSITION) c->qbits[i] = 10;
    if (d) *d = lay + ", " + std::to_string(g->faces.size()) + " faces";
  };
  mc::Space s;
  s.name = name;
  s.size = rx.size();
  s.quick = quick;
  s.thorough = thorough;
  s.run = [=](uint64_t idx, mc::Ctx &ctx) {
    GeomDef g;
    EncCfg c;
    make(idx, &g, &c, nullptr);
    auto r = rt::check_roundtrip(g, c, ctx, "", !g_c09, g_c09);
    ctx.count(r.decoded ? "unusual_layouts_round_tripped" : "unusual_layouts_refused_by_encoder");
    ctx.nontrivial_unique();
  };
  s.describe = [=](uint64_t idx) {
    GeomDef g;
    EncCfg c;
    std::string d;
    make(idx, &g, &c, &d);
    return d + " " + text(c);
  };
  R.add(s);
}

// ------------------------------------------------------------------ S9: point clouds with clusters of coincident points and explicit point->value maps
// kd-tree cells stop splitting when all axes are exhausted (>= 64 coincident points take a special path); attributes whose
// point->value map is not the identity (deduplicated or permuted storage) must still give every point its own values.
void add_s9(mc::Runner &R, const std::string &name, bool quick, bool thorough) {
  // (method/speed 8) x (representation 4) x (map mode 3) x (copies 5) x (layout 6)
  mc::Radix rx{8, 4, 3, 5, 6};
  auto make = [=](uint64_t idx, GeomDef *g, EncCfg *c, std::string *d) {
    auto dg = rx.decode(idx);
    static const int kCopies[5] = {1, 63, 64, 65, 200};
    const int k = kCopies[dg[3]];
    // logical point list: value ids (>= 0 distinct point number, < 0 cluster number)
    std::vector<int> pts;
    int next = 0;
    auto distinct = [&](int n) { for (int i = 0; i < n; ++i) pts.push_back(next++); };
    auto cluster = [&](int id) { for (int i = 0; i < k; ++i) pts.push_back(-1 - id); };
    static const char *layouts[6] = {"cluster + 400 distinct", "200 distinct + cluster + 200 distinct", "400 distinct + cluster", "cluster + 130 distinct + cluster",
                                     "three clusters", "70 distinct + cluster"};
    switch (dg[4]) {
      case 0: cluster(0); distinct(400); break;
      case 1: distinct(200); cluster(0); distinct(200); break;
      case 2: distinct(400); cluster(0); break;
      case 3: cluster(0); distinct(130); cluster(1); break;
      case 4: cluster(0); cluster(1); cluster(2); break;
      default: distinct(70); cluster(0); break;
    }
    const int n = (int)pts.size();
    g->is_mesh = false;
    g->num_points = n;
    auto coords = [](int id, uint32_t out[3]) {
      if (id < 0) {
        static const uint32_t C[3][3] = {{3, 165, 369}, {400, 0, 17}, {211, 396, 388}};
        for (int j = 0; j < 3; ++j) out[j] = C[-1 - id][j];
      } else {
        out[0] = (uint32_t)(id * 37 + 1) % 401; out[1] = (uint32_t)(id * 91 + 5) % 397; out[2] = (uint32_t)(id * 53 + 2) % 389;
      }
    };
    static const char *reps[4] = {"uint32 xyz", "float xyz q10", "float xyz q16 + int32 point number", "uint16 xyz + uint8 tag (deduplicated)"};
    AttDef pos;
    pos.type = GeometryAttribute::POSITION;
    pos.nc = 3;
    pos.uid = 0;
    pos.dt = dg[1] == 0 ? DT_UINT32 : dg[1] == 3 ? DT_UINT16 : DT_FLOAT32;
    auto value = [&](int id) {
      uint32_t v[3];
      coords(id, v);
      if (pos.dt == DT_UINT32) return bytes_of(std::vector<uint32_t>{v[0], v[1], v[2]});
      if (pos.dt == DT_UINT16) return bytes_of(std::vector<uint16_t>{(uint16_t)v[0], (uint16_t)v[1], (uint16_t)v[2]});
      return bytes_of(std::vector<float>{v[0] / 400.f, v[1] / 400.f, v[2] / 400.f});
    };
    static const char *maps[3] = {"identity map", "deduplicated entries", "entries stored in permuted order"};
    if (dg[2] == 0) {
      for (int p2 = 0; p2 < n; ++p2) pos.entries.push_back(value(pts[p2]));
    } else if (dg[2] == 1) {
      std::map<int, int> entry_of;
      for (int p2 = 0; p2 < n; ++p2) {
        auto it = entry_of.find(pts[p2]);
        if (it == entry_of.end()) {
          it = entry_of.emplace(pts[p2], (int)pos.entries.size()).first;
          pos.entries.push_back(value(pts[p2]));
        }
        pos.map.push_back(it->second);
      }
    } else {
      // entry e holds the value of point (7e+3) mod n  <=>  point p maps to entry inv(p)
      pos.entries.resize(n);
      pos.map.resize(n);
      int step = 7;
      while (std::__gcd(step, n) != 1) ++step;
      for (int e = 0; e < n; ++e) {
        const int p2 = (int)(((int64_t)step * e + 3) % n);
        pos.entries[e] = value(pts[p2]);
        pos.map[p2] = e;
      }
    }
    g->atts = {pos};
    c->qbits = {dg[1] == 1 ? 10 : dg[1] == 2 ? 16 : 0};
    if (dg[1] == 2) {
      AttDef num;
      num.type = GeometryAttribute::GENERIC;
      num.dt = DT_INT32;
      num.nc = 1;
      num.uid = 5;
      for (int p2 = 0; p2 < n; ++p2) num.entries.push_back(bytes_of(std::vector<int32_t>{p2}));
      g->atts.push_back(num);
      c->qbits.push_back(0);
    } else if (dg[1] == 3) {
      AttDef tag;
      tag.type = GeometryAttribute::GENERIC;
      tag.dt = DT_UINT8;
      tag.nc = 1;
      tag.uid = 5;
      for (int t = 0; t < 5; ++t) tag.entries.push_back(bytes_of(std::vector<uint8_t>{(uint8_t)(t * 50)}));
      for (int p2 = 0; p2 < n; ++p2) tag.map.push_back((p2 * 3 + (pts[p2] < 0 ? 1 : 0)) % 5);
      g->atts.push_back(tag);
      c->qbits.push_back(0);
    }
    static const int meth[8] = {1, 1, 1, 1, 1, 1, 0, 0}, sp[8] = {0, 1, 4, 5, 6, 10, 0, 10};
    c->method = meth[dg[0]] ? POINT_CLOUD_KD_TREE_ENCODING : POINT_CLOUD_SEQUENTIAL_ENCODING;
    c->speed_enc = c->speed_dec = sp[dg[0]];
    if (d) *d = std::string("cloud: ") + layouts[dg[4]] + ", cluster = " + std::to_string(k) + " coincident points, " + reps[dg[1]] + ", " + maps[dg[2]];
  };
  mc::Space s;
  s.name = name;
  s.size = rx.size();
  s.quick = quick;
  s.thorough = thorough;
  s.timeout_s = 60;
  s.run = [=](uint64_t idx, mc::Ctx &ctx) {
    GeomDef g;
    EncCfg c;
    make(idx, &g, &c, nullptr);
    auto r = rt::check_roundtrip(g, c, ctx, "", !g_c09, g_c09);
    if (r.decoded) {
      ctx.count("cases_with_clustered_cloud");
      ctx.nontrivial_unique();
    }
  };
  s.describe = [=](uint64_t idx) {
    GeomDef g;
    EncCfg c;
    std::string d;
    make(idx, &g, &c, &d);
    return d + " " + text(c);
  };
  R.add(s);
}

// ------------------------------------------------------------------ S7: attribute order, unique ids, two attributes of one type
void add_s7(mc::Runner &R, const std::string &name, bool quick, bool thorough) {
  // attribute pool
  struct A { GeometryAttribute::Type type; DataType dt; int nc; int q; };
  static const A pool[6] = {{GeometryAttribute::POSITION, DT_FLOAT32, 3, 11}, {GeometryAttribute::NORMAL, DT_FLOAT32, 3, 8},
                            {GeometryAttribute::TEX_COORD, DT_FLOAT32, 2, 10}, {GeometryAttribute::GENERIC, DT_INT16, 2, 0},
                            {GeometryAttribute::COLOR, DT_UINT8, 4, 0},        {GeometryAttribute::TEX_COORD, DT_FLOAT32, 2, 12}};
  static const int sets[3][4] = {{0, 1, 2, 3}, {0, 2, 5, 4}, {0, 1, 3, 4}};
  // (set 3) x (order 24) x (uid scheme 3) x (geometry/method 7: mesh seq s10, eb std s0, eb std s5, eb valence s3, eb std s7; cloud seq, cloud kd)
  // x (geometry 2: 4 points / two triangles; 8x8 vertex grid, 98 triangles - large enough for the traversal orders of the
  // attributes (prediction degree vs depth first) to differ)
  mc::Radix rx{7, 3, 24, 3, 2};
  auto make = [=](uint64_t idx, GeomDef *g, EncCfg *c) {
    auto d = rx.decode(idx);
    int perm[4] = {0, 1, 2, 3};
    {
      // d[2]-th permutation
      int k = (int)d[2];
      std::vector<int> items = {0, 1, 2, 3};
      for (int i = 0; i < 4; ++i) {
        const int f = k % (4 - i);
        k /= (4 - i);
        perm[i] = items[f];
        items.erase(items.begin() + f);
      }
    }
    const bool cloud = d[0] >= 5;
    g->is_mesh = !cloud;
    const bool grid = d[4] == 1;
    g->num_points = grid ? 64 : 4;
    if (!cloud) {
      if (!grid) g->faces = {{0, 1, 2}, {2, 1, 3}};
      else
        for (int y = 0; y < 7; ++y)
          for (int x = 0; x < 7; ++x) {
            const int a0 = y * 8 + x;
            g->faces.push_back({a0, a0 + 1, a0 + 9});
            g->faces.push_back({a0, a0 + 9, a0 + 8});
          }
    }
    c->qbits.clear();
    for (int i = 0; i < 4; ++i) {
      const A &a = pool[sets[d[3]][perm[i]]];
      AttDef ad;
      ad.type = a.type;
      ad.dt = a.dt;
      ad.nc = a.nc;
      ad.uid = d[1] == 0 ? (uint32_t)i : d[1] == 1 ? (uint32_t)(3 - i) : (uint32_t)(i == 0 ? 70000 : i == 1 ? 5 : i == 2 ? 300 : 1);
      for (int v = 0; v < g->num_points; ++v) {
        const int salt = sets[d[3]][perm[i]];
        if (a.dt == DT_FLOAT32) {
          std::vector<float> f(a.nc);
          for (int k2 = 0; k2 < a.nc; ++k2) f[k2] = a.type == GeometryAttribute::NORMAL ? (k2 == v % 3 ? 1.f : 0.f) : 0.25f * ((v * 3 + k2 * 5 + salt) % 7);
          if (a.type == GeometryAttribute::POSITION) {
            float p[3];
            gs::id_position(v % 4, p);
            f = {p[0], p[1], p[2]};
            if (grid) f = {(float)(v % 8), (float)(v / 8), 0.5f * ((v * v) % 3)};
          }
          ad.entries.push_back(bytes_of(f));
        } else if (a.dt == DT_INT16) {
          ad.entries.push_back(bytes_of(std::vector<int16_t>{(int16_t)(v * 100 - 150), (int16_t)(salt + v)}));
        } else {
          ad.entries.push_back(bytes_of(std::vector<uint8_t>{(uint8_t)(v * 60), 255, (uint8_t)salt, (uint8_t)(v + 1)}));
        }
      }
      g->atts.push_back(ad);
      c->qbits.push_back(a.q);
    }
    static const int mk[5] = {0, 2, 2, 3, 2}, sp[5] = {10, 0, 5, 3, 7};
    if (!cloud) *c = [&] { EncCfg t = gs::mesh_cfg(mk[d[0]], sp[d[0]]); t.qbits = c->qbits; return t; }();
    else {
      c->method = (int)d[0] - 5;
      c->speed_enc = c->speed_dec = 4;
    }
  };
  mc::Space s;
  s.name = name;
  s.size = rx.size();
  s.quick = quick;
  s.thorough = thorough;
  s.run = [=](uint64_t idx, mc::Ctx &ctx) {
    GeomDef g;
    EncCfg c;
    make(idx, &g, &c);
    auto r = rt::check_roundtrip(g, c, ctx, "", !g_c09, g_c09);
    if (r.decoded) {
      ctx.count("cases_with_permuted_attribute_layout");
      ctx.nontrivial_unique();
    }
  };
  s.describe = [=](uint64_t idx) {
    GeomDef g;
    EncCfg c;
    make(idx, &g, &c);
    return text(g) + " " + text(c);
  };
  R.add(s);
}

// ------------------------------------------------------------------ S3
// Attribute layouts: a second attribute of every type/data type/component
// count on 4 fixed topologies, per-vertex or per-corner, with forced
// prediction schemes, entropy coding on/off and quantization.
const DataType kS3Types[] = {DT_INT8, DT_UINT8, DT_INT16, DT_UINT16, DT_INT32, DT_UINT32, DT_FLOAT32};
const GeometryAttribute::Type kS3AttTypes[] = {GeometryAttribute::GENERIC, GeometryAttribute::NORMAL, GeometryAttribute::TEX_COORD,
                                               GeometryAttribute::COLOR};
const int kS3Preds[] = {-100, PREDICTION_NONE, PREDICTION_DIFFERENCE, MESH_PREDICTION_PARALLELOGRAM, MESH_PREDICTION_MULTI_PARALLELOGRAM,
                        MESH_PREDICTION_CONSTRAINED_MULTI_PARALLELOGRAM, MESH_PREDICTION_TEX_COORDS_PORTABLE,
                        MESH_PREDICTION_GEOMETRIC_NORMAL};

Topo s3_topo(int i) {
  switch (i) {
    case 0: return {{0, 1, 2}};
    case 1: return {{0, 1, 2}, {2, 1, 3}};
    case 2: return {{0, 1, 2}, {0, 3, 1}, {1, 3, 2}, {2, 3, 0}};
    default: return {{0, 1, 2}, {0, 2, 3}, {0, 3, 4}, {0, 4, 1}};
  }
}

// value of component c of entry e for value set vs
Bytes s3_value(DataType dt, int nc, int e, int vs) {
  Bytes out;
  for (int c = 0; c < nc; ++c) {
    const int k = e * 3 + c * 7;
    int64_t iv = 0;
    double fv = 0;
    int64_t lo = 0, hi = 0;
    switch (dt) {
      case DT_INT8: lo = -128; hi = 127; break;
      case DT_UINT8: lo = 0; hi = 255; break;
      case DT_INT16: lo = -32768; hi = 32767; break;
      case DT_UINT16: lo = 0; hi = 65535; break;
      case DT_INT32: lo = INT32_MIN; hi = INT32_MAX; break;
      case DT_UINT32: lo = 0; hi = UINT32_MAX; break;
      default: break;
    }
    switch (vs) {
      case 0: iv = k % 11; fv = (k % 11) * 0.25 - 1.0; break;                       // small
      case 1: {                                                                      // type extremes
        const int64_t cyc[4] = {lo, hi, 0, lo < 0 ? -1 : 1};
        iv = cyc[k % 4];
        const double fc[4] = {-1e9, 1e9, 0.0, 1e-6};
        fv = fc[k % 4];
        break;
      }
      case 2: iv = 1; fv = 1.0; break;                                               // constant
      default: {                                                                     // large but inside 2^29
        const int64_t big = hi > (1 << 29) ? (1 << 29) : hi;
        iv = (k % 2) ? big - (k % 5) : (lo < 0 ? -big + (k % 3) : (k % 7));
        fv = (k % 2) ? 123456.789 : -0.001 * k;
      }
    }
    switch (dt) {
      case DT_INT8: { int8_t v = (int8_t)iv; out.push_back((uint8_t)v); break; }
      case DT_UINT8: out.push_back((uint8_t)iv); break;
      case DT_INT16: { int16_t v = (int16_t)iv; out.insert(out.end(), (uint8_t *)&v, (uint8_t *)&v + 2); break; }
      case DT_UINT16: { uint16_t v = (uint16_t)iv; out.insert(out.end(), (uint8_t *)&v, (uint8_t *)&v + 2); break; }
      case DT_INT32: { int32_t v = (int32_t)iv; out.insert(out.end(), (uint8_t *)&v, (uint8_t *)&v + 4); break; }
      case DT_UINT32: { uint32_t v = (uint32_t)iv; out.insert(out.end(), (uint8_t *)&v, (uint8_t *)&v + 4); break; }
      default: { float v = (float)fv; out.insert(out.end(), (uint8_t *)&v, (uint8_t *)&v + 4); break; }
    }
  }
  return out;
}

struct S3Case {
  GeomDef g;
  EncCfg c;
  std::string klass;
};

struct S3Dims {
  std::vector<int> topos, atypes, dts, ncs, vss, poskinds, methods, speeds, preds, quants;
};

void add_s3(mc::Runner &R, const std::string &name, S3Dims D, bool quick, bool thorough, bool skip_32bit_extremes = false,
            bool thin_32bit_extremes = false) {
  mc::Radix rx{2, (uint64_t)D.preds.size(), (uint64_t)D.speeds.size(), (uint64_t)D.methods.size(), (uint64_t)D.quants.size(),
               (uint64_t)D.poskinds.size(), (uint64_t)D.vss.size(), (uint64_t)D.ncs.size(), (uint64_t)D.dts.size(),
               (uint64_t)D.atypes.size(), 2, (uint64_t)D.topos.size()};
  auto make = [=](uint64_t idx, S3Case *out) -> bool {
    auto d = rx.decode(idx);
    const bool entropy = d[0] == 0;
    const int pred = kS3Preds[D.preds[d[1]]];
    const int speed = D.speeds[d[2]];
    const int method = D.methods[d[3]];
    const int quant = D.quants[d[4]];
    const gs::PosKind pk = (gs::PosKind)D.poskinds[d[5]];
    const int vs = D.vss[d[6]];
    const int nc = D.ncs[d[7]];
    const DataType dt = kS3Types[D.dts[d[8]]];
    const GeometryAttribute::Type at = kS3AttTypes[D.atypes[d[9]]];
    const bool per_corner = d[10] == 1;
    const Topo t = s3_topo(D.topos[d[11]]);
    if (quant > 0 && dt != DT_FLOAT32) return false;  // quantization only applies to float attributes
    // The recorded finding class "32-bit attribute with magnitudes >= 2^29" aborts the worker in most cases
    // (UBSan); it is explored in the smaller S3 space only, which both tiers run.
    if (skip_32bit_extremes && (dt == DT_INT32 || dt == DT_UINT32) && (vs == 1 || vs == 3)) return false;
    // ... and thinned out to automatic prediction, entropy coding on, per-vertex values on the first topology, where
    // every such case costs a worker restart and a symbolised sanitizer report.
    if (thin_32bit_extremes && (dt == DT_INT32 || dt == DT_UINT32) && (vs == 1 || vs == 3) &&
        !(pred == -100 && entropy && !per_corner && d[11] == 0))
      return false;
    GeomDef g;
    g.is_mesh = true;
    const int k = gs::num_ids(t);
    std::vector<int> ev(k);
    for (int i = 0; i < k; ++i) ev[i] = i;
    AttDef pos = gs::position_att(k, pk, ev);
    AttDef a;
    a.type = at;
    a.dt = dt;
    a.nc = nc;
    a.uid = 7;
    a.per_corner = per_corner;
    if (!per_corner) {
      g.num_points = k;
      g.faces = t;
      for (int e = 0; e < k; ++e) a.entries.push_back(s3_value(dt, nc, e, vs));
    } else {
      g.num_points = 3 * (int)t.size();
      for (size_t f = 0; f < t.size(); ++f) {
        g.faces.push_back({(int)(3 * f), (int)(3 * f + 1), (int)(3 * f + 2)});
        for (int c = 0; c < 3; ++c) {
          pos.map.push_back(t[f][c]);
          a.entries.push_back(s3_value(dt, nc, (int)(3 * f + c), vs));
        }
      }
    }
    g.atts = {pos, a};
    EncCfg c = gs::mesh_cfg(method, speed);
    c.builtin_entropy = entropy;
    c.qbits = {pk == gs::POS_F32_Q ? 11 : 0, quant};
    c.pred = {-100, pred};
    out->g = g;
    out->c = c;
    // Input classes of known findings (DESIGN §6).
    std::string kl;
    const bool pos_int_or_q = pk == gs::POS_F32_Q || pk == gs::POS_I32;
    const bool is_oct = at == GeometryAttribute::NORMAL && dt == DT_FLOAT32 && nc == 3 && quant > 0;
    if ((dt == DT_INT32 || dt == DT_UINT32) && (vs == 1 || vs == 3)) kl = "32-bit-attribute-with-magnitude>=2^29";
    else if (pred == MESH_PREDICTION_GEOMETRIC_NORMAL && !is_oct) kl = "forced-geometric-normal-on-non-octahedral-attribute";
    else if (pred == MESH_PREDICTION_TEX_COORDS_PORTABLE && nc != 2) kl = "forced-texcoords-portable-on-non-2-component-attribute";
    else if ((pred == MESH_PREDICTION_TEX_COORDS_PORTABLE || pred == MESH_PREDICTION_GEOMETRIC_NORMAL) && !pos_int_or_q)
      kl = "forced-mesh-prediction-with-unquantized-float-position";
    out->klass = kl;
    return true;
  };
  mc::Space s;
  s.name = name;
  s.size = rx.size();
  s.quick = quick;
  s.thorough = thorough;
  s.run = [=](uint64_t idx, mc::Ctx &ctx) {
    S3Case k;
    if (!make(idx, &k)) {
      ctx.count("s3_combination_not_applicable");
      return;
    }
    auto r = rt::check_roundtrip(k.g, k.c, ctx, k.klass, !g_c09, g_c09);
    if (r.decoded) ctx.nontrivial_unique();
  };
  s.klass = [=](uint64_t idx) {
    S3Case k;
    return make(idx, &k) ? k.klass : std::string();
  };
  s.describe = [=](uint64_t idx) {
    S3Case k;
    if (!make(idx, &k)) return std::string("not applicable (quantization of a non-float attribute, or 32-bit type extremes in the large space)");
    return text(k.g) + " " + text(k.c);
  };
  R.add(s);
}

// ------------------------------------------------------------------ S4 point clouds
struct S4PosKind { DataType dt; int q; };
const S4PosKind kS4Pos[] = {{DT_FLOAT32, 0}, {DT_FLOAT32, 11}, {DT_FLOAT32, 1}, {DT_INT32, 0}, {DT_UINT8, 0}, {DT_INT16, 0}, {DT_UINT32, 0}};
// second attribute: 0 none, 1 COLOR u8x4, 2 GENERIC f32x1 q8, 3 GENERIC i16x2, 4 NORMAL f32x3 q6
Bytes s4_pos_value(DataType dt, int sel) {
  static const double V[3][3] = {{0, 0, 0}, {1, 2, 3}, {-4, 0.5, 100}};
  Bytes out;
  for (int c = 0; c < 3; ++c) {
    const double v = V[sel][c];
    switch (dt) {
      case DT_FLOAT32: { float f = (float)v; out.insert(out.end(), (uint8_t *)&f, (uint8_t *)&f + 4); break; }
      case DT_INT32: { int32_t f = (int32_t)(v * 1000); out.insert(out.end(), (uint8_t *)&f, (uint8_t *)&f + 4); break; }
      case DT_UINT32: { uint32_t f = (uint32_t)std::fabs(v * 100000); out.insert(out.end(), (uint8_t *)&f, (uint8_t *)&f + 4); break; }
      case DT_INT16: { int16_t f = (int16_t)(v * 300); out.insert(out.end(), (uint8_t *)&f, (uint8_t *)&f + 2); break; }
      default: { uint8_t f = (uint8_t)std::fabs(v * 2); out.push_back(f); break; }
    }
  }
  return out;
}

void add_s4(mc::Runner &R, const std::string &name, int max_n, std::vector<int> speeds, bool quick, bool thorough) {
  // idx -> (n, assignment) via cumulative 3^n
  std::vector<uint64_t> off;
  uint64_t total = 0;
  for (int n = 0; n <= max_n; ++n) {
    off.push_back(total);
    uint64_t p = 1;
    for (int i = 0; i < n; ++i) p *= 3;
    total += p;
  }
  mc::Radix rx{(uint64_t)speeds.size(), 3, 5, 7, total, 2};
  auto make = [=](uint64_t idx, GeomDef *g, EncCfg *c) {
    auto d = rx.decode(idx);
    c->use_plain_encoder = d[5] == 1;
    int n = max_n;
    while (off[n] > d[4]) --n;
    uint64_t asg = d[4] - off[n];
    const S4PosKind pk = kS4Pos[d[3]];
    g->is_mesh = false;
    g->num_points = n;
    AttDef pos;
    pos.type = GeometryAttribute::POSITION;
    pos.dt = pk.dt;
    pos.nc = 3;
    pos.uid = 3;
    AttDef b;
    b.uid = 9;
    const int second = (int)d[2];
    switch (second) {
      case 1: b.type = GeometryAttribute::COLOR; b.dt = DT_UINT8; b.nc = 4; b.normalized = true; break;
      case 2: b.type = GeometryAttribute::GENERIC; b.dt = DT_FLOAT32; b.nc = 1; break;
      case 3: b.type = GeometryAttribute::GENERIC; b.dt = DT_INT16; b.nc = 2; break;
      case 4: b.type = GeometryAttribute::NORMAL; b.dt = DT_FLOAT32; b.nc = 3; break;
      default: break;
    }
    for (int p = 0; p < n; ++p) {
      const int sel = asg % 3;
      asg /= 3;
      pos.entries.push_back(s4_pos_value(pk.dt, sel));
      // second attribute depends on the point index and the selection, so equal positions may carry different values
      const int w = (sel + p) % 3;
      switch (second) {
        case 1: b.entries.push_back(bytes_of(std::vector<uint8_t>{(uint8_t)(w * 100), 255, 0, (uint8_t)(p * 60)})); break;
        case 2: b.entries.push_back(bytes_of(std::vector<float>{w * 0.37f - 0.2f})); break;
        case 3: b.entries.push_back(bytes_of(std::vector<int16_t>{(int16_t)(w * 1000 - 1000), (int16_t)(-p)})); break;
        case 4: {
          const float N[3][3] = {{0, 0, 1}, {0.6f, 0.8f, 0}, {-0.57735f, 0.57735f, -0.57735f}};
          b.entries.push_back(bytes_of(std::vector<float>{N[w][0], N[w][1], N[w][2]}));
          break;
        }
        default: break;
      }
    }
    g->atts = {pos};
    if (second) g->atts.push_back(b);
    c->method = (int)d[1] == 2 ? -1 : (int)d[1];
    c->speed_enc = c->speed_dec = speeds[d[0]];
    c->qbits = {pk.q};
    if (second == 2) c->qbits.push_back(8);
    else if (second == 4) c->qbits.push_back(6);
    else if (second) c->qbits.push_back(0);
  };
  mc::Space s;
  s.name = name;
  s.size = rx.size();
  s.quick = quick;
  s.thorough = thorough;
  s.run = [=](uint64_t idx, mc::Ctx &ctx) {
    GeomDef g;
    EncCfg c;
    make(idx, &g, &c);
    auto r = rt::check_roundtrip(g, c, ctx, g.num_points == 0 ? "empty-point-cloud" : "", !g_c09, g_c09);
    if (r.decoded && g.num_points > 1) ctx.nontrivial_unique();
  };
  s.klass = [=](uint64_t idx) {
    GeomDef g;
    EncCfg c;
    make(idx, &g, &c);
    return g.num_points == 0 ? std::string("empty-point-cloud") : std::string();
  };
  s.describe = [=](uint64_t idx) {
    GeomDef g;
    EncCfg c;
    make(idx, &g, &c);
    return text(g) + " " + text(c);
  };
  R.add(s);
}

// ------------------------------------------------------------------ S5 thresholds
// One structured geometry per side of every size threshold visible in the
// code: a triangle strip (or a point set) with exactly n points.
struct S5Geom { std::string what; int n; bool mesh; };
std::vector<S5Geom> s5_list(bool thorough) {
  std::vector<S5Geom> v;
  for (int n : {39, 40, 41, 63, 64, 65, 255, 256, 257, 999 + 2, 1000 + 2, 1001 + 2, 4095, 4096, 4097}) v.push_back({"strip", n, true});
  for (int n : {63, 64, 65, 255, 256, 257, 4095, 4096, 4097}) v.push_back({"cloud", n, false});
  if (thorough) {
    for (int n : {65535, 65536, 65537}) v.push_back({"strip", n, true});
    for (int n : {65535, 65536, 65537}) v.push_back({"cloud", n, false});
  }
  return v;
}
GeomDef s5_geom(const S5Geom &sg, int variant) {
  GeomDef g;
  g.is_mesh = sg.mesh;
  g.num_points = sg.n;
  AttDef pos;
  pos.type = GeometryAttribute::POSITION;
  pos.nc = 3;
  pos.uid = 0;
  pos.dt = variant == 0 ? DT_FLOAT32 : DT_INT32;
  AttDef gen;
  gen.type = GeometryAttribute::GENERIC;
  gen.dt = DT_UINT16;
  gen.nc = 1;
  gen.uid = 5;
  const int W = 64;
  for (int i = 0; i < sg.n; ++i) {
    const int x = i % W, y = i / W, z = (i * 7) % 5;
    if (variant == 0) pos.entries.push_back(bytes_of(std::vector<float>{x * 0.5f, y * 0.25f, (float)z}));
    else pos.entries.push_back(bytes_of(std::vector<int32_t>{x, y, z}));
    if (variant != 2) gen.entries.push_back(bytes_of(std::vector<uint16_t>{(uint16_t)(i % 65536)}));  // n distinct symbols
  }
  if (variant == 2 && sg.mesh) {
    // per-face attribute value: every vertex is split into one point per incident face (attribute seams everywhere)
    g.num_points = 0;
    for (int i = 0; i + 2 < sg.n; ++i) {
      const int v[3] = {i % 2 == 0 ? i : i + 1, i % 2 == 0 ? i + 1 : i, i + 2};
      g.faces.push_back({g.num_points, g.num_points + 1, g.num_points + 2});
      for (int k = 0; k < 3; ++k) {
        pos.map.push_back(v[k]);
        gen.map.push_back(i % 7);
      }
      g.num_points += 3;
    }
    for (int k = 0; k < 7; ++k) gen.entries.push_back(bytes_of(std::vector<uint16_t>{(uint16_t)(k * 1000)}));
    gen.per_corner = true;
    g.atts = {pos, gen};
    return g;
  }
  if (variant == 2) {  // clouds: same as variant 1
    for (int i = 0; i < sg.n; ++i) gen.entries.push_back(bytes_of(std::vector<uint16_t>{(uint16_t)(i % 65536)}));
  }
  g.atts = {pos, gen};
  if (sg.mesh)
    for (int i = 0; i + 2 < sg.n; ++i) {
      if (i % 2 == 0) g.faces.push_back({i, i + 1, i + 2});
      else g.faces.push_back({i + 1, i, i + 2});
    }
  return g;
}
void add_s5(mc::Runner &R, const std::string &name, bool thorough_list, bool quick, bool thorough) {
  const std::vector<S5Geom> L = s5_list(thorough_list);
  // cfg: method kinds {0,1,2,3,4 = automatic} (cloud: seq/kd) x speed {0,1,5,10} x gen-pred {auto, none} x geometry variant {f32 q14, i32,
  // i32 + per-face attribute (seams everywhere)}
  mc::Radix rx{2, 4, 5, 3, (uint64_t)L.size()};
  auto make = [=](uint64_t idx, GeomDef *g, EncCfg *c) {
    auto d = rx.decode(idx);
    const S5Geom &sg = L[d[4]];
    *g = s5_geom(sg, (int)d[3]);
    static const int sp[4] = {0, 1, 5, 10};
    if (sg.mesh) *c = gs::mesh_cfg((int)d[2], sp[d[1]]);
    else {
      c->method = d[2] == 4 ? -1 : (int)d[2] % 2;
      c->speed_enc = c->speed_dec = sp[d[1]];
    }
    c->qbits = {d[3] == 0 ? 14 : 0, 0};
    c->pred = {-100, d[0] ? (int)PREDICTION_NONE : -100};
  };
  mc::Space s;
  s.name = name;
  s.size = rx.size();
  s.quick = quick;
  s.thorough = thorough;
  s.timeout_s = 120;
  s.run = [=](uint64_t idx, mc::Ctx &ctx) {
    GeomDef g;
    EncCfg c;
    make(idx, &g, &c);
    auto r = rt::check_roundtrip(g, c, ctx, "", !g_c09, g_c09);
    if (r.decoded) ctx.nontrivial_unique();
  };
  s.describe = [=](uint64_t idx) {
    GeomDef g;
    EncCfg c;
    make(idx, &g, &c);
    auto d = rx.decode(idx);
    return L[d[4]].what + " with " + std::to_string(L[d[4]].n) + " vertices, position " + (d[3] == 0 ? "f32 q14" : "i32") +
           (d[3] == 2 ? ", u16 attribute constant per face (every vertex split into one point per face); " : ", u16 attribute with one distinct value per point; ") + text(c);
  };
  R.add(s);
}

// ------------------------------------------------------------------ C07 end to end (--x-c07)
// Per-vertex normals from a direction alphabet on small topologies, all bit widths, sequential / Edgebreaker with
// difference and geometric-normal prediction.
const float kDirs[][3] = {{1, 0, 0},          {-1, 0, 0},        {0, 1, 0},           {0, -1, 0},          {0, 0, 1},        {0, 0, -1},
                          {1, 1, 0},          {-1, 1, 0},        {1, 0, -1},          {0, 1, 1},           {0, -1, 1},       {1, 1, 1},
                          {-1, -1, -1},       {1, -1, 1},        {0.301131f, 0.953583f, 0}, {-0.301131f, -0.953583f, 0}, {1e-3f, 1, 1e-3f}, {3e30f, -1e30f, 2e30f},
                          {1e-20f, 2e-20f, -1e-20f}, {0.6f, 0, -0.8f}};
const int kNumDirs = sizeof(kDirs) / sizeof(kDirs[0]);
const int kC07Bits[] = {2, 3, 4, 8, 10, 16, 24, 30};

void add_c07_e2e(mc::Runner &R, const std::string &name, int topo_kind, int nverts_varied, bool quick, bool thorough) {
  // topologies: 0 zig-zag wall (faces parallel to the z axis), 1 strip2, 2 bowtie over ids {0,1,2},{0,3,4}, 3 tetrahedron
  uint64_t nasg = 1;
  for (int i = 0; i < nverts_varied; ++i) nasg *= kNumDirs;
  // cfg: method {seq s5, eb std s0, eb valence s3, eb std s5} x bits(8) x position kind {q11, i32}
  mc::Radix rx{4, 8, 2, nasg};
  auto make = [=](uint64_t idx, GeomDef *g, EncCfg *c, int *q) {
    auto d = rx.decode(idx);
    Topo t;
    std::vector<std::array<float, 3>> P;
    if (topo_kind == 0) {
      t = {{0, 1, 2}, {2, 1, 3}, {2, 3, 4}, {4, 3, 5}};
      P = {{0, 0, 0}, {0, 0, 1}, {1, 2, 0}, {1, 2, 1}, {3, 3, 0}, {3, 3, 1}};
    } else if (topo_kind == 1) {
      t = {{0, 1, 2}, {2, 1, 3}};
      P = {{0, 0, 0}, {1, 0, 0}, {0, 1, 0}, {1, 1, 1}};
    } else if (topo_kind == 2) {
      t = {{0, 1, 2}, {0, 3, 4}};
      P = {{0, 0, 0}, {1, 0, 0}, {0, 1, 0}, {0, 0, 1}, {1, 1, 1}};
    } else {
      t = {{0, 1, 2}, {0, 3, 1}, {1, 3, 2}, {2, 3, 0}};
      P = {{0, 0, 0}, {1, 0, 0}, {0, 1, 0}, {0, 0, 1}};
    }
    const bool ipos = d[2] == 1;
    g->is_mesh = true;
    g->num_points = (int)P.size();
    g->faces = t;
    AttDef pos, nrm;
    pos.type = GeometryAttribute::POSITION; pos.nc = 3; pos.uid = 0; pos.dt = ipos ? DT_INT32 : DT_FLOAT32;
    nrm.type = GeometryAttribute::NORMAL; nrm.nc = 3; nrm.uid = 4; nrm.dt = DT_FLOAT32;
    uint64_t a = d[3];
    for (size_t v = 0; v < P.size(); ++v) {
      if (ipos) pos.entries.push_back(bytes_of(std::vector<int32_t>{(int32_t)P[v][0], (int32_t)P[v][1], (int32_t)P[v][2]}));
      else pos.entries.push_back(bytes_of(std::vector<float>{P[v][0], P[v][1], P[v][2]}));
      int di;
      if ((int)v < nverts_varied) {
        di = a % kNumDirs;
        a /= kNumDirs;
      } else {
        di = (int)((v * 7 + d[3]) % kNumDirs);
      }
      nrm.entries.push_back(bytes_of(std::vector<float>{kDirs[di][0], kDirs[di][1], kDirs[di][2]}));
    }
    g->atts = {pos, nrm};
    *q = kC07Bits[d[1]];
    static const int mk[4] = {0, 2, 3, 2}, sp[4] = {5, 0, 3, 5};
    *c = gs::mesh_cfg(mk[d[0]], sp[d[0]]);
    c->qbits = {ipos ? 0 : 11, *q};
  };
  mc::Space s;
  s.name = name;
  s.size = rx.size();
  s.quick = quick;
  s.thorough = thorough;
  s.run = [=](uint64_t idx, mc::Ctx &ctx) {
    GeomDef g;
    EncCfg c;
    int q;
    make(idx, &g, &c, &q);
    rt::check_normals_end_to_end(g, c, 1, q, ctx);
    ctx.nontrivial_unique();
  };
  s.describe = [=](uint64_t idx) {
    GeomDef g;
    EncCfg c;
    int q;
    make(idx, &g, &c, &q);
    return text(g) + " " + text(c);
  };
  R.add(s);
}

}  // namespace

int main(int argc, char **argv) {
  bool c09 = false, c07 = false;
  for (int i = 1; i < argc; ++i) {
    c09 = c09 || std::string(argv[i]) == "--x-c09";
    c07 = c07 || std::string(argv[i]) == "--x-c07";
  }
  g_c09 = c09;
  if (c07) {
    mc::Runner R(argc, argv, "C07");
    R.level = "model_checking";
    R.rule =
        "end to end: meshes (zig-zag wall parallel to the z axis, two-triangle strip, bow-tie, tetrahedron) whose per-vertex normals take "
        "EVERY assignment from a 20-direction alphabet (axes, edges, corners, near-axis, huge and tiny lengths) on the varied vertices x q in "
        "{2,3,4,8,10,16,24,30} x {sequential, Edgebreaker standard speed 0 (geometric-normal prediction), valence speed 3, standard speed 5 "
        "(difference prediction)} x {quantized float, integer} positions; non-trivial = every executed case";
    R.explanation =
        "oracle = the property's statement on the decoded geometry: every decoded normal finite, unit length within 1e-6 and within "
        "3*(2/(2^q-2))+2e-6 rad of a source normal of the same vertex (matched through the position)";
    R.assumptions = {"decoded points are matched to source vertices through their position value"};
    R.transition_counters = {"encode_calls", "e2e_normals_compared"};
    add_c07_e2e(R, "e2e_wall_2_vertices", 0, 2, true, true);
    add_c07_e2e(R, "e2e_strip2_2_vertices", 1, 2, true, true);
    add_c07_e2e(R, "e2e_bowtie_2_vertices", 2, 2, true, true);
    add_c07_e2e(R, "e2e_wall_3_vertices", 0, 3, false, true);
    add_c07_e2e(R, "e2e_tetrahedron_3_vertices", 3, 3, false, true);
    R.require("e2e_normals_compared", 1000);
    return R.main();
  }
  mc::Runner R(argc, argv, c09 ? "C09" : "C01");
  R.level = "model_checking";
  const bool asan = R.flag("asan");
  R.distinct_bits = 24;

  for (int F = 0; F <= 2; ++F)
    for (auto &t : gs::canonical_topologies(F, 5)) g_topos_f2.push_back(t);
  g_topos_f3i4 = gs::canonical_topologies(3, 4);
  g_topos_f3 = gs::canonical_topologies(3, 5);
  if (R.thorough() && !asan) g_topos_f4 = gs::canonical_topologies(4, 5);
  g_named = gs::named_families();
  for (auto &t : g_topos_f2)
    if (!t.empty()) g_s2_small.add(t);
  for (auto &n : g_named) g_s2_named.add(n.second);
  for (auto &t : g_topos_f2)
    if (!t.empty()) g_topos_f2_only.push_back(t);
  for (auto &n : g_named) {
    if (n.first == "closed_fan3" || n.first == "fan3") g_topos_s2b_named.push_back(n.second);
    if (n.first == "tetrahedron" || n.first == "fan4" || n.first == "two_pillows") g_topos_s2b_perface.push_back(n.second);
  }

  R.rule =
      "spaces S1 (all triangle lists up to vertex relabelling, F<=4 over <=5 ids, with/without an isolated point, 4 position "
      "kinds), S2 (all two-value per-corner attribute assignments = every seam pattern on all F<=2 topologies and named F=3,4 "
      "families, deduplicated and non-deduplicated points), each x connectivity method x split-on-seams x speed; every case is "
      "encoded and decoded by the real code; states = distinct encoded streams; non-trivial = cases that encode and decode ok "
      "and have at least one face (S1) / two different attribute values (S2)";
  R.explanation = c09 ? "same executions with SetTrackEncodedProperties(true); oracle: reported point/face counts == decoded counts"
                      : "oracle: reference geometry model (attribute set by unique id; ordered equality for sequential methods; multiset "
                        "sandwich T_nondegenerate <= T_decoded <= T_source for Edgebreaker; quantized attributes compared with the "
                        "declared quantization of the source value)";
  R.assumptions = {"meshes larger than the bounds are represented only by the threshold families (S5)",
                   "expected values of quantized attributes use the parameters the stream declares; the numeric quality of the "
                   "quantizers is decided by C04/C07"};
  R.transition_counters = {"encode_calls", "decode_ok"};

  if (!asan) {
    // -O2 build: the large products
    add_s1(R, "S1_F2", &g_topos_f2, {0, 1, 2}, {0, 1, 2, 3}, true, true, true, true);
    add_s1(R, "S1_F3ids4", &g_topos_f3i4, {0, 1, 2}, {0, 1, 2, 3}, false, true, false);
    add_s1(R, "S1_F3", &g_topos_f3, {0, 1, 2}, {0, 1, 2, 3}, true, false, true);
    add_s1(R, "S1_F4", &g_topos_f4, {0}, {1, 2}, true, false, true);
    add_s2(R, "S2_F2_quick", &g_s2_small, {1}, {0, 1, 2}, {0, 2, 3}, false, true, false);
    add_s2(R, "S2_F2", &g_s2_small, {1, 2}, {0, 1, 2, 3}, {0, 1, 2, 3, 4}, true, false, true);
    add_s2(R, "S2_named", &g_s2_named, {1, 2}, {0, 1, 2}, {0, 2, 3}, false, false, true);
    add_s2c(R, "S2c_several_components", true, true);
    add_s6(R, "S6_subgrids_3x3", 3, 3, true, true);
    add_s6(R, "S6_subgrids_4x4", 4, 4, true, true);
    add_s6(R, "S6_subgrids_5x4", 5, 4, false, true);
    add_s6c(R, "S6c_grid_5x5_minus_up_to_3_cells", 5, 5, 3, true, true);
    add_s6c(R, "S6c_grid_6x5_minus_up_to_4_cells", 6, 5, 4, false, true);
    add_s6b(R, "S6b_triangle_subsets_3x3", 3, 3, true, true);
    add_s6b(R, "S6b_triangle_subsets_4x3", 4, 3, false, true);
    add_s2b(R, "S2b_F2_two_attributes_reduced", &g_topos_f2_only, false, {0}, true, false, true);
    add_s2b(R, "S2b_closed_second_attribute_per_face_reduced", &g_topos_s2b_perface, true, {0, 5}, true, false, true);
    add_s2b(R, "S2b_F2_two_attributes", &g_topos_f2_only, false, {0, 5}, false, true);
    add_s2b(R, "S2b_fans_two_attributes", &g_topos_s2b_named, false, {0, 5}, false, true);
    add_s2b(R, "S2b_closed_second_attribute_per_face", &g_topos_s2b_perface, true, {0, 3, 5}, false, true);
  } else {
    // ASan+UBSan build: the same enumerations at smaller bounds
    add_s1(R, "asan_S1_F2", &g_topos_f2, {0, 1, 2}, {0, 1, 2, 3}, false, true, true, true);
    add_s1(R, "asan_S1_F3ids4", &g_topos_f3i4, {0}, {1, 2}, false, false, true);
    add_s2(R, "asan_S2_F2_quick", &g_s2_small, {1}, {0}, {2}, false, true, false, true);
    add_s2(R, "asan_S2_F2", &g_s2_small, {1, 2}, {0, 1, 2}, {0, 2, 3}, false, false, true);
  }
  {
    S3Dims q;  // quick
    q.topos = {1, 3}; q.atypes = {0, 1, 2}; q.dts = {0, 1, 2, 3, 4, 5, 6}; q.ncs = {1, 2, 3, 4}; q.vss = {0, 1, 3};
    q.poskinds = {0, 1}; q.methods = {0, 2}; q.speeds = {0, 10}; q.preds = {0, 1, 2, 3, 4, 5, 6, 7}; q.quants = {0, 8};
    S3Dims t;  // thorough
    t.topos = {0, 1, 2, 3}; t.atypes = {0, 1, 2, 3}; t.dts = {0, 1, 2, 3, 4, 5, 6}; t.ncs = {1, 2, 3, 4, 5}; t.vss = {0, 1, 2, 3};
    t.poskinds = {0, 1, 2}; t.methods = {0, 2, 3}; t.speeds = {0, 5, 10}; t.preds = {0, 1, 2, 3, 4, 5, 6, 7}; t.quants = {0, 8, 30};
    if (asan) {
      add_s3(R, "asan_S3_quick", q, true, true, false, true);
      add_s3(R, "asan_S3", t, false, true, true);
      add_s7(R, "asan_S7_attribute_order_and_ids", true, true);
      add_s9(R, "asan_S9_clustered_clouds_and_point_maps", true, true);
      add_s10(R, "asan_S10_unusual_attribute_layouts", true, true);
      add_s8(R, "asan_S8_full_range_grids", {4, 8}, true, true);
      add_s8(R, "asan_S8_full_range_grids_12_24", {12, 24}, false, true);
      add_s4(R, "asan_S4_N3", 3, {0, 4, 10}, true, false);
      add_s4(R, "asan_S4_N4", 4, {0, 1, 2, 3, 4, 5, 6, 7, 8, 9, 10}, false, true);
      add_s5(R, "asan_S5", false, true, false);
      add_s5(R, "asan_S5_large", true, false, true);
    }
  }
  R.require("encode_ok", 1000);
  R.require("decode_ok", 1000);
  if (!c09) R.require("cases_with_two_attribute_values", 100);
  return R.main();
}
