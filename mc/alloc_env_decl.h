// Replaceable global operator new/delete: the allocator as an explored
// "environment answer" and as a monitor.
//   * cap: a single request above `cap` throws std::bad_alloc (recorded);
//     corrupted element counts otherwise really allocate gigabytes;
//   * monitor: number of requests, largest request, live bytes, peak;
//   * fill: fresh memory is filled with a chosen byte (00 / FF / A5) so that a
//     dependence on uninitialised heap contents becomes a visible difference;
//   * hook: optional callback on every new/delete (scheduling point for C19).
// (declarations only; mc/alloc_env.h defines the operators)
#ifndef VERIF_MC_ALLOC_ENV_DECL_H_
#define VERIF_MC_ALLOC_ENV_DECL_H_

#include <malloc.h>

#include <atomic>
#include <cstdint>
#include <cstdlib>
#include <cstring>
#include <new>

namespace mc {

struct AllocEnv {
  size_t cap = size_t(64) << 20;
  bool monitor = false;
  int fill = -1;  // -1: leave as malloc returns it
  // statistics (valid while monitor == true)
  uint64_t requests = 0;
  uint64_t largest = 0;
  int64_t live = 0;
  int64_t peak = 0;
  uint64_t refused = 0;       // requests above cap
  uint64_t refused_size = 0;  // size of the last refused request
  void (*hook)(int is_delete, size_t size) = nullptr;
  // Arena answers (address-order perturbation, non-sanitizer builds only):
  // 0 = malloc, 1 = bump allocation at ascending addresses, 2 = descending.
  int arena_mode = 0;
  char *arena_base = nullptr;
  size_t arena_size = 0;
  size_t arena_used = 0;
  void arena_reset() { arena_used = 0; }
  void reset_stats() {
    requests = largest = refused = refused_size = 0;
    live = peak = 0;
  }
};

inline AllocEnv &alloc_env() {
  static AllocEnv e;
  return e;
}

}  // namespace mc

#endif  // VERIF_MC_ALLOC_ENV_DECL_H_
