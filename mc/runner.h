// Bounded-exhaustive exploration runner.
//
// A harness registers named *spaces*; a space is a finite index range
// [0,size) plus a function that executes case #idx on the real draco code and
// reports oracle failures through Ctx::fail(). The runner enumerates every
// index of every selected space (nothing is sampled), sharded by stride over
// forked workers, with
//   * a shared-memory cell per worker holding the case in flight, so that a
//     fatal signal / sanitizer abort is attributed to its case and the worker
//     is restarted behind it,
//   * a watchdog (per-case limit, then a solo re-run with a long limit before
//     anything is called a hang),
//   * shared counters and a shared exact-hash set for "distinct" counting,
//   * replay of every reported case twice (observations must agree) before a
//     VIOLATION line is printed,
//   * known-finding matching by signature,
//   * an evidence file per EVIDENCE.schema.json.
#ifndef VERIF_MC_RUNNER_H_
#define VERIF_MC_RUNNER_H_

#include <fcntl.h>
#include <poll.h>
#include <signal.h>
#include <sys/mman.h>
#include <sys/stat.h>
#include <sys/time.h>
#include <sys/wait.h>
#include <unistd.h>

#include <algorithm>
#include <atomic>
#include <cerrno>
#include <cinttypes>
#include <cstdint>
#include <cstdio>
#include <cstdlib>
#include <cstring>
#include <exception>
#include <fstream>
#include <functional>
#include <map>
#include <set>
#include <sstream>
#include <string>
#include <typeinfo>
#include <unordered_map>
#include <vector>

namespace mc {

inline uint64_t now_ns() {
  struct timespec ts;
  clock_gettime(CLOCK_MONOTONIC, &ts);
  return uint64_t(ts.tv_sec) * 1000000000ull + ts.tv_nsec;
}

inline uint64_t mix64(uint64_t x) {
  x ^= x >> 33;
  x *= 0xff51afd7ed558ccdULL;
  x ^= x >> 33;
  x *= 0xc4ceb9fe1a85ec53ULL;
  x ^= x >> 33;
  return x;
}
inline uint64_t hash_bytes(const void *p, size_t n, uint64_t seed = 0) {
  const uint8_t *b = static_cast<const uint8_t *>(p);
  uint64_t h = 0xcbf29ce484222325ULL ^ mix64(seed + 0x9e3779b97f4a7c15ULL);
  size_t i = 0;
  for (; i + 8 <= n; i += 8) {
    uint64_t v;
    memcpy(&v, b + i, 8);
    h = mix64(h ^ v) * 0x100000001b3ULL + 0x632be59bd9b4e019ULL;
  }
  for (; i < n; ++i) h = (h ^ b[i]) * 0x100000001b3ULL;
  return mix64(h ^ n);
}
inline uint64_t hash_combine(uint64_t a, uint64_t b) {
  return mix64(a * 0x9e3779b97f4a7c15ULL + b + 0x7f4a7c159e3779b9ULL);
}
inline uint64_t hash_str(const std::string &s) {
  return hash_bytes(s.data(), s.size());
}

inline std::string json_escape(const std::string &s) {
  std::string o;
  o.reserve(s.size() + 8);
  for (unsigned char c : s) {
    switch (c) {
      case '"': o += "\\\""; break;
      case '\\': o += "\\\\"; break;
      case '\n': o += "\\n"; break;
      case '\r': o += "\\r"; break;
      case '\t': o += "\\t"; break;
      default:
        if (c < 0x20 || c >= 0x7f) {
          char b[8];
          snprintf(b, sizeof b, "\\u%04x", c);
          o += b;
        } else {
          o += char(c);
        }
    }
  }
  return o;
}
inline std::string jstr(const std::string &s) {
  return "\"" + json_escape(s) + "\"";
}
inline std::string hex(const void *p, size_t n) {
  static const char *d = "0123456789abcdef";
  std::string o;
  o.reserve(2 * n);
  const uint8_t *b = static_cast<const uint8_t *>(p);
  for (size_t i = 0; i < n; ++i) {
    o += d[b[i] >> 4];
    o += d[b[i] & 15];
  }
  return o;
}

// Mixed-radix odometer: decode idx into digits (least significant first).
struct Radix {
  std::vector<uint64_t> radices;
  Radix() {}
  Radix(std::initializer_list<uint64_t> r) : radices(r) {}
  uint64_t size() const {
    uint64_t s = 1;
    for (uint64_t r : radices) s *= r;
    return s;
  }
  std::vector<uint64_t> decode(uint64_t idx) const {
    std::vector<uint64_t> d(radices.size());
    for (size_t i = 0; i < radices.size(); ++i) {
      d[i] = idx % radices[i];
      idx /= radices[i];
    }
    return d;
  }
};

// ---------------------------------------------------------------- shared mem
static const int kMaxWorkers = 64;
static const int kMaxCounters = 2048;
static const int kCounterName = 120;

struct WorkerCell {
  std::atomic<uint64_t> cur;         // index in flight (valid if in_case)
  std::atomic<uint64_t> started_ns;  // 0 when idle
  std::atomic<uint64_t> done;        // cases completed by this worker
  std::atomic<uint64_t> next;        // next index this worker will run
  char pad[32];
};
struct CounterSlot {
  char name[kCounterName];
  std::atomic<uint64_t> value;
};
struct Shared {
  std::atomic<int> stop;
  std::atomic<int> lock;
  std::atomic<int> num_counters;
  std::atomic<uint64_t> distinct_n[2];
  WorkerCell w[kMaxWorkers];
  CounterSlot counters[kMaxCounters];
};

class Ctx {
 public:
  Shared *sh = nullptr;
  std::atomic<uint64_t> *table[2] = {nullptr, nullptr};
  uint64_t table_mask = 0;
  int msg_fd = -1;
  bool replay = false;
  std::string space;
  uint64_t idx = 0;
  std::unordered_map<std::string, int> slot_cache;
  std::unordered_map<std::string, int> sent;  // per-signature sends so far
  std::vector<std::pair<std::string, std::string>> replay_fails;

  // Report an oracle failure for the case in flight. |sig| identifies the
  // *kind* of failure in terms of the input class / call site (it is what
  // known_findings.json matches on); |detail| is free text.
  void fail(const std::string &sig, const std::string &detail) {
    count("fail:" + sig);
    if (replay) {
      replay_fails.emplace_back(sig, detail);
      return;
    }
    int &n = sent[sig];
    if (n >= 4) return;
    ++n;
    std::string d = detail.substr(0, 3000);
    for (char &c : d)
      if (c == '\n' || c == '\t') c = ' ';
    std::string s = sig;
    for (char &c : s)
      if (c == '\n' || c == '\t') c = ' ';
    char head[64];
    snprintf(head, sizeof head, "%" PRIu64, idx);
    std::string line = "V\t" + space + "\t" + head + "\t" + s + "\t" + d + "\n";
    ssize_t r = write(msg_fd, line.data(), line.size());
    (void)r;
  }

  void count(const std::string &name, uint64_t n = 1) {
    int s = slot(name);
    if (s >= 0) sh->counters[s].value.fetch_add(n, std::memory_order_relaxed);
  }
  void count_max(const std::string &name, uint64_t v) {
    int s = slot(name);
    if (s < 0) return;
    uint64_t cur = sh->counters[s].value.load(std::memory_order_relaxed);
    while (cur < v && !sh->counters[s].value.compare_exchange_weak(cur, v)) {
    }
  }
  // Exact-hash shared sets: set 0 = "distinct states", set 1 = "distinct
  // nontrivial cases". Returns true when |h| was not present before.
  bool distinct(uint64_t h, int set = 0) {
    if (!table[set]) return false;
    if (h == 0) h = 1;
    if (sh->distinct_n[set].load(std::memory_order_relaxed) > (table_mask >> 2) * 3) {
      // Table 3/4 full: stop inserting, the reported count is a lower bound.
      count(set ? "distinct_nontrivial_is_lower_bound" : "distinct_states_is_lower_bound");
      return false;
    }
    uint64_t pos = mix64(h) & table_mask;
    for (uint64_t probe = 0; probe < 4096; ++probe) {
      uint64_t cur = table[set][pos].load(std::memory_order_relaxed);
      if (cur == h) return false;
      if (cur == 0) {
        uint64_t expect = 0;
        if (table[set][pos].compare_exchange_strong(expect, h)) {
          sh->distinct_n[set].fetch_add(1, std::memory_order_relaxed);
          return true;
        }
        if (expect == h) return false;
      }
      pos = (pos + 1) & table_mask;
    }
    count("distinct_table_saturated");
    return false;
  }
  bool state(uint64_t h) { return distinct(h, 0); }
  bool nontrivial(uint64_t h) { return distinct(h, 1); }
  // For cases that are distinct by construction (different index => different
  // input): counts without hashing.
  void nontrivial_unique() { sh->distinct_n[1].fetch_add(1, std::memory_order_relaxed); }

 private:
  int slot(const std::string &name) {
    auto it = slot_cache.find(name);
    if (it != slot_cache.end()) return it->second;
    std::string key = name.substr(0, kCounterName - 1);
    while (sh->lock.exchange(1, std::memory_order_acquire)) {
    }
    int n = sh->num_counters.load();
    int found = -1;
    for (int i = 0; i < n; ++i)
      if (key == sh->counters[i].name) {
        found = i;
        break;
      }
    if (found < 0 && n < kMaxCounters) {
      strncpy(sh->counters[n].name, key.c_str(), kCounterName - 1);
      found = n;
      sh->num_counters.store(n + 1);
    }
    sh->lock.store(0, std::memory_order_release);
    slot_cache[name] = found;
    return found;
  }
};

struct Space {
  std::string name;
  uint64_t size = 0;
  std::function<void(uint64_t, Ctx &)> run;
  std::function<std::string(uint64_t)> describe;  // human/replayable form
  // Optional input-class tag appended to crash/hang signatures.
  std::function<std::string(uint64_t)> klass;
  bool quick = true, thorough = true;
  double timeout_s = 20;       // per-case watchdog
  double solo_timeout_s = 120; // solo re-run before a hang is reported
  // Executions of the real code performed per index (chunked spaces).
  uint64_t cases_per_index = 1;
  // Called in each worker once before the loop (e.g. to build tables).
  std::function<void()> worker_init;
};

struct Violation {
  std::string space;
  uint64_t idx;
  std::string sig, detail;
};

class Runner {
 public:
  std::string property, level = "model_checking";
  std::string tier = "quick";
  std::string evidence_path, known_path, replay_dir, log_dir;
  std::string replay_space;
  uint64_t replay_index = 0;
  bool replay_mode = false;
  int workers = 16;
  long seed = 0;
  double deadline_s = 0;  // 0: default per tier
  int distinct_bits = 24;
  std::string rule, explanation;
  std::vector<std::string> assumptions;
  std::vector<std::string> trusted_base;
  std::vector<Space> spaces;
  // Counter requirements (vacuity guards): name -> minimum.
  std::vector<std::pair<std::string, uint64_t>> required;
  // Which counter names define states / transitions (sum); defaults below.
  std::vector<std::string> transition_counters;
  std::string only_space;  // --space NAME: restrict (debugging)
  uint64_t limit = 0;      // --limit N: cap per space (debugging; not exhaustive)
  std::map<std::string, std::string> extra;  // extra coverage keys (raw JSON)
  int part = 0;                  // index of this harness run within ./check
  std::set<std::string> xflags;  // harness-specific flags given as --x-<name>
  bool flag(const std::string &n) const { return xflags.count(n) != 0; }

  Runner(int argc, char **argv, const std::string &prop) : property(prop) {
    for (int i = 1; i < argc; ++i) {
      std::string a = argv[i];
      auto next = [&]() -> std::string {
        if (i + 1 >= argc) {
          fprintf(stderr, "missing value for %s\n", a.c_str());
          exit(2);
        }
        return argv[++i];
      };
      if (a == "--tier") tier = next();
      else if (a == "--evidence") evidence_path = next();
      else if (a == "--known") known_path = next();
      else if (a == "--replays") replay_dir = next();
      else if (a == "--logs") log_dir = next();
      else if (a == "--workers") workers = atoi(next().c_str());
      else if (a == "--seed") seed = atol(next().c_str());
      else if (a == "--deadline") deadline_s = atof(next().c_str());
      else if (a == "--space") only_space = next();
      else if (a == "--limit") limit = strtoull(next().c_str(), nullptr, 10);
      else if (a == "--replay-space") { replay_space = next(); replay_mode = true; }
      else if (a == "--replay-index") replay_index = strtoull(next().c_str(), nullptr, 10);
      else if (a == "--part") part = atoi(next().c_str());
      else if (a.compare(0, 4, "--x-") == 0) xflags.insert(a.substr(4));
      else { fprintf(stderr, "unknown arg %s\n", a.c_str()); exit(2); }
    }
    if (workers < 1) workers = 1;
    if (workers > kMaxWorkers) workers = kMaxWorkers;
    if (log_dir.empty()) log_dir = "/verif/build/logs";
    if (replay_dir.empty()) replay_dir = "/verif/replays/" + property;
  }
  bool thorough() const { return tier == "thorough"; }
  void add(Space s) { spaces.push_back(std::move(s)); }
  void require(const std::string &counter, uint64_t min) {
    required.emplace_back(counter, min);
  }

  int main();

  uint64_t counter(const std::string &name) const {
    int n = sh_->num_counters.load();
    for (int i = 0; i < n; ++i)
      if (name == sh_->counters[i].name) return sh_->counters[i].value.load();
    return 0;
  }

 private:
  Shared *sh_ = nullptr;
  std::atomic<uint64_t> *table_[2] = {nullptr, nullptr};
  uint64_t table_mask_ = 0;
  std::vector<Violation> violations_;
  struct Known { std::string sig, what; bool hit = false; };
  std::vector<Known> known_;
  struct SpaceStat { std::string name; uint64_t size, evaluated; bool complete; double wall; uint64_t slow; };
  std::vector<SpaceStat> stats_;
  uint64_t t0_ = 0;
  bool deadline_hit_ = false;
  int internal_errors_ = 0;

  void setup_shared();
  void load_known();
  Known *match_known(const std::string &sig);
  void run_space(const Space &sp);
  void worker_loop(const Space &sp, int w, uint64_t start, int fd);
  // Runs one case in a forked child. Returns list of (sig,detail); a crash or
  // timeout is turned into a synthetic signature.
  std::vector<std::pair<std::string, std::string>> run_solo(const Space &sp, uint64_t idx, double limit_s, bool *timed_out, double *secs);
  std::string crash_signature(const std::string &errfile, int status, std::string *detail);
  std::string errfile(int w) const {
    return log_dir + "/" + property + ".w" + std::to_string(w) + ".err";
  }
  void write_evidence(double wall, int nviol, const std::vector<std::string> &viol_samples);
  int replay_main();
};

inline void Runner::setup_shared() {
  void *p = mmap(nullptr, sizeof(Shared), PROT_READ | PROT_WRITE,
                 MAP_SHARED | MAP_ANONYMOUS, -1, 0);
  if (p == MAP_FAILED) { perror("mmap"); exit(2); }
  sh_ = new (p) Shared();
  memset(static_cast<void *>(sh_), 0, sizeof(Shared));
  uint64_t slots = 1ull << distinct_bits;
  table_mask_ = slots - 1;
  for (int k = 0; k < 2; ++k) {
    void *t = mmap(nullptr, slots * 8, PROT_READ | PROT_WRITE,
                   MAP_SHARED | MAP_ANONYMOUS | MAP_NORESERVE, -1, 0);
    if (t == MAP_FAILED) { perror("mmap table"); exit(2); }
    table_[k] = static_cast<std::atomic<uint64_t> *>(t);
  }
}

inline void Runner::load_known() {
  if (known_path.empty()) return;
  std::ifstream f(known_path);
  std::string line;
  while (std::getline(f, line)) {
    if (line.empty()) continue;
    size_t t = line.find('\t');
    Known k;
    k.sig = line.substr(0, t);
    k.what = t == std::string::npos ? "" : line.substr(t + 1);
    known_.push_back(k);
  }
}

inline Runner::Known *Runner::match_known(const std::string &sig) {
  // Patterns: "x" exact, "x*" prefix, "*x" suffix, "*x*" substring.
  for (auto &k : known_) {
    std::string p = k.sig;
    if (p.empty()) continue;
    const bool lead = p.front() == '*', trail = p.size() > 1 && p.back() == '*';
    if (lead) p.erase(0, 1);
    if (trail) p.pop_back();
    bool m;
    if (lead && trail) m = sig.find(p) != std::string::npos;
    else if (lead) m = sig.size() >= p.size() && sig.compare(sig.size() - p.size(), p.size(), p) == 0;
    else if (trail) m = sig.compare(0, p.size(), p) == 0;
    else m = sig == p;
    if (m) return &k;
  }
  return nullptr;
}

inline void Runner::worker_loop(const Space &sp, int w, uint64_t start, int fd) {
  Ctx ctx;
  ctx.sh = sh_;
  ctx.table[0] = table_[0];
  ctx.table[1] = table_[1];
  ctx.table_mask = table_mask_;
  ctx.msg_fd = fd;
  ctx.space = sp.name;
  if (sp.worker_init) sp.worker_init();
  WorkerCell &cell = sh_->w[w];
  uint64_t size = sp.size;
  if (limit && limit < size) size = limit;
  for (uint64_t i = start; i < size; i += workers) {
    if (sh_->stop.load(std::memory_order_relaxed)) break;
    cell.cur.store(i, std::memory_order_relaxed);
    cell.started_ns.store(now_ns(), std::memory_order_release);
    ctx.idx = i;
    try {
      sp.run(i, ctx);
    } catch (const std::exception &e) {
      ctx.fail(std::string("exception:") + typeid(e).name(), e.what());
    } catch (...) {
      ctx.fail("exception:unknown", "");
    }
    cell.started_ns.store(0, std::memory_order_release);
    cell.next.store(i + workers, std::memory_order_relaxed);
    cell.done.fetch_add(1, std::memory_order_relaxed);
  }
  cell.next.store(UINT64_MAX, std::memory_order_relaxed);
}

inline std::string Runner::crash_signature(const std::string &errfile, int status, std::string *detail) {
  std::ifstream f(errfile);
  std::stringstream ss;
  ss << f.rdbuf();
  std::string text = ss.str();
  std::string kind;
  if (WIFSIGNALED(status)) kind = "signal" + std::to_string(WTERMSIG(status));
  else kind = "exit" + std::to_string(WEXITSTATUS(status));
  // sanitizer summary
  std::string summary, func;
  size_t p = text.find("SUMMARY: ");
  if (p != std::string::npos) {
    size_t e = text.find('\n', p);
    summary = text.substr(p + 9, e == std::string::npos ? std::string::npos : e - p - 9);
  }
  size_t r = text.find("runtime error: ");
  std::string ub;
  if (r != std::string::npos) {
    size_t e = text.find('\n', r);
    ub = text.substr(r + 15, e - r - 15);
    // strip numbers so the signature is stable across values
    std::string s2;
    for (char c : ub) s2 += (c >= '0' && c <= '9') ? '#' : c;
    std::string s3;
    for (char c : s2) if (!(c == '#' && !s3.empty() && s3.back() == '#')) s3 += c;
    // file of the report
    size_t ls = text.rfind('\n', r);
    std::string loc = text.substr(ls == std::string::npos ? 0 : ls + 1, r - (ls == std::string::npos ? 0 : ls + 1));
    size_t sl = loc.find("/src/draco/");
    if (sl != std::string::npos) loc = loc.substr(sl + 11);
    size_t col = loc.find(':');
    if (col != std::string::npos) loc = loc.substr(0, col);
    ub = "ubsan:" + loc + ":" + s3;
  }
  // first frame inside draco sources
  size_t pos = 0;
  while ((pos = text.find(" in ", pos)) != std::string::npos) {
    size_t e = text.find('\n', pos);
    std::string ln = text.substr(pos + 4, e - pos - 4);
    pos = e == std::string::npos ? text.size() : e;
    if (ln.find("/src/draco/") == std::string::npos) continue;
    size_t sp2 = ln.find(" /");
    func = ln.substr(0, sp2);
    size_t par = func.find('(');
    if (par != std::string::npos) func = func.substr(0, par);
    // drop template arguments to keep it short
    std::string f2; int depth = 0;
    for (char c : func) { if (c == '<') depth++; else if (c == '>') depth--; else if (!depth) f2 += c; }
    func = f2;
    break;
  }
  std::string sig = "crash:";
  if (!ub.empty()) sig += ub;
  else if (!summary.empty()) {
    // "AddressSanitizer: heap-buffer-overflow /path:line in func"
    std::stringstream s(summary);
    std::string a, b;
    s >> a >> b;
    sig += a + b;
  } else sig += kind;
  if (!func.empty()) sig += "@" + func;
  if (detail) *detail = kind + " " + summary + " " + text.substr(0, 1500);
  return sig;
}

inline std::vector<std::pair<std::string, std::string>> Runner::run_solo(
    const Space &sp, uint64_t idx, double limit_s, bool *timed_out, double *secs) {
  std::vector<std::pair<std::string, std::string>> out;
  if (timed_out) *timed_out = false;
  int fds[2];
  if (pipe(fds)) { perror("pipe"); exit(2); }
  std::string ef = errfile(900 + int(getpid() % 50));
  uint64_t t0 = now_ns();
  pid_t pid = fork();
  if (pid == 0) {
    close(fds[0]);
    int e = open(ef.c_str(), O_WRONLY | O_CREAT | O_TRUNC, 0644);
    if (e >= 0) { dup2(e, 2); close(e); }
    Ctx ctx;
    ctx.sh = sh_;
    ctx.table[0] = table_[0]; ctx.table[1] = table_[1]; ctx.table_mask = table_mask_;
    ctx.replay = true;
    ctx.space = sp.name;
    ctx.idx = idx;
    if (sp.worker_init) sp.worker_init();
    try {
      sp.run(idx, ctx);
    } catch (const std::exception &e2) {
      ctx.fail(std::string("exception:") + typeid(e2).name(), e2.what());
    } catch (...) {
      ctx.fail("exception:unknown", "");
    }
    std::string buf;
    for (auto &f : ctx.replay_fails) {
      std::string d = f.second.substr(0, 3000);
      for (char &c : d) if (c == '\n' || c == '\t') c = ' ';
      buf += f.first + "\t" + d + "\n";
    }
    size_t off = 0;
    while (off < buf.size()) {
      ssize_t r = write(fds[1], buf.data() + off, buf.size() - off);
      if (r <= 0) break;
      off += r;
    }
    _exit(0);
  }
  close(fds[1]);
  std::string buf;
  int status = 0;
  while (true) {
    struct pollfd pfd = {fds[0], POLLIN, 0};
    int pr = poll(&pfd, 1, 50);
    if (pr > 0) {
      char tmp[4096];
      ssize_t r = read(fds[0], tmp, sizeof tmp);
      if (r > 0) { buf.append(tmp, r); continue; }
      if (r == 0) break;
      if (errno != EINTR && errno != EAGAIN) break;
    }
    if ((now_ns() - t0) / 1e9 > limit_s) {
      kill(pid, SIGKILL);
      if (timed_out) *timed_out = true;
      break;
    }
  }
  waitpid(pid, &status, 0);
  close(fds[0]);
  if (secs) *secs = (now_ns() - t0) / 1e9;
  std::stringstream ss(buf);
  std::string line;
  while (std::getline(ss, line)) {
    size_t t = line.find('\t');
    out.emplace_back(line.substr(0, t), t == std::string::npos ? "" : line.substr(t + 1));
  }
  std::string k = sp.klass ? sp.klass(idx) : "";
  if (timed_out && *timed_out) {
    out.emplace_back("hang" + (k.empty() ? "" : "|" + k), "no return within " + std::to_string(limit_s) + " s");
  } else if (!(WIFEXITED(status) && WEXITSTATUS(status) == 0)) {
    std::string detail;
    std::string sig = crash_signature(ef, status, &detail);
    out.emplace_back(sig + (k.empty() ? "" : "|" + k), detail);
  }
  unlink(ef.c_str());
  return out;
}

inline void Runner::run_space(const Space &sp) {
  uint64_t size = sp.size;
  if (limit && limit < size) size = limit;
  uint64_t t_start = now_ns();
  struct W { pid_t pid = -1; int fd = -1; std::string buf; bool alive = false; };
  std::vector<W> ws(workers);
  for (int w = 0; w < workers; ++w) {
    sh_->w[w].cur = 0; sh_->w[w].started_ns = 0; sh_->w[w].done = 0; sh_->w[w].next = w;
  }
  std::vector<std::pair<uint64_t, std::string>> pending_solo;  // (idx, why)
  auto spawn = [&](int w, uint64_t start) {
    if (start >= size) { ws[w].alive = false; return; }
    int fds[2];
    if (pipe(fds)) { perror("pipe"); exit(2); }
    pid_t pid = fork();
    if (pid < 0) { perror("fork"); exit(2); }
    if (pid == 0) {
      close(fds[0]);
      for (auto &o : ws) if (o.fd >= 0) close(o.fd);
      int e = open(errfile(w).c_str(), O_WRONLY | O_CREAT | O_TRUNC, 0644);
      if (e >= 0) { dup2(e, 2); close(e); }
      worker_loop(sp, w, start, fds[1]);
      _exit(0);
    }
    close(fds[1]);
    fcntl(fds[0], F_SETFL, O_NONBLOCK);
    ws[w].pid = pid; ws[w].fd = fds[0]; ws[w].alive = true; ws[w].buf.clear();
  };
  for (int w = 0; w < workers; ++w) spawn(w, w);
  auto drain = [&](int w) {
    char tmp[65536];
    while (ws[w].fd >= 0) {
      ssize_t r = read(ws[w].fd, tmp, sizeof tmp);
      if (r > 0) { ws[w].buf.append(tmp, r); continue; }
      break;
    }
    size_t nl;
    while ((nl = ws[w].buf.find('\n')) != std::string::npos) {
      std::string line = ws[w].buf.substr(0, nl);
      ws[w].buf.erase(0, nl + 1);
      // V \t space \t idx \t sig \t detail
      std::vector<std::string> f;
      size_t s = 0;
      for (int k = 0; k < 4; ++k) {
        size_t t = line.find('\t', s);
        if (t == std::string::npos) break;
        f.push_back(line.substr(s, t - s));
        s = t + 1;
      }
      f.push_back(line.substr(s));
      if (f.size() == 5 && f[0] == "V")
        violations_.push_back({f[1], strtoull(f[2].c_str(), nullptr, 10), f[3], f[4]});
    }
  };
  uint64_t slow = 0;
  int alive = workers;
  while (true) {
    alive = 0;
    for (int w = 0; w < workers; ++w) {
      if (!ws[w].alive) continue;
      drain(w);
      int status;
      pid_t q = waitpid(ws[w].pid, &status, WNOHANG);
      if (q == ws[w].pid) {
        drain(w);
        close(ws[w].fd); ws[w].fd = -1; ws[w].alive = false;
        if (!(WIFEXITED(status) && WEXITSTATUS(status) == 0)) {
          uint64_t idx = sh_->w[w].cur.load();
          bool in_case = sh_->w[w].started_ns.load() != 0;
          std::string detail;
          std::string sig = crash_signature(errfile(w), status, &detail);
          if (!in_case) {
            fprintf(stderr, "INTERNAL: worker %d died outside a case (%s)\n", w, detail.c_str());
            internal_errors_++;
          } else {
            std::string k = sp.klass ? sp.klass(idx) : "";
            violations_.push_back({sp.name, idx, sig + (k.empty() ? "" : "|" + k), detail});
            sh_->w[w].done.fetch_add(1);
            sh_->w[w].started_ns = 0;
            if (!sh_->stop.load()) spawn(w, idx + workers);
          }
        }
      } else {
        uint64_t st = sh_->w[w].started_ns.load(std::memory_order_acquire);
        if (st && (now_ns() - st) / 1e9 > sp.timeout_s) {
          uint64_t idx = sh_->w[w].cur.load();
          // make sure it is still the same case
          if (sh_->w[w].started_ns.load() == st) {
            kill(ws[w].pid, SIGKILL);
            waitpid(ws[w].pid, &status, 0);
            drain(w);
            close(ws[w].fd); ws[w].fd = -1; ws[w].alive = false;
            pending_solo.emplace_back(idx, "watchdog");
            sh_->w[w].done.fetch_add(1);
            sh_->w[w].started_ns = 0;
            if (!sh_->stop.load()) spawn(w, idx + workers);
          }
        }
      }
      if (ws[w].alive) alive++;
    }
    if (!alive) break;
    double el = (now_ns() - t0_) / 1e9;
    if (deadline_s > 0 && el > deadline_s && !sh_->stop.load()) {
      sh_->stop.store(1);
      deadline_hit_ = true;
    }
    usleep(5000);
  }
  // Solo re-runs of watchdog cases with the long limit.
  for (auto &ps : pending_solo) {
    bool to = false; double secs = 0;
    auto fails = run_solo(sp, ps.first, sp.solo_timeout_s, &to, &secs);
    slow++;
    for (auto &f : fails) violations_.push_back({sp.name, ps.first, f.first, f.second});
    fprintf(stderr, "[%s] slow case %s#%" PRIu64 ": solo run %.1f s%s\n", property.c_str(), sp.name.c_str(), ps.first, secs, to ? " (HANG)" : "");
  }
  uint64_t evaluated = 0;
  uint64_t min_next = UINT64_MAX;
  for (int w = 0; w < workers; ++w) {
    evaluated += sh_->w[w].done.load();
    min_next = std::min(min_next, sh_->w[w].next.load());
  }
  bool complete = evaluated >= size && !sh_->stop.load() && size == sp.size;
  stats_.push_back({sp.name, sp.size * sp.cases_per_index, evaluated * sp.cases_per_index, complete, (now_ns() - t_start) / 1e9, slow});
  fprintf(stderr, "[%s] space %-28s size %12" PRIu64 " evaluated %12" PRIu64 " %s %.1f s\n",
          property.c_str(), sp.name.c_str(), sp.size, evaluated, complete ? "complete" : "INCOMPLETE",
          (now_ns() - t_start) / 1e9);
}

inline void Runner::write_evidence(double wall, int nviol, const std::vector<std::string> &viol_samples) {
  if (evidence_path.empty()) return;
  uint64_t evaluations = 0;
  bool exhaustive = true;
  std::string spaces_json = "[";
  for (size_t i = 0; i < stats_.size(); ++i) {
    auto &s = stats_[i];
    evaluations += s.evaluated;
    exhaustive = exhaustive && s.complete;
    char b[512];
    snprintf(b, sizeof b, "%s{\"name\":%s,\"size\":%" PRIu64 ",\"evaluated\":%" PRIu64 ",\"complete\":%s,\"wall_s\":%.2f,\"slow_cases_rerun_solo\":%" PRIu64 "}",
             i ? "," : "", jstr(s.name).c_str(), s.size, s.evaluated, s.complete ? "true" : "false", s.wall, s.slow);
    spaces_json += b;
  }
  spaces_json += "]";
  uint64_t states = sh_->distinct_n[0].load();
  uint64_t nontriv = sh_->distinct_n[1].load();
  uint64_t transitions = 0;
  for (auto &n : transition_counters) transitions += counter(n);
  if (transitions == 0) transitions = evaluations;
  if (states == 0) states = evaluations;
  std::string counters = "{";
  {
    int n = sh_->num_counters.load();
    std::vector<std::pair<std::string, uint64_t>> cs;
    for (int i = 0; i < n; ++i) cs.emplace_back(sh_->counters[i].name, sh_->counters[i].value.load());
    std::sort(cs.begin(), cs.end());
    bool first = true;
    for (auto &c : cs) {
      counters += (first ? "" : ",") + jstr(c.first) + ":" + std::to_string(c.second);
      first = false;
    }
  }
  counters += "}";
  std::string samples = "[";
  {
    bool first = true;
    for (auto &sp : spaces) {
      bool sel = thorough() ? sp.thorough : sp.quick;
      if (!sel || !sp.describe || sp.size == 0) continue;
      if (!only_space.empty() && sp.name != only_space) continue;
      uint64_t picks[3] = {0, sp.size / 2, sp.size - 1};
      for (int k = 0; k < 3; ++k) {
        if (k && picks[k] == picks[k - 1]) continue;
        std::string d = sp.describe(picks[k]);
        if (d.size() > 600) d = d.substr(0, 600) + "...";
        samples += (first ? "" : ",") + std::string("{\"space\":") + jstr(sp.name) + ",\"index\":" + std::to_string(picks[k]) + ",\"case\":" + jstr(d) + "}";
        first = false;
      }
    }
    for (auto &v : viol_samples) { samples += (first ? "" : ",") + v; first = false; }
  }
  samples += "]";
  std::string o = "{\n";
  o += " \"property_id\": " + jstr(property) + ",\n";
  o += " \"tier\": " + jstr(tier) + ",\n";
  o += " \"seed\": " + std::to_string(seed) + ",\n";
  o += " \"level\": " + jstr(level) + ",\n";
  o += " \"coverage\": {\n";
  o += "  \"evaluations\": " + std::to_string(evaluations) + ",\n";
  o += "  \"distinct_nontrivial\": " + std::to_string(nontriv) + ",\n";
  o += "  \"rule\": " + jstr(rule) + ",\n";
  o += "  \"states\": " + std::to_string(states) + ",\n";
  o += "  \"transitions\": " + std::to_string(transitions) + ",\n";
  o += "  \"traces_validated_against_impl\": " + std::to_string(evaluations) + ",\n";
  o += "  \"explanation\": " + jstr(explanation) + ",\n";
  o += "  \"exhaustive\": " + std::string(exhaustive ? "true" : "false") + ",\n";
  o += "  \"deadline_hit\": " + std::string(deadline_hit_ ? "true" : "false") + ",\n";
  for (auto &kv : extra) o += "  " + jstr(kv.first) + ": " + kv.second + ",\n";
  o += "  \"spaces\": " + spaces_json + ",\n";
  o += "  \"counters\": " + counters + ",\n";
  o += "  \"samples\": " + samples + "\n";
  o += " },\n";
  o += " \"assumptions\": [";
  for (size_t i = 0; i < assumptions.size(); ++i) o += (i ? "," : "") + jstr(assumptions[i]);
  o += "],\n";
  char b[128];
  snprintf(b, sizeof b, " \"wall_s\": %.2f,\n \"violations\": %d\n}\n", wall, nviol);
  o += b;
  std::string tmp = evidence_path + ".tmp";
  {
    std::ofstream f(tmp);
    f << o;
  }
  rename(tmp.c_str(), evidence_path.c_str());
}

inline int Runner::replay_main() {
  setup_shared();
  for (auto &sp : spaces) {
    if (sp.name != replay_space) continue;
    if (replay_index >= sp.size) { fprintf(stderr, "index out of range\n"); return 2; }
    printf("replay property=%s space=%s index=%" PRIu64 "\ncase: %s\n", property.c_str(), sp.name.c_str(), replay_index,
           sp.describe ? sp.describe(replay_index).c_str() : "");
    bool to1, to2; double s1, s2;
    auto a = run_solo(sp, replay_index, sp.solo_timeout_s, &to1, &s1);
    auto b = run_solo(sp, replay_index, sp.solo_timeout_s, &to2, &s2);
    std::vector<std::string> sa, sb;
    for (auto &f : a) sa.push_back(f.first);
    for (auto &f : b) sb.push_back(f.first);
    if (sa != sb) {
      printf("INTERNAL: two replays disagree\n");
      return 2;
    }
    if (a.empty()) { printf("replay: property holds on this case\n"); return 0; }
    for (auto &f : a) printf("replay: FAIL %s :: %s\n", f.first.c_str(), f.second.c_str());
    return 1;
  }
  fprintf(stderr, "unknown space %s\n", replay_space.c_str());
  return 2;
}

inline int Runner::main() {
  setvbuf(stdout, nullptr, _IOLBF, 0);
  mkdir(log_dir.c_str(), 0755);
  if (replay_mode) return replay_main();
  if (deadline_s <= 0) deadline_s = thorough() ? 2400 : 300;
  setup_shared();
  load_known();
  t0_ = now_ns();
  for (auto &sp : spaces) {
    bool sel = thorough() ? sp.thorough : sp.quick;
    if (!sel) continue;
    if (!only_space.empty() && sp.name != only_space) continue;
    if (sh_->stop.load()) {
      stats_.push_back({sp.name, sp.size, 0, false, 0, 0});
      continue;
    }
    run_space(sp);
  }
  // Aggregate violations by signature, keep the smallest index per signature.
  std::map<std::string, Violation> first;
  for (auto &v : violations_) {
    auto it = first.find(v.sig);
    if (it == first.end() || std::make_pair(v.space, v.idx) < std::make_pair(it->second.space, it->second.idx)) first[v.sig] = v;
  }
  int nviol = 0;
  std::vector<std::string> viol_samples;
  std::vector<std::string> out_lines;
  for (auto &kv : first) {
    const Violation &v = kv.second;
    uint64_t cnt = counter("fail:" + v.sig);
    if (cnt == 0) {
      // crashes and hangs are recorded by the parent, one entry per case
      for (auto &o : violations_) cnt += o.sig == v.sig;
    }
    Known *k = match_known(v.sig);
    const Space *sp = nullptr;
    for (auto &s : spaces) if (s.name == v.space) sp = &s;
    std::string desc = sp && sp->describe ? sp->describe(v.idx) : "";
    if (k) {
      if (!k->hit) out_lines.push_back("KNOWN-FINDING: property=" + property + " " + k->what + " [signature " + v.sig + ", " + std::to_string(cnt) + " explored cases, first " + v.space + "#" + std::to_string(v.idx) + "]");
      k->hit = true;
      continue;
    }
    // Replay twice before reporting.
    bool reproduced = false, agree = true;
    if (sp) {
      bool to; double secs;
      auto a = run_solo(*sp, v.idx, sp->solo_timeout_s, &to, &secs);
      auto b = run_solo(*sp, v.idx, sp->solo_timeout_s, &to, &secs);
      std::vector<std::string> sa, sb;
      for (auto &f : a) sa.push_back(f.first);
      for (auto &f : b) sb.push_back(f.first);
      // the reported signature must appear in BOTH replays; other signatures of the same case may differ between two
      // executions when the code under test reads stale memory (that is a property of the subject, not of the harness)
      reproduced = std::find(sa.begin(), sa.end(), v.sig) != sa.end();
      agree = reproduced == (std::find(sb.begin(), sb.end(), v.sig) != sb.end());
    }
    if (!agree || !reproduced) {
      fprintf(stderr, "INTERNAL: case %s#%" PRIu64 " (%s) did not reproduce deterministically (agree=%d reproduced=%d)\n",
              v.space.c_str(), v.idx, v.sig.c_str(), agree, reproduced);
      internal_errors_++;
      continue;
    }
    nviol++;
    {
      std::string parent = replay_dir.substr(0, replay_dir.rfind('/'));
      mkdir(parent.c_str(), 0755);
      mkdir(replay_dir.c_str(), 0755);
    }
    char name[64];
    snprintf(name, sizeof name, "%016" PRIx64, hash_str(v.sig + v.space));
    std::string path = replay_dir + "/" + name + ".json";
    std::string j = "{\"property\":" + jstr(property) + ",\"part\":" + std::to_string(part) + ",\"space\":" + jstr(v.space) + ",\"index\":" + std::to_string(v.idx) +
                    ",\"signature\":" + jstr(v.sig) + ",\"cases_with_this_signature\":" + std::to_string(cnt) +
                    ",\"case\":" + jstr(desc) + ",\"detail\":" + jstr(v.detail) + "}";
    {
      std::ofstream f(path);
      f << j << "\n";
    }
    if (viol_samples.size() < 5) viol_samples.push_back(j);
    out_lines.push_back("VIOLATION property=" + property + " replay=" + path);
    fprintf(stderr, "[%s] violation %s (%" PRIu64 " cases) first %s#%" PRIu64 ": %s | %s\n", property.c_str(), v.sig.c_str(), cnt,
            v.space.c_str(), v.idx, desc.substr(0, 240).c_str(), v.detail.substr(0, 240).c_str());
  }
  // Vacuity guards.
  for (auto &r : required) {
    uint64_t c = counter(r.first);
    if (c < r.second && !deadline_hit_ && only_space.empty() && !limit) {
      fprintf(stderr, "INTERNAL: vacuity guard: counter %s = %" PRIu64 " < %" PRIu64 "\n", r.first.c_str(), c, r.second);
      internal_errors_++;
    }
  }
  double wall = (now_ns() - t0_) / 1e9;
  write_evidence(wall, nviol, viol_samples);
  for (auto &l : out_lines) printf("%s\n", l.c_str());
  uint64_t ev = 0;
  for (auto &s : stats_) ev += s.evaluated;
  printf("%s tier=%s evaluations=%" PRIu64 " states=%" PRIu64 " nontrivial=%" PRIu64 " violations=%d exhaustive=%s wall=%.1fs\n",
         property.c_str(), tier.c_str(), ev, sh_->distinct_n[0].load(), sh_->distinct_n[1].load(), nviol,
         deadline_hit_ ? "false(deadline)" : "true", wall);
  if (nviol) return 1;
  return internal_errors_ ? 2 : 0;
}

}  // namespace mc

#endif  // VERIF_MC_RUNNER_H_
