// Replaceable global operator new/delete: the allocator as an explored
// "environment answer" and as a monitor.
//   * cap: a single request above `cap` throws std::bad_alloc (recorded);
//     corrupted element counts otherwise really allocate gigabytes;
//   * monitor: number of requests, largest request, live bytes, peak;
//   * fill: fresh memory is filled with a chosen byte (00 / FF / A5) so that a
//     dependence on uninitialised heap contents becomes a visible difference;
//   * hook: optional callback on every new/delete (scheduling point for C19).
// Include in exactly one translation unit of a harness.
#ifndef VERIF_MC_ALLOC_ENV_H_
#define VERIF_MC_ALLOC_ENV_H_

#include "mc/alloc_env_decl.h"

namespace mc {

inline void *env_alloc(size_t n, bool nothrow) {
  AllocEnv &e = alloc_env();
  if (e.hook) e.hook(0, n);
  if (n > e.cap) {
    e.refused++;
    e.refused_size = n;
    if (nothrow) return nullptr;
    throw std::bad_alloc();
  }
  if (e.arena_mode && e.arena_base) {
    const size_t need = (n + 15) & ~size_t(15);
    if (e.arena_used + need > e.arena_size) {
      if (nothrow) return nullptr;
      throw std::bad_alloc();
    }
    char *q = e.arena_mode == 1 ? e.arena_base + e.arena_used : e.arena_base + e.arena_size - e.arena_used - need;
    e.arena_used += need;
    if (e.fill >= 0) memset(q, e.fill, n);
    return q;
  }
  void *p = malloc(n ? n : 1);
  if (!p) {
    if (nothrow) return nullptr;
    throw std::bad_alloc();
  }
  if (e.fill >= 0) memset(p, e.fill, n);
  if (e.monitor) {
    e.requests++;
    if (n > e.largest) e.largest = n;
    e.live += (int64_t)malloc_usable_size(p);
    if (e.live > e.peak) e.peak = e.live;
  }
  return p;
}
inline void env_free(void *p) {
  if (!p) return;
  AllocEnv &e = alloc_env();
  if (e.hook) e.hook(1, 0);
  if (e.arena_base && static_cast<char *>(p) >= e.arena_base && static_cast<char *>(p) < e.arena_base + e.arena_size) return;
  if (e.monitor) e.live -= (int64_t)malloc_usable_size(p);
  free(p);
}

}  // namespace mc

// ThreadSanitizer's runtime defines (non-weak) operator new/delete itself; in that
// build the environment is declared but not installed.
#if defined(__has_feature)
#if __has_feature(thread_sanitizer)
#define VERIF_NO_ALLOC_REPLACEMENT 1
#endif
#endif
#if defined(__SANITIZE_THREAD__)
#define VERIF_NO_ALLOC_REPLACEMENT 1
#endif

#ifndef VERIF_NO_ALLOC_REPLACEMENT
void *operator new(size_t n) { return mc::env_alloc(n, false); }
void *operator new[](size_t n) { return mc::env_alloc(n, false); }
void *operator new(size_t n, const std::nothrow_t &) noexcept { return mc::env_alloc(n, true); }
void *operator new[](size_t n, const std::nothrow_t &) noexcept { return mc::env_alloc(n, true); }
void operator delete(void *p) noexcept { mc::env_free(p); }
void operator delete[](void *p) noexcept { mc::env_free(p); }
void operator delete(void *p, size_t) noexcept { mc::env_free(p); }
void operator delete[](void *p, size_t) noexcept { mc::env_free(p); }
void operator delete(void *p, const std::nothrow_t &) noexcept { mc::env_free(p); }
void operator delete[](void *p, const std::nothrow_t &) noexcept { mc::env_free(p); }

#endif  // VERIF_NO_ALLOC_REPLACEMENT

#endif  // VERIF_MC_ALLOC_ENV_H_
