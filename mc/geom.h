// Small-geometry definitions, builders, the reference geometry model (RefGeom)
// and encode/decode wrappers shared by the geometry-level harnesses.
#ifndef VERIF_MC_GEOM_H_
#define VERIF_MC_GEOM_H_

#include <array>
#include <cmath>
#include <cstring>
#include <map>
#include <memory>
#include <string>
#include <vector>

#include "draco/attributes/attribute_octahedron_transform.h"
#include "draco/attributes/attribute_quantization_transform.h"
#include "draco/compression/decode.h"
#include "draco/compression/encode.h"
#include "draco/compression/expert_encode.h"
#include "draco/core/decoder_buffer.h"
#include "draco/core/encoder_buffer.h"
#include "draco/mesh/mesh.h"
#include "draco/point_cloud/point_cloud.h"
#include "mc/runner.h"

namespace mcg {

using namespace draco;

typedef std::vector<uint8_t> Bytes;

struct AttDef {
  GeometryAttribute::Type type = GeometryAttribute::POSITION;
  DataType dt = DT_FLOAT32;
  int nc = 3;
  bool normalized = false;
  uint32_t uid = 0;
  std::vector<Bytes> entries;  // each nc * DataTypeLength(dt) bytes
  std::vector<int> map;        // point -> entry; empty = identity mapping
  bool per_corner = false;     // element type hint for meshes
};

struct GeomDef {
  bool is_mesh = true;
  int num_points = 0;
  std::vector<std::array<int, 3>> faces;
  std::vector<AttDef> atts;
};

template <typename T>
inline Bytes bytes_of(const std::vector<T> &v) {
  Bytes b(v.size() * sizeof(T));
  if (!v.empty()) memcpy(b.data(), v.data(), b.size());
  return b;
}

inline std::string dt_name(DataType dt) {
  switch (dt) {
    case DT_INT8: return "i8";
    case DT_UINT8: return "u8";
    case DT_INT16: return "i16";
    case DT_UINT16: return "u16";
    case DT_INT32: return "i32";
    case DT_UINT32: return "u32";
    case DT_INT64: return "i64";
    case DT_UINT64: return "u64";
    case DT_FLOAT32: return "f32";
    case DT_FLOAT64: return "f64";
    case DT_BOOL: return "bool";
    default: return "dt?";
  }
}

inline std::string value_text(DataType dt, const uint8_t *p, int nc) {
  std::string s = "(";
  for (int c = 0; c < nc; ++c) {
    char b[48];
    switch (dt) {
      case DT_INT8: snprintf(b, sizeof b, "%d", (int)*(const int8_t *)(p + c)); break;
      case DT_UINT8: snprintf(b, sizeof b, "%u", (unsigned)*(p + c)); break;
      case DT_INT16: { int16_t v; memcpy(&v, p + 2 * c, 2); snprintf(b, sizeof b, "%d", v); break; }
      case DT_UINT16: { uint16_t v; memcpy(&v, p + 2 * c, 2); snprintf(b, sizeof b, "%u", v); break; }
      case DT_INT32: { int32_t v; memcpy(&v, p + 4 * c, 4); snprintf(b, sizeof b, "%d", v); break; }
      case DT_UINT32: { uint32_t v; memcpy(&v, p + 4 * c, 4); snprintf(b, sizeof b, "%u", v); break; }
      case DT_FLOAT32: { float v; uint32_t u; memcpy(&v, p + 4 * c, 4); memcpy(&u, p + 4 * c, 4); snprintf(b, sizeof b, "%.9g[%08x]", v, u); break; }
      default: snprintf(b, sizeof b, "?");
    }
    s += (c ? "," : "") + std::string(b);
  }
  return s + ")";
}

inline std::string text(const GeomDef &g) {
  std::string s = g.is_mesh ? "mesh" : "cloud";
  s += " points=" + std::to_string(g.num_points);
  if (g.is_mesh) {
    s += " faces=[";
    for (auto &f : g.faces) s += "(" + std::to_string(f[0]) + "," + std::to_string(f[1]) + "," + std::to_string(f[2]) + ")";
    s += "]";
  }
  for (auto &a : g.atts) {
    s += " att{uid=" + std::to_string(a.uid) + " " + GeometryAttribute::TypeToString(a.type) + " " + dt_name(a.dt) + "x" + std::to_string(a.nc) +
         (a.normalized ? " norm" : "") + " entries=[";
    for (size_t i = 0; i < a.entries.size() && i < 12; ++i) s += value_text(a.dt, a.entries[i].data(), a.nc);
    if (a.entries.size() > 12) s += "...(" + std::to_string(a.entries.size()) + ")";
    s += "] map=";
    if (a.map.empty()) s += "identity";
    else {
      s += "[";
      for (size_t i = 0; i < a.map.size() && i < 24; ++i) s += (i ? "," : "") + std::to_string(a.map[i]);
      if (a.map.size() > 24) s += "...";
      s += "]";
    }
    s += "}";
  }
  return s;
}

inline void fill_cloud(const GeomDef &g, PointCloud *pc, Mesh *m) {
  pc->set_num_points(g.num_points);
  for (auto &a : g.atts) {
    GeometryAttribute ga;
    const int stride = DataTypeLength(a.dt) * a.nc;
    ga.Init(a.type, nullptr, a.nc, a.dt, a.normalized, stride, 0);
    const bool identity = a.map.empty();
    const int id = pc->AddAttribute(ga, identity, (uint32_t)a.entries.size());
    PointAttribute *pa = pc->attribute(id);
    for (size_t i = 0; i < a.entries.size(); ++i) pa->SetAttributeValue(AttributeValueIndex((uint32_t)i), a.entries[i].data());
    if (!identity)
      for (int p = 0; p < g.num_points; ++p) pa->SetPointMapEntry(PointIndex(p), AttributeValueIndex((uint32_t)a.map[p]));
    pa->set_unique_id(a.uid);
    if (m) m->SetAttributeElementType(id, a.per_corner ? MESH_CORNER_ATTRIBUTE : MESH_VERTEX_ATTRIBUTE);
  }
}

inline std::unique_ptr<Mesh> build_mesh(const GeomDef &g) {
  std::unique_ptr<Mesh> m(new Mesh());
  for (auto &f : g.faces) {
    Mesh::Face face;
    for (int k = 0; k < 3; ++k) face[k] = PointIndex(f[k]);
    m->AddFace(face);
  }
  fill_cloud(g, m.get(), m.get());
  return m;
}
inline std::unique_ptr<PointCloud> build_cloud(const GeomDef &g) {
  std::unique_ptr<PointCloud> pc(new PointCloud());
  fill_cloud(g, pc.get(), nullptr);
  return pc;
}

// ------------------------------------------------------------ RefGeom
struct RefAtt {
  uint32_t uid;
  int type, dt, nc;
  bool normalized;
  bool operator==(const RefAtt &o) const {
    return uid == o.uid && type == o.type && dt == o.dt && nc == o.nc && normalized == o.normalized;
  }
  bool operator<(const RefAtt &o) const { return uid < o.uid; }
};

struct RefGeom {
  std::vector<RefAtt> atts;          // sorted by unique id
  std::vector<std::string> points;   // per point: concatenated value bytes (attribute order = atts), in point order
  std::vector<std::string> tris;     // per face: rotation-canonical corner triple, in face order
  std::vector<bool> tri_pos_degenerate;  // face uses one position *entry* twice
  bool is_mesh = false;
  bool duplicate_uids = false;
};

inline std::string point_tuple(const PointCloud &pc, const std::vector<int> &att_order, PointIndex p) {
  std::string s;
  for (int ai : att_order) {
    const PointAttribute *a = pc.attribute(ai);
    const int n = DataTypeLength(a->data_type()) * a->num_components();
    const AttributeValueIndex avi = a->mapped_index(p);
    std::string v(n, '\0');
    if (avi.value() < a->size()) a->GetValue(avi, &v[0]);
    else v.assign(n, '\xEE');
    s += v;
  }
  return s;
}

inline std::string canon_tri(const std::string &a, const std::string &b, const std::string &c) {
  // smallest of the three rotations (orientation is preserved)
  std::string r0 = a + b + c, r1 = b + c + a, r2 = c + a + b;
  return std::min(r0, std::min(r1, r2));
}

inline RefGeom ref_of(const PointCloud &pc, const Mesh *m) {
  RefGeom r;
  r.is_mesh = m != nullptr;
  std::vector<std::pair<uint32_t, int>> order;
  for (int i = 0; i < pc.num_attributes(); ++i) order.emplace_back(pc.attribute(i)->unique_id(), i);
  std::sort(order.begin(), order.end());
  std::vector<int> att_order;
  for (size_t i = 0; i < order.size(); ++i) {
    if (i && order[i].first == order[i - 1].first) r.duplicate_uids = true;
    const PointAttribute *a = pc.attribute(order[i].second);
    r.atts.push_back({a->unique_id(), (int)a->attribute_type(), (int)a->data_type(), (int)a->num_components(), a->normalized()});
    att_order.push_back(order[i].second);
  }
  r.points.reserve(pc.num_points());
  for (PointIndex p(0); p < pc.num_points(); ++p) r.points.push_back(point_tuple(pc, att_order, p));
  if (m) {
    const PointAttribute *pos = m->GetNamedAttribute(GeometryAttribute::POSITION);
    for (FaceIndex f(0); f < m->num_faces(); ++f) {
      const Mesh::Face &face = m->face(f);
      bool bad = false;
      for (int k = 0; k < 3; ++k) bad = bad || face[k].value() >= pc.num_points();
      if (bad) {
        r.tris.push_back("INVALID-FACE");
        r.tri_pos_degenerate.push_back(false);
        continue;
      }
      r.tris.push_back(canon_tri(r.points[face[0].value()], r.points[face[1].value()], r.points[face[2].value()]));
      bool deg = false;
      if (pos) {
        const uint32_t a = pos->mapped_index(face[0]).value(), b = pos->mapped_index(face[1]).value(), c = pos->mapped_index(face[2]).value();
        deg = a == b || b == c || a == c;
      }
      r.tri_pos_degenerate.push_back(deg);
    }
  }
  return r;
}

inline std::map<std::string, int> multiset_of(const std::vector<std::string> &v) {
  std::map<std::string, int> m;
  for (auto &s : v) m[s]++;
  return m;
}
// a ⊆ b as multisets
inline bool multiset_included(const std::map<std::string, int> &a, const std::map<std::string, int> &b) {
  for (auto &kv : a) {
    auto it = b.find(kv.first);
    if (it == b.end() || it->second < kv.second) return false;
  }
  return true;
}

// ------------------------------------------------------------ encode / decode
struct EncCfg {
  int method = -1;     // mesh: 0 sequential, 1 edgebreaker; cloud: 0 sequential, 1 kd-tree; -1 automatic
  int eb_method = -1;  // -1 automatic, 0 standard, 1 predictive(deprecated), 2 valence
  int speed_enc = 5, speed_dec = 5;
  int split_on_seams = -1;  // -1 not set
  bool compress_connectivity = false;
  bool builtin_entropy = true;
  bool track = false;
  std::vector<int> qbits;  // per attribute id (index in GeomDef::atts); <=0: none
  std::vector<int> pred;   // per attribute id; -100: automatic
  // explicit quantization (per attribute id): bits in qbits, origin/range here
  std::map<int, std::pair<std::vector<float>, float>> explicit_q;
  bool use_plain_encoder = false;  // draco::Encoder (options by attribute type) instead of ExpertEncoder
  // plain Encoder only: the SAME Encoder object first encodes a fixed two-triangle mesh (with the same options) before it encodes the
  // geometry of the case, so that everything the object tracks is observed after a history of depth 1
  bool preface_mesh_encode = false;
};

inline std::string text(const EncCfg &c) {
  std::string s = "cfg{method=" + std::to_string(c.method) + " eb=" + std::to_string(c.eb_method) + " speed=" + std::to_string(c.speed_enc) + "/" +
                  std::to_string(c.speed_dec) + " split=" + std::to_string(c.split_on_seams) + " cc=" + std::to_string(c.compress_connectivity) +
                  " entropy=" + std::to_string(c.builtin_entropy) + " track=" + std::to_string(c.track) + " q=[";
  for (size_t i = 0; i < c.qbits.size(); ++i) s += (i ? "," : "") + std::to_string(c.qbits[i]);
  s += "] pred=[";
  for (size_t i = 0; i < c.pred.size(); ++i) s += (i ? "," : "") + std::to_string(c.pred[i]);
  s += "]";
  for (auto &e : c.explicit_q) {
    s += " explicit{att=" + std::to_string(e.first) + " origin=(";
    for (size_t i = 0; i < e.second.first.size(); ++i) {
      char b[32];
      snprintf(b, sizeof b, "%s%.9g", i ? "," : "", e.second.first[i]);
      s += b;
    }
    char b[32];
    snprintf(b, sizeof b, ") range=%.9g}", e.second.second);
    s += b;
  }
  s += c.use_plain_encoder ? " Encoder}" : " ExpertEncoder}";
  return s;
}

struct EncResult {
  bool ok = false;
  std::string error;
  Bytes bytes;
  size_t num_encoded_points = 0, num_encoded_faces = 0;
  std::string pred_status;  // non-empty: SetAttributePredictionScheme refused
};

inline EncResult encode(const GeomDef &g, const PointCloud &pc, const Mesh *m, const EncCfg &c) {
  EncResult r;
  EncoderBuffer buf;
  Status st;
  if (!c.use_plain_encoder) {
    std::unique_ptr<ExpertEncoder> e(m ? new ExpertEncoder(*m) : new ExpertEncoder(pc));
    EncoderOptions o = EncoderOptions::CreateDefaultOptions();
    if (c.split_on_seams >= 0) o.SetGlobalBool("split_mesh_on_seams", c.split_on_seams != 0);
    if (c.compress_connectivity) o.SetGlobalBool("compress_connectivity", true);
    // ExpertEncoder::SetEncodingSubmethod (called below as well) stores the option "encoding_submethod", which nothing reads; the
    // Edgebreaker encoder reads "edgebreaker_method". Set that option directly, otherwise "valence" configurations silently run the
    // standard traversal on every mesh below 1000 faces.
    if (c.eb_method >= 0) o.SetGlobalInt("edgebreaker_method", c.eb_method);
    e->Reset(o);
    e->SetSpeedOptions(c.speed_enc, c.speed_dec);
    if (c.method >= 0) e->SetEncodingMethod(c.method);
    if (c.eb_method >= 0) e->SetEncodingSubmethod(c.eb_method);
    if (!c.builtin_entropy) e->SetUseBuiltInAttributeCompression(false);
    if (c.track) e->SetTrackEncodedProperties(true);
    for (size_t i = 0; i < c.qbits.size(); ++i) {
      if (c.qbits[i] <= 0) continue;
      auto it = c.explicit_q.find((int)i);
      if (it != c.explicit_q.end())
        e->SetAttributeExplicitQuantization((int)i, c.qbits[i], (int)it->second.first.size(), it->second.first.data(), it->second.second);
      else
        e->SetAttributeQuantization((int)i, c.qbits[i]);
    }
    for (size_t i = 0; i < c.pred.size(); ++i) {
      if (c.pred[i] == -100) continue;
      Status ps = e->SetAttributePredictionScheme((int)i, c.pred[i]);
      if (!ps.ok()) {
        r.pred_status = ps.error_msg_string();
        return r;
      }
    }
    st = e->EncodeToBuffer(&buf);
    r.num_encoded_points = e->num_encoded_points();
    r.num_encoded_faces = e->num_encoded_faces();
  } else {
    Encoder e;
    EncoderOptionsBase<GeometryAttribute::Type> o = EncoderOptionsBase<GeometryAttribute::Type>::CreateDefaultOptions();
    if (c.split_on_seams >= 0) o.SetGlobalBool("split_mesh_on_seams", c.split_on_seams != 0);
    if (c.compress_connectivity) o.SetGlobalBool("compress_connectivity", true);
    if (!c.builtin_entropy) o.SetGlobalBool("use_built_in_attribute_compression", false);
    if (c.eb_method >= 0) o.SetGlobalInt("edgebreaker_method", c.eb_method);
    e.Reset(o);
    e.SetSpeedOptions(c.speed_enc, c.speed_dec);
    if (c.method >= 0) e.SetEncodingMethod(c.method);
    if (c.track) e.SetTrackEncodedProperties(true);
    for (size_t i = 0; i < c.qbits.size(); ++i) {
      if (c.qbits[i] <= 0) continue;
      auto it = c.explicit_q.find((int)i);
      if (it != c.explicit_q.end())
        e.SetAttributeExplicitQuantization(g.atts[i].type, c.qbits[i], (int)it->second.first.size(), it->second.first.data(), it->second.second);
      else
        e.SetAttributeQuantization(g.atts[i].type, c.qbits[i]);
    }
    for (size_t i = 0; i < c.pred.size(); ++i) {
      if (c.pred[i] == -100) continue;
      Status ps = e.SetAttributePredictionScheme(g.atts[i].type, c.pred[i]);
      if (!ps.ok()) {
        r.pred_status = ps.error_msg_string();
        return r;
      }
    }
    if (c.preface_mesh_encode) {
      // a fixed mesh with one attribute of every type the case quantizes (options are set by attribute type)
      static std::unique_ptr<Mesh> preface;
      if (!preface) {
        GeomDef pg;
        pg.is_mesh = true;
        pg.num_points = 4;
        pg.faces = {{0, 1, 2}, {2, 1, 3}};
        AttDef pa;
        pa.type = GeometryAttribute::POSITION;
        pa.dt = DT_FLOAT32;
        pa.nc = 3;
        pa.uid = 0;
        for (int i = 0; i < 4; ++i) pa.entries.push_back(bytes_of(std::vector<float>{(float)(i & 1), (float)(i >> 1), 0.25f * i}));
        pg.atts = {pa};
        preface = build_mesh(pg);
      }
      EncoderBuffer scratch;
      (void)e.EncodeMeshToBuffer(*preface, &scratch);
    }
    st = m ? e.EncodeMeshToBuffer(*m, &buf) : e.EncodePointCloudToBuffer(pc, &buf);
    r.num_encoded_points = e.num_encoded_points();
    r.num_encoded_faces = e.num_encoded_faces();
  }
  r.ok = st.ok();
  if (!r.ok) r.error = st.error_msg_string();
  r.bytes.assign(buf.data(), buf.data() + buf.size());
  return r;
}

struct DecResult {
  bool ok = false;
  std::string error;
  int code = 0;
  std::unique_ptr<PointCloud> pc;  // Mesh if is_mesh
  Mesh *mesh = nullptr;
  size_t remaining = 0;
};

// skip: attribute types for which the attribute transform is skipped.
inline DecResult decode(const uint8_t *data, size_t size, const std::vector<GeometryAttribute::Type> &skip = {}) {
  DecResult r;
  DecoderBuffer b;
  b.Init(reinterpret_cast<const char *>(data), size);
  Decoder d;
  for (auto t : skip) d.SetSkipAttributeTransform(t);
  auto type = Decoder::GetEncodedGeometryType(&b);
  if (!type.ok()) {
    r.error = type.status().error_msg_string();
    r.code = type.status().code();
    return r;
  }
  if (type.value() == TRIANGULAR_MESH) {
    auto res = d.DecodeMeshFromBuffer(&b);
    if (!res.ok()) {
      r.error = res.status().error_msg_string();
      r.code = res.status().code();
      return r;
    }
    std::unique_ptr<Mesh> m = std::move(res).value();
    r.mesh = m.get();
    r.pc = std::move(m);
  } else if (type.value() == POINT_CLOUD) {
    auto res = d.DecodePointCloudFromBuffer(&b);
    if (!res.ok()) {
      r.error = res.status().error_msg_string();
      r.code = res.status().code();
      return r;
    }
    r.pc = std::move(res).value();
  } else {
    r.error = "unknown geometry type";
    return r;
  }
  r.ok = true;
  r.remaining = b.remaining_size();
  return r;
}
inline DecResult decode(const Bytes &b, const std::vector<GeometryAttribute::Type> &skip = {}) {
  return decode(b.data(), b.size(), skip);
}

// ------------------------------------------------------------ structural validity (C03)
// Returns "" when the geometry is self-consistent, else a short reason. Uses
// only what the property names: faces -> existing points, points -> existing
// values, storage large enough for the declared count/stride.
inline std::string validate_structure(const PointCloud &pc, const Mesh *m) {
  const uint32_t np = pc.num_points();
  if (m) {
    for (FaceIndex f(0); f < m->num_faces(); ++f) {
      const Mesh::Face &face = m->face(f);
      for (int k = 0; k < 3; ++k)
        if (face[k].value() >= np) return "face-index>=num_points";
    }
  }
  for (int i = 0; i < pc.num_attributes(); ++i) {
    const PointAttribute *a = pc.attribute(i);
    if (!a) return "null-attribute";
    const int64_t elem = (int64_t)DataTypeLength(a->data_type()) * a->num_components();
    if (a->num_components() <= 0 || DataTypeLength(a->data_type()) <= 0) return "bad-descriptor";
    if (a->byte_stride() < elem) return "stride<element";
    const DataBuffer *buf = a->buffer();
    const int64_t have = buf ? (int64_t)buf->data_size() : 0;
    if (a->byte_offset() + (int64_t)a->size() * a->byte_stride() > have && a->size() > 0) return "buffer-too-small-for-size";
    if (a->is_mapping_identity()) {
      if (a->size() < np) return "identity-map-size<num_points";
    } else {
      if (a->indices_map_size() < np) return "indices-map<num_points";
      for (PointIndex p(0); p < np; ++p)
        if (a->mapped_index(p).value() >= a->size()) return "mapped-index>=size";
    }
  }
  return "";
}

// Reads every value and face through public accessors (memory safety is
// decided by ASan while this runs). Returns a checksum.
inline uint64_t touch_everything(const PointCloud &pc, const Mesh *m) {
  uint64_t h = pc.num_points();
  if (m)
    for (FaceIndex f(0); f < m->num_faces(); ++f) {
      const Mesh::Face &face = m->face(f);
      h = mc::hash_combine(h, face[0].value() ^ (uint64_t(face[1].value()) << 20) ^ (uint64_t(face[2].value()) << 40));
    }
  std::vector<uint8_t> tmp;
  for (int i = 0; i < pc.num_attributes(); ++i) {
    const PointAttribute *a = pc.attribute(i);
    const size_t n = (size_t)DataTypeLength(a->data_type()) * a->num_components();
    tmp.assign(n, 0);
    for (PointIndex p(0); p < pc.num_points(); ++p) {
      a->GetMappedValue(p, tmp.data());
      h = mc::hash_combine(h, mc::hash_bytes(tmp.data(), n));
    }
    for (AttributeValueIndex v(0); v < a->size(); ++v) {
      a->GetValue(v, tmp.data());
      h = mc::hash_combine(h, mc::hash_bytes(tmp.data(), n));
    }
  }
  return h;
}

// Ordered digest of a decoded geometry (points, faces, values, attribute ids).
inline uint64_t ordered_digest(const PointCloud &pc, const Mesh *m) {
  uint64_t h = mc::hash_combine(pc.num_points(), pc.num_attributes());
  for (int i = 0; i < pc.num_attributes(); ++i) {
    const PointAttribute *a = pc.attribute(i);
    h = mc::hash_combine(h, a->unique_id());
    h = mc::hash_combine(h, (uint64_t)a->attribute_type() * 1000003 + (uint64_t)a->data_type() * 1009 + a->num_components() * 2 + a->normalized());
  }
  return mc::hash_combine(h, touch_everything(pc, m));
}

}  // namespace mcg

#endif  // VERIF_MC_GEOM_H_
